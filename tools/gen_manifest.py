#!/venv/bin/python
"""Regenerate MANIFEST.json from props.py (claimed checks) and NA (not_applicable reasons)."""
import json, os, sys
HERE = os.path.dirname(os.path.dirname(os.path.abspath(__file__)))
sys.path.insert(0, HERE)
import props

ALL = ["C%02d" % i for i in range(1, 21)]
NA = getattr(props, "NOT_APPLICABLE", {})
FIX_COMMITS = []
m = {
    "version": 1,
    "setup_cmd": "true",
    "hooks": {
        "guard": "LASIO_VERIF",
        "enable": "none needed: the checks parse /repo/lasio/*.py and never execute lasio, so no hook or "
                  "instrumentation exists in the source; LASIO_VERIF is reserved and unused",
        "baseline_off_cmd": "cd /repo && /venv/bin/python -m pytest -ra -q -p no:cacheprovider --timeout=900 "
                            "--continue-on-collection-errors",
        "source_commits": [],
        "add_only": True,
    },
    "engines": [{
        "name": "sa",
        "path": "sa/",
        "serves_properties": sorted(props.PROPS),
        "kind_free_text": "repository-specific static analyser (pure Python, stdlib ast/re._parser + zip-imported "
                          "networkx): loader/resolver, statement CFG with exception edges and duplicated "
                          "finally/with exits, reaching definitions, provenance, control dependence, may-write "
                          "effects, constant-table folding, regex field summaries and DFA language inclusion",
    }],
    "checks": [],
    "not_applicable": [],
    "notes": "All checks are static: they parse the working tree under /repo (or $LASIO_SRC) on every run and "
             "never import or run lasio. exit 2 + ANALYSIS-ERROR means the analysis could not be carried out "
             "(anchor vanished); it is never printed together with VIOLATION. Recorded genuine defects live in "
             "KNOWN_FINDINGS.txt (read-only at run time).",
}
for pid in ALL:
    if pid in props.PROPS:
        sp = props.PROPS[pid]
        m["checks"].append({
            "property_id": pid,
            "quick_cmd": "./check %s --tier quick" % pid,
            "thorough_cmd": "./check %s --tier thorough" % pid,
            "evidence_file": "evidence/%s.json" % pid,
            "replay_cmd_template": "./check %s --explain {path}" % pid,
            "engine": "sa",
            "level_claimed": {"category": "other", "text": sp["level_text"], "design_ref": sp["design_ref"]},
            "level_note": sp["level_note"],
            "technique": sp["technique"],
        })
    else:
        m["not_applicable"].append({"property_id": pid, "reason": NA.get(
            pid, "not claimed yet: the static rules for this property are not implemented in this commit")})
with open(os.path.join(HERE, "MANIFEST.json"), "w") as f:
    json.dump(m, f, indent=1)
    f.write("\n")
print("MANIFEST.json: %d checks, %d not_applicable" % (len(m["checks"]), len(m["not_applicable"])))
