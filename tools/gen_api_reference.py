#!/venv/bin/python
"""Freeze the parameter names of every function of the lasio package as found in /repo today (sa/api_reference.json).
sa/normalize.propagate_default_params uses it to tell parameters that exist today (whose every value the properties quantify
over) from optional parameters a later change adds (which the properties do not mention, so their default is their value)."""
import ast, json, os, sys
root = sys.argv[1] if len(sys.argv) > 1 else "/repo"
out = {}
pkg = os.path.join(root, "lasio")
for fn in sorted(os.listdir(pkg)):
    if not fn.endswith(".py"):
        continue
    tree = ast.parse(open(os.path.join(pkg, fn), encoding="utf-8").read())

    def walk(node, prefix):
        for ch in ast.iter_child_nodes(node):
            if isinstance(ch, (ast.FunctionDef, ast.AsyncFunctionDef)):
                q = prefix + "." + ch.name
                a = ch.args
                out[q] = [x.arg for x in getattr(a, "posonlyargs", []) + a.args + a.kwonlyargs] + \
                    ([a.vararg.arg] if a.vararg else []) + ([a.kwarg.arg] if a.kwarg else [])
                walk(ch, q)
            elif isinstance(ch, ast.ClassDef):
                walk(ch, prefix + "." + ch.name)
            else:
                walk(ch, prefix)
    walk(tree, fn[:-3])
    # module-level names of today's tree (a constant a later change adds is not an anchor of any rule)
    out["%s:globals" % fn[:-3]] = sorted({t.id for st in tree.body if isinstance(st, (ast.Assign, ast.AnnAssign))
                                         for t in (st.targets if isinstance(st, ast.Assign) else [st.target]) if isinstance(t, ast.Name)})
here = os.path.dirname(os.path.dirname(os.path.abspath(__file__)))
json.dump(out, open(os.path.join(here, "sa", "api_reference.json"), "w"), indent=0, sort_keys=True)
print("api_reference.json: %d functions" % len(out))
