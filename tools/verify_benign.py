#!/venv/bin/python
"""Confirm a behaviour-preserving refactoring: the patch applies to /repo and the pinned suite still gives 254 passed.
(Equivalence beyond the suite is argued by its author in meta.json; here it only serves as a no-false-alarm probe.)"""
import json, os, re, shutil, subprocess, sys, tempfile
sys.path.insert(0, os.path.dirname(os.path.abspath(__file__)))
from verify_seeded import DESELECT, run

def verify(diff):
    out = {"diff": diff}
    tmp = tempfile.mkdtemp(prefix="benignverify_")
    try:
        tree = os.path.join(tmp, "repo")
        shutil.copytree("/repo", tree, ignore=shutil.ignore_patterns(".git", "__pycache__", "*.pyc", ".coverage", "coverage.xml"))
        rc, o = run(["patch", "-p1", "-i", diff], tree)
        out["applies"] = rc == 0
        if rc == 0:
            cmd = ["/venv/bin/python", "-m", "pytest", "-q", "-p", "no:cacheprovider", "--timeout=900", "-q", "--no-cov"]
            for d in DESELECT:
                cmd += ["--deselect", d]
            rc, o = run(cmd, tree, {"PYTHONPATH": tree})
            m = re.search(r"(\d+) passed", o)
            out["tests_passed_n"] = int(m.group(1)) if m else 0
            out["confirmed"] = rc == 0 and out["tests_passed_n"] == 254
    finally:
        shutil.rmtree(tmp, ignore_errors=True)
    json.dump(out, open(diff[:-5] + ".verify.json", "w"), indent=1)
    return out

if __name__ == "__main__":
    for d in sys.argv[1:]:
        r = verify(d)
        print(d, "CONFIRMED" if r.get("confirmed") else "NOT-CONFIRMED", r.get("tests_passed_n"))
