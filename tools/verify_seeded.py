#!/venv/bin/python
"""Confirm a seeded change myself: (1) the demonstration fails with the change, (2) the pinned test-suite still
passes with it, (3) the demonstration passes on the unchanged /repo.  Usage: verify_seeded.py <dir with mK.diff ...>
Everything happens in a scratch copy under /tmp that is removed afterwards."""
import glob, json, os, re, shutil, subprocess, sys, tempfile

DESELECT = """tests/test_encoding.py::test_cp1252_chardet tests/test_encoding.py::test_iso88591_chardet
tests/test_encoding.py::test_pathlib_cp1252_chardet tests/test_encoding.py::test_pathlib_iso88591_chardet
tests/test_encoding.py::test_pathlib_utf16le_chardet tests/test_encoding.py::test_utf16le_chardet
tests/test_examples.py::test_github tests/test_open_file.py::test_open_url
tests/test_open_file.py::test_open_url_different_newlines tests/test_read.py::test_data_characters_types
tests/test_version.py::test_explicit_existent_vcs_tool tests/test_version.py::test_verify_default_vcs_tool
tests/test_write.py::test_write_changed_file""".split()


def run(cmd, cwd, env=None, timeout=1200):
    e = dict(os.environ)
    e.update(env or {})
    p = subprocess.run(cmd, cwd=cwd, env=e, stdout=subprocess.PIPE, stderr=subprocess.STDOUT, timeout=timeout)
    return p.returncode, p.stdout.decode("utf-8", "replace")


def verify(diff):
    base = diff[:-5]
    demo = base + "_demo.py"
    out = {"diff": diff}
    tmp = tempfile.mkdtemp(prefix="seedverify_")
    try:
        tree = os.path.join(tmp, "repo")
        shutil.copytree("/repo", tree, ignore=shutil.ignore_patterns(".git", "__pycache__", "*.pyc", ".coverage", "coverage.xml"))
        rc, o = run(["patch", "-p1", "-i", diff], tree)
        out["applies"] = rc == 0
        if rc != 0:
            out["patch_out"] = o[-500:]
            return out
        rc, o = run(["/venv/bin/python", demo], tmp, {"PYTHONPATH": tree})
        out["demo_fails_with_change"] = rc != 0
        out["demo_with_tail"] = o[-400:]
        cmd = ["/venv/bin/python", "-m", "pytest", "-q", "-p", "no:cacheprovider", "--timeout=900", "-q", "--no-cov"]
        for d in DESELECT:
            cmd += ["--deselect", d]
        rc, o = run(cmd, tree, {"PYTHONPATH": tree})
        m = re.search(r"(\d+) passed", o)
        out["tests_passed_n"] = int(m.group(1)) if m else 0
        out["tests_ok"] = rc == 0 and out["tests_passed_n"] == 254
        if not out["tests_ok"]:
            out["tests_tail"] = o[-600:]
        rc, o = run(["/venv/bin/python", demo], tmp, {"PYTHONPATH": "/repo"})
        out["demo_passes_without"] = rc == 0
        if rc != 0:
            out["demo_without_tail"] = o[-400:]
        out["confirmed"] = bool(out["demo_fails_with_change"] and out["tests_ok"] and out["demo_passes_without"])
    finally:
        shutil.rmtree(tmp, ignore_errors=True)
    with open(base + ".verify.json", "w") as f:
        json.dump(out, f, indent=1)
    return out


if __name__ == "__main__":
    for d in sys.argv[1:]:
        r = verify(d)
        print(d, "CONFIRMED" if r.get("confirmed") else "NOT-CONFIRMED", {k: v for k, v in r.items() if k in ("applies", "demo_fails_with_change", "tests_ok", "tests_passed_n", "demo_passes_without")})
