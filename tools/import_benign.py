#!/venv/bin/python
"""Copy confirmed behaviour-preserving refactorings into /verif/benign/<area>-<k>/ (patch.diff + meta.json)."""
import glob, json, os, shutil, sys
SRC = sys.argv[1] if len(sys.argv) > 1 else "/tmp/wtout2"
DST = os.path.join(os.path.dirname(os.path.dirname(os.path.abspath(__file__))), "benign")
n = 0
for vf in sorted(glob.glob(os.path.join(SRC, "R_*", "r*.verify.json")) + glob.glob(os.path.join(SRC, "RB_*", "r*.verify.json")) + glob.glob(os.path.join(SRC, "RC_*", "r*.verify.json")) + glob.glob(os.path.join(SRC, "RD_*", "r*.verify.json"))):
    v = json.load(open(vf))
    if not v.get("confirmed"):
        print("skip", vf); continue
    base = vf[:-len(".verify.json")]
    area = os.path.basename(os.path.dirname(vf)).replace("RB_", "s-").replace("RC_", "m-").replace("RD_", "a-").replace("R_", "")
    d = os.path.join(DST, "%s-%s" % (area, os.path.basename(base)))
    os.makedirs(d, exist_ok=True)
    shutil.copy(base + ".diff", os.path.join(d, "patch.diff"))
    meta = {}
    try:
        meta = json.load(open(base + ".json"))
    except Exception:
        pass
    json.dump({"area": area, "summary": meta.get("summary", ""), "kind": meta.get("kind", ""),
               "why_equivalent": meta.get("why_equivalent", ""),
               "origin": "behaviour-preserving refactoring written by a sub-agent that saw nothing of /verif",
               "confirmed_by": "tools/verify_benign.py: patch applies to /repo and the pinned suite gives %s passed" % v.get("tests_passed_n")},
              open(os.path.join(d, "meta.json"), "w"), indent=1)
    n += 1
print("imported", n)
