#!/venv/bin/python
"""Run all static checks against behaviour-preserving refactorings (benign/*/patch.diff or given diffs): every check must
stay silent (no violation, no ANALYSIS-ERROR)."""
import glob, json, os, sys
HERE = os.path.dirname(os.path.dirname(os.path.abspath(__file__)))
sys.path.insert(0, HERE)
sys.path.insert(0, os.path.join(HERE, "tools"))
from multiprocessing import Pool
import try_seeded

if __name__ == "__main__":
    args = sys.argv[1:]
    if args == ["--all"]:
        args = sorted(glob.glob(os.path.join(HERE, "benign", "*", "patch.diff")))
    with Pool(16) as pool:
        out = pool.map(try_seeded.one, args)
    bad = 0
    for diff, res in out:
        if res:
            bad += 1
            print("FALSE-ALARM %-45s %s" % (diff[-45:], json.dumps(res)[:400]))
        else:
            print("silent      %s" % diff[-45:])
    print("silent on %d / %d behaviour-preserving refactorings" % (len(out) - bad, len(out)))
