#!/venv/bin/python
"""Run the static checks against seeded changes (patch applied to a scratch copy of /repo/lasio; nothing executed).
Usage: try_seeded.py <diff> [<diff> ...]   |   try_seeded.py --all (every seeded/*/patch.diff)
Prints per change which properties' checks report a new violation."""
import glob, json, os, shutil, subprocess, sys, tempfile
HERE = os.path.dirname(os.path.dirname(os.path.abspath(__file__)))
sys.path.insert(0, HERE)
from multiprocessing import Pool


def one(diff):
    import props
    from sa.loader import Project
    from sa.report import Ctx
    from sa import AnalysisError
    tmp = tempfile.mkdtemp(prefix="tryseed_")
    try:
        shutil.copytree("/repo/lasio", os.path.join(tmp, "lasio"), ignore=shutil.ignore_patterns("__pycache__"))
        rc = subprocess.run(["patch", "-p1", "-s", "-i", os.path.abspath(diff)], cwd=tmp, stdout=subprocess.PIPE, stderr=subprocess.STDOUT)
        if rc.returncode != 0:
            return diff, {"error": "patch failed: " + rc.stdout.decode()[-200:]}
        res = {}
        for pid in sorted(props.PROPS):
            try:
                project = Project(tmp)
                ctx = Ctx(project)
                for rule in props.PROPS[pid]["rules"]:
                    rule(ctx)
                ctx.verify_floors()
                bad = sorted({(i.rule, i.site) for i in ctx.instances if not i.ok})
                from sa.report import load_known
                known, _ = load_known()
                bad = [b for b in bad if (pid, b[0], b[1]) not in known]
                if bad:
                    res[pid] = ["%s@%s" % b for b in bad][:4]
            except AnalysisError as e:
                res[pid] = ["ANALYSIS-ERROR " + str(e)[:120]]
            except Exception as e:
                res[pid] = ["CRASH %s %s" % (type(e).__name__, str(e)[:120])]
        return diff, res
    finally:
        shutil.rmtree(tmp, ignore_errors=True)


if __name__ == "__main__":
    args = sys.argv[1:]
    if args == ["--all"]:
        args = sorted(glob.glob(os.path.join(HERE, "seeded", "*", "patch.diff")))
    with Pool(16) as pool:
        out = pool.map(one, args)
    caught = 0
    for diff, res in out:
        label = diff
        meta = os.path.join(os.path.dirname(diff), "meta.json")
        target = None
        if os.path.exists(meta):
            target = json.load(open(meta)).get("property")
        else:
            # /tmp/wtout/Cxx/mK.diff
            target = os.path.basename(os.path.dirname(diff))
        hit = target in res and not any(x.startswith(("ANALYSIS", "CRASH")) for x in res.get(target, []))
        anyhit = any(not any(x.startswith(("ANALYSIS", "CRASH")) for x in v) for v in res.values())
        caught += 1 if hit else 0
        print("%-40s target=%s %s %s" % (label[-40:], target, "CAUGHT" if hit else ("caught-by-other" if anyhit else "MISSED"),
                                        json.dumps(res)[:300]))
    print("caught by own property's check: %d / %d" % (caught, len(out)))
