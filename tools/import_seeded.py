#!/venv/bin/python
"""Copy confirmed seeded changes from the sub-agents' output directory into /verif/seeded/<id>/."""
import glob, json, os, shutil, sys
SRC = sys.argv[1] if len(sys.argv) > 1 else "/tmp/wtout"
TAG = sys.argv[2] if len(sys.argv) > 2 else ""
DST = os.path.join(os.path.dirname(os.path.dirname(os.path.abspath(__file__))), "seeded")
n = 0
for vf in sorted(glob.glob(os.path.join(SRC, "C*", "m*.verify.json"))):
    v = json.load(open(vf))
    if not v.get("confirmed"):
        print("skip (not confirmed):", vf)
        continue
    base = vf[:-len(".verify.json")]
    pid = os.path.basename(os.path.dirname(vf))
    k = os.path.basename(base)
    d = os.path.join(DST, "%s-%s%s" % (pid, TAG, k))
    os.makedirs(d, exist_ok=True)
    shutil.copy(base + ".diff", os.path.join(d, "patch.diff"))
    shutil.copy(base + "_demo.py", os.path.join(d, "demo.py"))
    meta = {}
    if os.path.exists(base + ".json"):
        try:
            meta = json.load(open(base + ".json"))
        except Exception:
            meta = {}
    out = {
        "property": pid,
        "summary": meta.get("summary", ""),
        "mechanism": meta.get("mechanism", ""),
        "needs": meta.get("needs", ""),
        "origin": "written by a sub-agent given only the property text and a scratch worktree of /repo" + (" (second round: told which kinds of change had been tried already and asked for different ones)" if TAG else ""),
        "confirmed_by": {
            "how": "tools/verify_seeded.py: scratch copy of /repo with patch.diff applied (patch -p1); "
                   "PYTHONPATH=<copy> /venv/bin/python demo.py must exit != 0; the pinned suite "
                   "(pytest -q -p no:cacheprovider --timeout=900, the 13 always-failing network/VCS tests deselected) "
                   "must give 254 passed; PYTHONPATH=/repo /venv/bin/python demo.py must exit 0",
            "demo_fails_with_change": v["demo_fails_with_change"],
            "tests_passed": v["tests_passed_n"],
            "demo_passes_without": v["demo_passes_without"],
        },
    }
    json.dump(out, open(os.path.join(d, "meta.json"), "w"), indent=1)
    n += 1
print("imported", n)
