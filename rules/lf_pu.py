"""Rule groups LF (C14: the curve collection) and PU (C10: purity / channel independence).

LF.VIEWS       every LASFile view reads curve state through self.curves only; no LASFile attribute other than
               `sections` is assigned from curve data (attribute-store census with provenance)
LF.ROUTE       curve mutators change the list only through SectionItems.insert/append/pop; insert_curve_item
               type-checks; item assignment routes by exact session mnemonic (keys()); replace = pop(ix)+insert(ix) with
               a non-negative index
LF.RANK        rank inference for `data` in set_data: every slice keeps rank 2 before .shape[1] / data[:, i]
LF.NO-INPLACE  no LASFile method other than read() writes *into* a curve's array (arrays may be shared)
PU.GLOBAL      nothing reachable from LASFile.__init__/read writes module-level state, class attributes or mutable
               default arguments (positive control embedded)
PU.FRESH       get_default_items returns only objects built inside the call; LASFile.__init__ takes its sections from it
PU.CHANNEL     the text channel wraps the caller's string unmodified; an explicit encoding is overridden only by a BOM;
               encoding/errors reach io.open unchanged
"""
import ast

from sa import AnalysisError
from sa.astutil import unparse, enclosing, in_block
from sa.cfg import build_cfg, EXC
from sa.dataflow import Provenance, ControlDependence, ReachingDefs, target_names
from sa.effects import get_effects, fmt_path, is_fresh, EffectAnalysis
from sa.loader import walk_shallow, walk_expr_shallow, Project
from sa.resolve import get_resolver

LF = "las.LASFile"
VIEWS = ("keys", "values", "items", "__getitem__", "data", "index", "curvesdict", "get_curve", "df", "stack_curves")
MUTATORS = ("append_curve_item", "insert_curve_item", "replace_curve_item", "append_curve", "insert_curve", "delete_curve",
            "update_curve", "__setitem__", "set_data", "set_data_from_df")


def rule_views(ctx):
    p = ctx.p
    cls = p.cls(LF)
    n = 0
    for v in VIEWS:
        if v not in cls.methods:
            raise AnalysisError("LASFile.%s not found" % v)
        fi = cls.methods[v]
        attrs = set()
        for sub in walk_shallow(fi.node):
            if isinstance(sub, ast.Attribute) and isinstance(sub.value, ast.Name) and sub.value.id == "self":
                attrs.add(sub.attr)
        allowed = {"curves", "data", "index", "keys", "values", "items", "sections"}
        other = attrs - allowed
        n += 1
        stateful = {a for a in other if not (a in cls.methods or any(a in c.methods for c in cls.mro()))}
        ctx.check(not stateful, "LF.VIEWS", "%s.%s#reads" % (LF, v), fi, fi.node,
                  "%s reads curve state through %s only" % (v, sorted(attrs & allowed) or "self.curves"),
                  "%s reads the instance attribute(s) %s: a second copy of the curve state can disagree with the curve list "
                  "after an edit" % (v, sorted(stateful)))
    # attribute-store census over all LASFile methods: attributes assigned from curve data
    for m, fi in sorted(cls.methods.items()):
        if isinstance(fi.node, ast.Lambda):
            continue
        cfg = None
        for sub in walk_shallow(fi.node):
            if isinstance(sub, ast.Assign):
                for t in sub.targets:
                    if isinstance(t, ast.Attribute) and isinstance(t.value, ast.Name) and t.value.id == "self" and t.attr not in ("sections",):
                        if cfg is None:
                            cfg = build_cfg(p, fi)
                            prov = Provenance(cfg)
                        nids = cfg.nodes_for(sub)
                        if not nids:
                            continue
                        atoms = prov.atoms(sub.value, nids[0])
                        attrs = {a[1] for a in atoms if a[0] == "attrname"}
                        if attrs & {"curves", "data"} and t.attr not in ("index_initial",):
                            n += 1
                            ctx.bad("LF.VIEWS", "%s.%s#cache(%s)" % (LF, m, t.attr), fi, sub,
                                    "LASFile.%s is assigned from curve data in %s: a cached copy of curve state goes stale when "
                                    "curves are edited, so views stop agreeing with the list model" % (t.attr, m))
    # instance state beyond today's (sections, index_unit, encoding, index_initial) that a view or a mutator reads is a second
    # copy of curve state (a position table, a stacked-data cache ...): it can disagree with the list after an edit
    KNOWN = {"sections", "index_unit", "encoding", "index_initial"}

    def self_attrs_read(fi_):
        out_ = set()
        for sub in walk_shallow(fi_.node):
            if isinstance(sub, ast.Attribute) and isinstance(sub.value, ast.Name) and sub.value.id == "self" and isinstance(sub.ctx, ast.Load):
                out_.add(sub.attr)
            if isinstance(sub, ast.Call) and isinstance(sub.func, ast.Attribute) and sub.func.attr in ("get", "__getitem__", "pop") \
                    and ast.unparse(sub.func.value) == "self.__dict__" and sub.args and isinstance(sub.args[0], ast.Constant):
                out_.add(sub.args[0].value)
            if isinstance(sub, ast.Subscript) and ast.unparse(sub.value) == "self.__dict__" and isinstance(sub.slice, ast.Constant) \
                    and isinstance(sub.ctx, ast.Load):
                out_.add(sub.slice.value)
        return out_
    for m in sorted(set(VIEWS) | set(MUTATORS)):
        fi = cls.methods.get(m)
        if fi is None:
            continue
        extra = {a for a in self_attrs_read(fi) if a not in KNOWN and not any(a in c.methods for c in cls.mro())
                 and not a.startswith("__")}
        if extra:
            n += 1
            ctx.bad("LF.VIEWS", "%s.%s#extra-state(%s)" % (LF, m, sorted(extra)[0]), fi, fi.node,
                    "%s consults the instance attribute %s, which is not part of a LASFile's state today: a table or cache kept next to "
                    "the curve list goes stale when curves are renamed, moved or edited in place" % (m, sorted(extra)))
    # `data` is rebuilt from the curves on every access: each return value is the stack of [c.data for c in self.curves]
    fd = cls.methods.get("data")
    if fd is not None:
        for r_ in [x for x in walk_shallow(fd.node) if isinstance(x, ast.Return) and x.value is not None]:
            txt = ast.unparse(r_.value)
            built = (_reads_curve_list(r_.value) and ".data" in txt) or any(
                isinstance(x, ast.Name) and any(isinstance(a_, ast.Assign) and any(isinstance(t_, ast.Name) and t_.id == x.id for t_ in a_.targets)
                                                and _reads_curve_list(a_.value) and ".data" in ast.unparse(a_.value)
                                                for a_ in walk_shallow(fd.node)) for x in ast.walk(r_.value)) and any(
                isinstance(c_, ast.Call) and ast.unparse(c_.func).split(".")[-1] in ("vstack", "column_stack", "stack", "array", "asarray", "hstack")
                for c_ in ast.walk(r_.value))
            n += 1
            ctx.check(built, "LF.VIEWS", "%s.data#return" % LF, fd, r_, "data is stacked from [c.data for c in self.curves] (column i = curve i)",
                      "LASFile.data can return `%s`, which is not built from the curve list in its current order: after curves are moved, "
                      "replaced or share one block, column i is no longer curve i" % txt[:60])
    ctx.floor("LF.VIEWS", 10)


def rule_route(ctx):
    p = ctx.p
    ea = get_effects(p)
    cls = p.cls(LF)
    # (a) structural changes of the curve list only through SectionItems methods on self.curves
    for m in MUTATORS:
        fi = cls.methods[m]
        bad = []
        for sub in walk_shallow(fi.node):
            if isinstance(sub, ast.Call) and isinstance(sub.func, ast.Attribute):
                recv = ast.unparse(sub.func.value)
                if sub.func.attr in ("append", "insert", "pop", "remove", "extend", "sort", "reverse", "clear", "__delitem__", "__setitem__"):
                    if "sections" in recv or recv.startswith("list.") or "super()" in recv:
                        bad.append(sub)
            if isinstance(sub, ast.Assign):
                for t in sub.targets:
                    if isinstance(t, ast.Subscript) and ast.unparse(t.value) in ("self.sections",) and m != "read":
                        bad.append(sub)
                    if isinstance(t, ast.Subscript) and isinstance(t.slice, ast.Slice) and "curves" in ast.unparse(t.value):
                        bad.append(sub)
            if isinstance(sub, ast.Delete):
                for t in sub.targets:
                    if isinstance(t, ast.Subscript) and isinstance(t.slice, ast.Slice) and "curves" in ast.unparse(t.value):
                        bad.append(sub)
        ctx.check(not bad, "LF.ROUTE", "%s.%s#list-ops" % (LF, m), fi, bad[0] if bad else fi.node,
                  "%s changes the curve list only through the SectionItems API of self.curves" % m,
                  "%s manipulates the curve list with `%s`, bypassing SectionItems (no suffix renumbering / type check)"
                  % (m, unparse(bad[0]) if bad else ""))
    # (b) insert_curve_item type check
    fi = cls.methods["insert_curve_item"]
    ok = any(isinstance(s, ast.Assert) and "isinstance" in ast.unparse(s.test) and "CurveItem" in ast.unparse(s.test) for s in walk_shallow(fi.node)) or \
        any(isinstance(s, ast.Raise) for s in walk_shallow(fi.node))
    ctx.check(ok, "LF.ROUTE", LF + ".insert_curve_item#type-check", fi, fi.node, "insert_curve_item accepts CurveItem only",
              "insert_curve_item no longer checks that the inserted object is a CurveItem")
    # (c) exact-name routing in __setitem__ / update_curve / delete_curve
    for m in ("__setitem__", "update_curve", "delete_curve"):
        fi = cls.methods[m]
        params = [x for x in fi.params() if x != "self"]
        problems = []
        for sub in walk_shallow(fi.node):
            if isinstance(sub, ast.Compare) and len(sub.ops) == 1 and isinstance(sub.ops[0], (ast.In, ast.NotIn)):
                cont = ast.unparse(sub.comparators[0])
                if cont.endswith("curves"):
                    problems.append("`%s` tests membership in the section itself (case-insensitive for read files); item "
                                    "assignment must route by the exact session mnemonic (`in self.curves.keys()`): "
                                    "las['dept'] = arr would overwrite DEPT instead of adding a curve" % unparse(sub))
            if isinstance(sub, ast.Subscript) and isinstance(sub.ctx, ast.Load) and ast.unparse(sub.value).endswith("curves"):
                if isinstance(sub.slice, ast.Name) and sub.slice.id in ("mnemonic", "key") and m != "__getitem__":
                    problems.append("`%s` looks the curve up by name through the section (case-insensitive for read files); "
                                    "the position must come from keys().index(<name>)" % unparse(sub))
        ctx.check(not problems, "LF.ROUTE", "%s.%s#exact-name" % (LF, m), fi, fi.node,
                  "%s resolves mnemonics through self.curves.keys() (exact session names)" % m, "; ".join(dict.fromkeys(problems)))
    # (d) replace = delete(ix) + insert(ix) with a non-negative ix
    fi = cls.methods["replace_curve_item"]
    ixp = fi.params()[1]
    calls = [c for c in walk_shallow(fi.node) if isinstance(c, ast.Call) and isinstance(c.func, ast.Attribute)]
    names = [c.func.attr for c in calls]
    direct = any(isinstance(s, ast.Assign) and isinstance(s.targets[0], ast.Subscript) and "curves" in ast.unparse(s.targets[0].value)
                 for s in walk_shallow(fi.node))
    if "delete_curve" in names and ("insert_curve_item" in names or "insert" in names):
        norm = False
        for s in walk_shallow(fi.node):
            if isinstance(s, ast.If) and isinstance(s.test, ast.Compare) and isinstance(s.test.left, ast.Name) and s.test.left.id == ixp \
                    and isinstance(s.test.ops[0], ast.Lt) and isinstance(s.test.comparators[0], ast.Constant) and s.test.comparators[0].value == 0:
                for a in s.body:
                    if isinstance(a, (ast.Assign, ast.AugAssign)) and "len(" in ast.unparse(a):
                        norm = True
        if norm:
            # the conversion must use the length *before* the deletion
            cfg = build_cfg(p, fi)
            dels = [n.id for n in cfg.nodes if n.ast is not None and n.kind == "stmt" and any(
                isinstance(c, ast.Call) and isinstance(c.func, ast.Attribute) and c.func.attr in ("delete_curve", "pop", "__delitem__")
                for c in walk_expr_shallow(n.ast))]
            norms = [n.id for n in cfg.nodes if n.kind == "stmt" and isinstance(n.ast, (ast.Assign, ast.AugAssign)) and "len(" in ast.unparse(n.ast)
                     and ixp in ast.unparse(n.ast)]
            for d in dels:
                if cfg.find_path(d, norms, skip_labels=EXC):
                    norm = False
        ctx.check(norm, "LF.ROUTE", LF + ".replace_curve_item#index", fi, fi.node,
                  "replace = delete(ix) + insert(ix) with negative positions converted first",
                  "replace_curve_item deletes position ix and inserts at the same ix without normalising a negative ix: "
                  "insert(-1, x) places x *before* the last item, so replace_curve_item(-1, x) turns [A,B,C] into [A,X,B]")
    elif direct:
        ctx.ok("LF.ROUTE", LF + ".replace_curve_item#index", fi, fi.node, "replace assigns in place")
    else:
        ctx.bad("LF.ROUTE", LF + ".replace_curve_item#index", fi, fi.node, "replace_curve_item neither deletes+inserts nor assigns in place")
    # (e) positions are handed to the list unchanged: insert_curve_item / insert_curve / delete_curve(ix=) do not rewrite `ix`
    #     (list.insert and list.pop already define negative and out-of-range positions; replace_curve_item is the documented exception)
    for m in ("insert_curve_item", "insert_curve", "append_curve_item", "delete_curve"):
        fi = cls.methods.get(m)
        if fi is None or "ix" not in fi.params():
            continue
        rew = [s_ for s_ in walk_shallow(fi.node) if isinstance(s_, (ast.Assign, ast.AugAssign)) and any(
            isinstance(t, ast.Name) and t.id == "ix" for t in (s_.targets if isinstance(s_, ast.Assign) else [s_.target]))]
        if m == "delete_curve":
            # ix may be *computed from the mnemonic* when it was not given; any other rewrite changes the position
            rew = [s_ for s_ in rew if "mnemonic" not in ast.unparse(s_.value)]
        ctx.check(not rew, "LF.ROUTE", "%s.%s#position" % (LF, m), fi, rew[0] if rew else fi.node,
                  "%s hands the position to the list as given" % m,
                  "%s rewrites the position (`%s`): list.insert/pop already define negative and out-of-range positions, so e.g. "
                  "insert at -3 into a list of 2 no longer puts the curve first" % (m, unparse(rew[0]) if rew else ""))
    # (f) set_data: whether the array is truncated to the declared curves depends on the `truncate` option alone
    fi = cls.methods.get("set_data")
    if fi is not None and "truncate" in fi.params():
        tests = [s_ for s_ in walk_shallow(fi.node) if isinstance(s_, (ast.If, ast.IfExp)) and any(
            isinstance(x, ast.Name) and x.id == "truncate" for x in ast.walk(s_.test))]
        bad_t = [s_ for s_ in tests if not (isinstance(s_.test, ast.Name) or (
            isinstance(s_.test, ast.Compare) and isinstance(s_.test.left, ast.Name) and s_.test.left.id == "truncate"
            and isinstance(s_.test.comparators[0], ast.Constant)))]
        ctx.check(bool(tests) and not bad_t, "LF.ROUTE", LF + ".set_data#truncate", fi, (bad_t[0] if bad_t else fi.node),
                  "truncation is decided by `truncate` alone",
                  ("truncation also depends on `%s`: with no curves (or whatever else is tested) the surplus columns become new curves "
                   "although truncate=True" % unparse(bad_t[0].test)) if bad_t else "set_data no longer honours `truncate`")
    # (g) set_data: the renaming loop visits every curve (names shorter than the curve list are padded, not cut off by zip())
    fi = cls.methods.get("set_data")
    if fi is not None:
        loops_ = [l_ for l_ in ast.walk(fi.node) if isinstance(l_, ast.For) and any(
            isinstance(a_, ast.Assign) and any(isinstance(t_, ast.Attribute) and t_.attr == "mnemonic" for t_ in a_.targets) for a_ in ast.walk(l_))]
        for l_ in loops_:
            it = ast.unparse(l_.iter)
            whole = it in ("self.curves", "enumerate(self.curves)", "range(len(self.curves))") or (
                it.startswith("enumerate(self.curves") or it.startswith("zip(self.curves, names") and False)
            ctx.check(whole, "LF.ROUTE", LF + ".set_data#rename-all", fi, l_,
                      "every curve is (re)named from the padded names list",
                      "the renaming loop iterates `%s`: it stops with the shorter sequence, so curves beyond the given names keep their old "
                      "names instead of becoming blank/UNKNOWN as the list model says" % it[:50])
    ctx.floor("LF.ROUTE", 12)


def rule_rank(ctx):
    p = ctx.p
    fi = p.func(LF + ".set_data")
    cfg = build_cfg(p, fi)
    # rank lattice for the name bound to np.asarray(array_like): documented rank 2
    var = None
    for s in walk_shallow(fi.node):
        if isinstance(s, ast.Assign) and isinstance(s.value, ast.Call) and ast.unparse(s.value.func).endswith("asarray") and isinstance(s.targets[0], ast.Name):
            var = s.targets[0].id
    if var is None:
        raise AnalysisError("set_data: no `<data> = np.asarray(...)`")
    problems = []
    lowered = []
    for s in walk_shallow(fi.node):
        if isinstance(s, ast.Assign) and isinstance(s.targets[0], ast.Name) and s.targets[0].id == var and isinstance(s.value, ast.Subscript) \
                and isinstance(s.value.value, ast.Name) and s.value.value.id == var:
            sl = s.value.slice
            elts = sl.elts if isinstance(sl, ast.Tuple) else [sl]
            ints = [e for e in elts if not isinstance(e, ast.Slice) and not (isinstance(e, ast.Constant) and e.value in (Ellipsis, None))]
            if ints:
                lowered.append((s, ints))
    needs2 = [x for x in walk_shallow(fi.node) if (isinstance(x, ast.Subscript) and ast.unparse(x.value) == var + ".shape"
                                                    and isinstance(x.slice, ast.Constant) and x.slice.value == 1)
              or (isinstance(x, ast.Subscript) and isinstance(x.value, ast.Name) and x.value.id == var and isinstance(x.slice, ast.Tuple)
                  and len(x.slice.elts) == 2 and isinstance(x.ctx, ast.Load))]
    for s, ints in lowered:
        nids = cfg.nodes_for(s)
        for x in needs2:
            if x is s.value:
                continue
            xn = cfg.node_of_expr(x)
            if nids and xn and any(cfg.find_path(a, [b], skip_labels=EXC) for a in nids for b in xn):
                problems.append("`%s` indexes with the integer `%s` and lowers the rank of `%s` to 1, but `%s` needs rank 2 "
                                "afterwards: truncate=True raises IndexError instead of keeping the first len(curves) columns"
                                % (unparse(s), unparse(ints[0]), var, unparse(x)))
                break
    # the truncation, when present, keeps the first len(curves) columns
    for s in walk_shallow(fi.node):
        if isinstance(s, ast.If) and isinstance(s.test, ast.Name) and s.test.id == "truncate":
            for a in s.body:
                if isinstance(a, ast.Assign) and isinstance(a.value, ast.Subscript):
                    sl = a.value.slice
                    if isinstance(sl, ast.Tuple) and len(sl.elts) == 2 and isinstance(sl.elts[1], ast.Slice):
                        lo, up = sl.elts[1].lower, sl.elts[1].upper
                        if lo is not None or up is None or ast.unparse(up) != "len(self.curves)":
                            problems.append("truncation keeps columns `%s`, not the first len(self.curves)" % unparse(sl.elts[1]))
    # the column count that drives the extension of the curve list is taken from the array the columns are then read from,
    # not from its un-truncated precursor (a local that went stale when one reassigned variable was split in two)
    col_src = set()
    for x in walk_shallow(fi.node):
        if isinstance(x, ast.Assign) and isinstance(x.targets[0], ast.Attribute) and x.targets[0].attr == "data" \
                and isinstance(x.value, ast.Subscript) and isinstance(x.value.value, ast.Name) and isinstance(x.value.slice, ast.Tuple):
            col_src.add(x.value.value.id)
    precursors = {}
    for s in walk_shallow(fi.node):
        if isinstance(s, ast.Assign) and isinstance(s.targets[0], ast.Name) and s.targets[0].id in col_src \
                and isinstance(s.value, ast.Subscript) and isinstance(s.value.value, ast.Name) and s.value.value.id not in col_src \
                and isinstance(s.value.slice, ast.Tuple) and len(s.value.slice.elts) == 2 and isinstance(s.value.slice.elts[1], ast.Slice) \
                and s.value.slice.elts[1].upper is not None:
            precursors[s.value.value.id] = s
    for x in walk_shallow(fi.node):
        if isinstance(x, ast.Subscript) and isinstance(x.slice, ast.Constant) and x.slice.value == 1 and isinstance(x.value, ast.Attribute) \
                and x.value.attr == "shape" and isinstance(x.value.value, ast.Name) and x.value.value.id in precursors:
            par, in_min = getattr(x, "_parent", None), False
            while par is not None and not isinstance(par, ast.stmt):
                if isinstance(par, ast.Call) and isinstance(par.func, ast.Name) and par.func.id == "min":
                    in_min = True
                par = getattr(par, "_parent", None)
            if not in_min:
                problems.append("`%s` counts the columns of the un-truncated array although the curves are filled from `%s` "
                                "(`%s`): with truncate=True and more columns than curves the curve list is extended by curves "
                                "that get no column, and the assignment loop raises IndexError half-way"
                                % (unparse(x), sorted(col_src)[0], unparse(precursors[x.value.value.id])))
    ctx.check(not problems, "LF.RANK", LF + ".set_data#rank", fi, fi.node,
              "every re-slicing of the data array in set_data keeps rank 2 (truncate keeps the first len(curves) columns)",
              "; ".join(dict.fromkeys(problems)))
    ctx.floor("LF.RANK", 1)


def rule_no_inplace(ctx):
    p = ctx.p
    ea = get_effects(p)
    cls = p.cls(LF)
    n = 0
    for m, fi in sorted(cls.methods.items()):
        if isinstance(fi.node, ast.Lambda) or m in ("read", "__init__"):
            continue
        effs = [e for e in ea.local_effects(fi) if any(f == ("attr", "data") for f in e.path[1:-1]) and e.path[-1][0] == "elem"]
        # stores through a local alias of a curve's array: x = curve.data ; x[...] = v
        n += 1
        site = "%s.%s#array-writes" % (LF, m)
        if effs:
            e = effs[0]
            ctx.bad("LF.NO-INPLACE", site, fi, e.node, "%s writes into an existing curve array (%s): arrays handed to "
                    "append_curve/set_data may be shared with another LASFile or another curve, which is then changed too"
                    % (m, fmt_path(e.path)))
        else:
            ctx.ok("LF.NO-INPLACE", site, fi, fi.node, "%s re-binds curve.data, never writes into the array" % m,
                   nontrivial=m in MUTATORS)
    ctx.floor("LF.NO-INPLACE", 10)


# ================================================================================================== C10

POSITIVE_CONTROL = '''
CACHE = {}
COUNT = 0
def tainted(x, acc=[]):
    global COUNT
    COUNT += 1
    CACHE[x] = 1
    acc.append(x)
    h = Holder()
    h.seen.append(x)
    return acc
class Holder(object):
    seen = []
    def __init__(self):
        self.own = []
'''


MEMO_DECORATORS = {"lru_cache", "cache", "cached_property", "memoize", "memoized"}


_MUT_CALLS = ("list", "dict", "set", "OrderedDict", "defaultdict", "deque", "bytearray", "Counter")
_MUT_METHODS = ("append", "extend", "insert", "update", "add", "pop", "popitem", "clear", "remove", "discard", "setdefault", "sort",
                "reverse", "appendleft")


def _class_mutables(p):
    """{attribute name: class} - containers created once in a class body and not shadowed by an instance attribute in any method
    of the class: every instance sees (and mutates) the same object"""
    def build():
        out = {}
        for cq, ci in p.classes.items():
            inst = set()
            for m in ci.methods.values():
                if isinstance(m.node, ast.Lambda) or not m.node.args.args:
                    continue
                me = m.node.args.args[0].arg
                for sub in ast.walk(m.node):
                    if isinstance(sub, ast.Attribute) and isinstance(sub.ctx, ast.Store) and isinstance(sub.value, ast.Name) and sub.value.id == me:
                        inst.add(sub.attr)
            for st in ci.node.body:
                if isinstance(st, (ast.Assign, ast.AnnAssign)) and st.value is not None:
                    v = st.value
                    mutable = isinstance(v, (ast.List, ast.Dict, ast.Set, ast.ListComp, ast.DictComp, ast.SetComp)) or (
                        isinstance(v, ast.Call) and (v.func.id if isinstance(v.func, ast.Name) else getattr(v.func, "attr", "")) in _MUT_CALLS)
                    if not mutable:
                        continue
                    for t in (st.targets if isinstance(st, ast.Assign) else [st.target]):
                        if isinstance(t, ast.Name) and t.id not in inst and not (t.id.startswith("__") and t.id.endswith("__")):
                            out[t.id] = cq
        return out
    return p.cached("class_mutables", build)


def _global_writes(p, ea, fi):
    out = []
    cm = _class_mutables(p)
    if cm and not isinstance(fi.node, ast.Lambda):
        for sub in walk_shallow(fi.node):
            tgt = None
            if isinstance(sub, ast.Call) and isinstance(sub.func, ast.Attribute) and sub.func.attr in _MUT_METHODS \
                    and isinstance(sub.func.value, ast.Attribute) and sub.func.value.attr in cm:
                tgt = sub.func.value
            elif isinstance(sub, (ast.Assign, ast.AugAssign, ast.Delete)):
                for t in (sub.targets if isinstance(sub, (ast.Assign, ast.Delete)) else [sub.target]):
                    if isinstance(t, ast.Subscript) and isinstance(t.value, ast.Attribute) and t.value.attr in cm:
                        tgt = t.value
                    if isinstance(sub, ast.AugAssign) and isinstance(t, ast.Attribute) and t.attr in cm:
                        tgt = t
            if tgt is not None:
                out.append((sub, "mutates `%s`, a container created once in the body of class %s and shared by all its instances" % (
                    unparse(tgt), cm[tgt.attr])))
    for d in getattr(fi.node, "decorator_list", []):
        dn = d.func if isinstance(d, ast.Call) else d
        name = dn.attr if isinstance(dn, ast.Attribute) else getattr(dn, "id", "")
        if name in MEMO_DECORATORS:
            out.append((d, "is memoised with @%s: results (mutable objects that callers modify) are shared between reads" % name))
    for e in ea.local_effects(fi):
        if e.path[0][0] == "global":
            out.append((e.node, "writes module-level object %s" % fmt_path(e.path)))
    node = fi.node
    if not isinstance(node, ast.Lambda):
        args = node.args
        defaults = list(zip([a.arg for a in args.args][len(args.args) - len(args.defaults):], args.defaults))
        mut = {nm for nm, d in defaults if isinstance(d, (ast.Dict, ast.List, ast.Set))}
        for e in ea.local_effects(fi):
            if e.path[0][0] == "param" and e.path[0][1] in mut and len(e.path) >= 1 and e.kind in ("struct", "store", "replace"):
                out.append((e.node, "mutates its mutable default argument `%s`" % e.path[0][1]))
        for sub in walk_shallow(node):
            if isinstance(sub, (ast.Assign, ast.AugAssign)):
                targets = sub.targets if isinstance(sub, ast.Assign) else [sub.target]
                for t in targets:
                    if isinstance(t, ast.Attribute) and isinstance(t.value, ast.Name):
                        nm = t.value.id
                        if nm in fi.module.classes or nm == "cls" or (fi.module.imports.get(nm, ("",))[0] == "name" and nm[:1].isupper() and nm in ("LASFile", "HeaderItem", "CurveItem", "SectionItems")):
                            out.append((sub, "writes class attribute %s" % unparse(t)))
                        imp = fi.module.imports.get(nm)
                        if imp and imp[0] == "module" and imp[1].startswith("lasio."):
                            out.append((sub, "rebinds %s" % unparse(t)))
                    if isinstance(t, ast.Attribute) and ast.unparse(t.value) in ("self.__class__", "type(self)"):
                        out.append((sub, "writes class attribute %s" % unparse(t)))
    return out


def rule_pu_global(ctx):
    p = ctx.p
    r = get_resolver(p)
    ea = get_effects(p)
    roots = [p.func(LF + ".__init__"), p.func(LF + ".read"), p.func("__init__.read")] if p.has_func("__init__.read") else [
        p.func(LF + ".__init__"), p.func(LF + ".read")]
    clos = r.closure(roots)
    ctx.stat("read_closure", len(clos))
    for q, fi in sorted(clos.items()):
        ws = _global_writes(p, ea, fi)
        site = "%s#module-state" % q
        if ws:
            ctx.bad("PU.GLOBAL", site, fi, ws[0][0], "%s (reachable from LASFile.__init__/read) %s: one read can change the "
                    "result of a later read" % (q, ws[0][1]))
        else:
            ctx.ok("PU.GLOBAL", site, fi, fi.node, "writes no module-level state, class attribute or default argument")
    # positive control: the same detector must flag an embedded impure function on every run
    import os
    import tempfile
    import shutil
    tmp = tempfile.mkdtemp(prefix="lasio_sa_control_")
    try:
        os.makedirs(os.path.join(tmp, "lasio"))
        with open(os.path.join(tmp, "lasio", "control.py"), "w") as f:
            f.write(POSITIVE_CONTROL)
        cp = Project(tmp)
        cea = EffectAnalysis(cp)
        ws = _global_writes(cp, cea, cp.func("control.tainted"))
    finally:
        shutil.rmtree(tmp, ignore_errors=True)
    kinds = " | ".join(w[1] for w in ws)
    if not ("COUNT" in kinds and "CACHE" in kinds and "default argument" in kinds and "h.seen" in kinds):
        raise AnalysisError("PU.GLOBAL positive control not flagged (got: %s): the detector is blind" % kinds)
    ctx.ok("PU.GLOBAL", "positive-control", None, 0, "embedded impure function flagged as expected (%s)" % kinds, nontrivial=False)
    ctx.floor("PU.GLOBAL", 40)


def rule_pu_fresh(ctx):
    p = ctx.p
    ea = get_effects(p)
    fd = p.func("defaults.get_default_items")
    rps = ea.return_paths(fd)
    shared = [x for x in rps if not is_fresh(x)]
    # elements of the returned dict: every value expression must be a constructor call / literal
    problems = []
    rets = [s for s in walk_shallow(fd.node) if isinstance(s, ast.Return)]
    for rt in rets:
        if isinstance(rt.value, ast.Dict):
            for k, v in zip(rt.value.keys, rt.value.values):
                for x in ast.walk(v):
                    if isinstance(x, ast.Name) and x.id in fd.module.globals:
                        par = getattr(x, "_parent", None)
                        # reading a module-level table to *build* fresh items is fine: the table is only iterated / indexed /
                        # unpacked into a constructor; it is shared when the object itself is put into the result
                        if isinstance(par, ast.comprehension) and par.iter is x:
                            continue
                        if isinstance(par, ast.Starred) or isinstance(par, ast.Subscript) and par.value is x:
                            continue
                        if isinstance(par, ast.Call) and isinstance(par.func, ast.Name) and par.func.id in ("HeaderItem", "CurveItem", "len", "range", "enumerate", "zip"):
                            continue
                        problems.append("item %s of the default sections is the module-level object `%s`" % (unparse(k), x.id))
        elif not shared:
            pass
    # elements of a module-level table (templates) that flow into the result without a copy: names bound by iterating over a
    # module-level object (or over such a name) may be iterated again, read, keyed on or deep-copied - not stored
    glob_names = set(fd.module.globals)
    elem = set()

    def iter_base(e):
        while True:
            if isinstance(e, ast.Call) and isinstance(e.func, ast.Attribute) and e.func.attr in ("items", "values", "keys") and not e.args:
                e = e.func.value
            elif isinstance(e, ast.Subscript):
                e = e.value
            elif isinstance(e, ast.Call) and isinstance(e.func, ast.Name) and e.func.id in ("enumerate", "zip", "reversed", "sorted", "list", "tuple", "iter") and e.args:
                e = e.args[0]
            else:
                return e.id if isinstance(e, ast.Name) else None
    for _ in range(4):
        for sub in ast.walk(fd.node):
            gens = sub.generators if isinstance(sub, (ast.ListComp, ast.SetComp, ast.DictComp, ast.GeneratorExp)) else (
                [sub] if isinstance(sub, ast.For) else [])
            for g in gens:
                b = iter_base(g.iter)
                if b is not None and (b in glob_names or b in elem):
                    elem |= set(target_names(g.target))
    for x in ast.walk(fd.node):
        if not (isinstance(x, ast.Name) and x.id in elem and isinstance(x.ctx, ast.Load)):
            continue
        ok_use = False
        cur, child = getattr(x, "_parent", None), x
        if isinstance(cur, ast.Attribute) or (isinstance(cur, ast.Subscript) and cur.value is x):
            ok_use = True
        if isinstance(cur, ast.DictComp) and cur.key is x:
            ok_use = True
        if isinstance(cur, ast.Compare) or isinstance(cur, ast.JoinedStr) or isinstance(cur, ast.FormattedValue):
            ok_use = True
        while cur is not None and cur is not fd.node and not ok_use:
            if isinstance(cur, (ast.comprehension, ast.For)) and (cur.iter is child or any(child is y for y in ast.walk(cur.iter))) and child is not getattr(cur, "target", None):
                ok_use = True
            if isinstance(cur, ast.Call) and ast.unparse(cur.func).split(".")[-1] in ("deepcopy", "HeaderItem", "CurveItem", "len", "str", "isinstance", "repr"):
                ok_use = True
            if isinstance(cur, ast.stmt):
                break
            child, cur = cur, getattr(cur, "_parent", None)
        if not ok_use:
            problems.append("`%s` - an element of a module-level table - is put into the default sections without a copy (`%s`)"
                            % (x.id, unparse(getattr(x, "_parent", x))))
    if shared:
        problems.append("get_default_items returns (an alias of) %s" % ", ".join(fmt_path(x) for x in shared))
    ctx.check(not problems, "PU.FRESH", "defaults.get_default_items#fresh", fd, fd.node,
              "every container and item get_default_items returns is built inside the call",
              "; ".join(dict.fromkeys(problems)) + ": all LASFile objects share those sections")
    fi = p.func(LF + ".__init__")
    stores = [s for s in walk_shallow(fi.node) if isinstance(s, ast.Assign) and any(
        isinstance(t, ast.Attribute) and t.attr == "sections" for t in s.targets)]
    problems = []
    if not stores:
        problems.append("__init__ does not create self.sections")
    for s in stores:
        for v in (s.value.values if isinstance(s.value, ast.Dict) else [s.value]):
            paths = ea.paths_of(v, fi)
            bad = [x for x in paths if x[0][0] in ("global",)]
            if bad:
                problems.append("self.sections takes %s from module-level state %s" % (unparse(v), fmt_path(bad[0])))
    # the default items come from a get_default_items() call made in __init__ itself, unconditionally
    calls = [c for c in walk_shallow(fi.node) if isinstance(c, ast.Call) and ast.unparse(c.func).endswith("get_default_items")]
    if len(calls) != 1:
        problems.append("__init__ calls get_default_items %d times" % len(calls))
    else:
        cfg = build_cfg(p, fi)
        cd = ControlDependence(cfg)
        for nid in cfg.node_of_expr(calls[0]):
            if any(cfg.nodes[tn].kind == "test" for (tn, lab) in cd.transitive(nid)):
                problems.append("the fresh default sections are built only conditionally")
    ctx.check(not problems, "PU.FRESH", LF + ".__init__#sections", fi, fi.node,
              "every LASFile gets its own default sections from one unconditional get_default_items() call",
              "; ".join(dict.fromkeys(problems)) + ": LASFile objects share section objects, so editing one result changes later reads")
    ctx.floor("PU.FRESH", 2)


def _reads_curve_list(e):
    """the expression iterates / reads `self.curves` itself (not a table derived from it such as self.curvesdict)"""
    return any(isinstance(x, ast.Attribute) and x.attr == "curves" and isinstance(x.value, ast.Name) and x.value.id == "self"
               for x in ast.walk(e))


def rule_pu_channel(ctx):
    p = ctx.p
    fo = p.func("reader.open_file")
    cfg = build_cfg(p, fo)
    prov = Provenance(cfg)
    fparam = fo.params()[0]
    n = 0
    for node in cfg.nodes:
        if node.ast is None or node.kind != "stmt":
            continue
        for c in walk_expr_shallow(node.ast):
            if isinstance(c, ast.Call) and ast.unparse(c.func).endswith("StringIO") and c.args:
                atoms = prov.atoms(c.args[0], node.id)
                names = {a[1] for a in atoms if a[0] == "callname"}
                if "urlopen" in names or "decode" in names:
                    continue
                n += 1
                extra = names - {"check_for_path_obj"}
                ok = ("param", fparam) in atoms and not extra and isinstance(c.args[0], ast.Name)
                ctx.check(ok, "PU.CHANNEL", "reader.open_file#string-channel", fo, c,
                          "a multi-line string is wrapped in StringIO unmodified, like an in-memory file with the same text",
                          "the string channel wraps `%s` (built with %s) instead of the caller's text: str.splitlines() also "
                          "breaks on form feed, U+0085, U+2028 ..., so the same text gives different results as a string and "
                          "as a file" % (unparse(c.args[0]), sorted(extra) or "an expression"))
    # the file name handed to open_with_codecs is the caller's text (its first line), not a tidied-up version of it
    for node in cfg.nodes:
        if node.ast is None or node.kind != "stmt":
            continue
        for c in walk_expr_shallow(node.ast):
            if isinstance(c, ast.Call) and ast.unparse(c.func).endswith("open_with_codecs") and c.args:
                atoms = prov.atoms(c.args[0], node.id)
                cn = {a[1] for a in atoms if a[0] == "callname"} - {"splitlines", "str", "fspath", "check_for_path_obj", "split"}
                n += 1
                ctx.check(not cn, "PU.CHANNEL", "reader.open_file#filename", fo, c,
                          "the name that is opened is the caller's string itself",
                          "the file name passes through %s before it is opened: a str path and the pathlib.Path of the same file (which is "
                          "opened as given) can name different files" % sorted(cn))
    # the Path -> str step names the same file the operating system would open for the Path: str() / absolute() / fspath only.
    # os.path.abspath / normpath collapse `..` lexically (a different file behind a symlinked directory)
    if p.has_func("reader.check_for_path_obj"):
        fp = p.func("reader.check_for_path_obj")
        LEXICAL = {"abspath", "normpath", "relpath", "normcase", "expanduser", "expandvars", "lower", "upper", "strip", "replace"}
        SAME = {"absolute", "str", "__str__", "fspath", "as_posix", "isinstance", "format", "join", "getcwd", "cwd"}
        used = set()
        for sub in walk_shallow(fp.node):
            if isinstance(sub, ast.Call):
                used.add(sub.func.attr if isinstance(sub.func, ast.Attribute) else sub.func.id if isinstance(sub.func, ast.Name) else "?")
        lex = sorted(used & LEXICAL)
        other = sorted(used - LEXICAL - SAME)
        site_p = "reader.check_for_path_obj#path-to-str"
        if lex:
            ctx.bad("PU.CHANNEL", site_p, fp, fp.node, "a pathlib.Path is turned into a string through %s: the path is rewritten "
                    "lexically (`dir/link/../x.las` loses the symlink), so the Path and the same location given as an open file or "
                    "as a string can name different files" % lex)
        elif other:
            ctx.undecided("PU.CHANNEL", site_p, fp, fp.node, "the Path -> str conversion calls %s: not known to keep the named file" % other)
        else:
            ctx.ok("PU.CHANNEL", site_p, fp, fp.node, "a pathlib.Path becomes the string of the same (absolute) path, unrewritten")
    if n == 0:
        ctx.bad("PU.CHANNEL", "reader.open_file#string-channel", fo, fo.node, "open_file no longer wraps string content in StringIO")
    # explicit encoding precedence in open_with_codecs
    fc = p.func("reader.open_with_codecs")
    cfg = build_cfg(p, fc)
    cd = ControlDependence(cfg)
    encp = "encoding"
    if encp not in fc.params():
        raise AnalysisError("open_with_codecs has no `encoding` parameter")
    # names that stand for the encoding: the parameter, and locals that copy it / are copied back into it (an expanded helper works
    # on its own copy of the parameter and hands the result back)
    aliases = {encp}
    copies = [(a_.targets[0].id, a_.value.id) for a_ in walk_shallow(fc.node) if isinstance(a_, ast.Assign) and len(a_.targets) == 1
              and isinstance(a_.targets[0], ast.Name) and isinstance(a_.value, ast.Name)]
    for _ in range(4):
        for x, y in copies:
            if x in aliases or y in aliases:
                if (x in aliases) != (y in aliases) and (x.startswith("__ret_") or y.startswith("__ret_") or encp in x or encp in y):
                    aliases |= {x, y}
    for node in cfg.nodes:
        a = node.ast
        if node.kind == "stmt" and isinstance(a, ast.Assign) and any(isinstance(t, ast.Name) and t.id in aliases for t in a.targets):
            if isinstance(a.value, ast.Name) and a.value.id in aliases:
                continue          # a copy between two names of the encoding decides nothing
            n += 1
            site = "reader.open_with_codecs#encoding:=%s" % (unparse(a.value)[:30])
            if isinstance(a.value, ast.Constant) and isinstance(a.value.value, str) and "sig" in a.value.value:
                tests = [ast.unparse(cfg.nodes[tn].ast) for (tn, lab) in cd.transitive(node.id) if cfg.nodes[tn].kind == "test" and lab.startswith("true")]
                ctx.check(any("BOM" in t for t in tests), "PU.CHANNEL", site, fc, a,
                          "the BOM override of the encoding happens only when the file starts with a BOM",
                          "encoding is forced to %r without a BOM test" % a.value.value)
                # ... and whenever it does: the decision depends on the first bytes of the file only, not on the options
                tnodes = [cfg.nodes[tn].ast for (tn, lab) in cd.transitive(node.id) if cfg.nodes[tn].kind == "test"]
                opts = sorted({x.id for t in tnodes for x in ast.walk(t) if isinstance(x, ast.Name) and x.id in fc.params()})
                ctx.check(not opts, "PU.CHANNEL", site + ":always", fc, a,
                          "a detected UTF-8 BOM selects utf-8-sig whatever encoding options were passed (the BOM never reaches the text)",
                          "the BOM override also depends on the option(s) %s: a UTF-8 file with BOM read with an explicit encoding= keeps "
                          "U+FEFF glued to the first line, so its first section title is not recognised" % opts)
                continue
            guarded = False
            for (tn, lab) in cd.transitive(node.id):
                t = cfg.nodes[tn].ast
                if cfg.nodes[tn].kind != "test" or not lab.startswith("true"):
                    continue
                conj = t.values if isinstance(t, ast.BoolOp) and isinstance(t.op, ast.And) else [t]
                for c in conj:
                    if isinstance(c, ast.UnaryOp) and isinstance(c.op, ast.Not) and isinstance(c.operand, ast.Name) and c.operand.id in aliases:
                        guarded = True
                    if isinstance(c, ast.Compare) and isinstance(c.left, ast.Name) and c.left.id in aliases and isinstance(c.ops[0], ast.Is) \
                            and isinstance(c.comparators[0], ast.Constant) and c.comparators[0].value is None:
                        guarded = True
            uses_old = any(isinstance(x, ast.Name) and x.id in aliases for x in ast.walk(a.value))
            if not guarded:
                # the new value is computed by something that is given the caller's encoding (a candidate generator, a chooser
                # function): the precedence is decided in there
                def in_call_args(e):
                    return any(isinstance(c_, ast.Call) and any(isinstance(y, ast.Name) and y.id in aliases
                                                                for a_ in list(c_.args) + [k.value for k in c_.keywords] for y in ast.walk(a_))
                               for c_ in ast.walk(e))
                feeds = in_call_args(a.value)
                for x in ast.walk(a.value):
                    if isinstance(x, ast.Name) and x.id not in aliases:
                        for a2 in walk_shallow(fc.node):
                            if isinstance(a2, ast.Assign) and any(isinstance(t, ast.Name) and t.id == x.id for t in a2.targets) and in_call_args(a2.value):
                                feeds = True
                if feeds and any(isinstance(x, ast.Call) for x in ast.walk(a.value)):
                    ctx.undecided("PU.CHANNEL", site, fc, a, "`%s` derives the encoding from a computation that is handed the caller's "
                                  "encoding: which of them wins is decided inside it" % unparse(a)[:80])
                    continue
            ctx.check(guarded, "PU.CHANNEL", site, fc, a,
                      "a detected encoding is used only when the caller gave none (`not encoding`)",
                      "`%s` can replace an encoding the caller named explicitly (the assignment is not confined to `not "
                      "encoding`): a mis-detected codec garbles every non-ASCII header character" % unparse(a))
    # the bytes examined for the BOM are the start of the file, however the sampling options are set
    prov_c = Provenance(cfg)
    fname = fc.params()[0]
    for node in cfg.nodes:
        if node.kind != "test" or "BOM" not in ast.unparse(node.ast):
            continue
        atoms = set()
        for x in ast.walk(node.ast):
            if isinstance(x, ast.Name) and isinstance(x.ctx, ast.Load) and x.id not in ("codecs",):
                atoms |= set(prov_c.atoms(x, node.id))
        opts = sorted({a_[1] for a_ in atoms if a_[0] == "param" and a_[1] != fname})
        n += 1
        ctx.check(not opts, "PU.CHANNEL", "reader.open_with_codecs#bom-sample", fc, node.ast,
                  "the bytes tested for a BOM do not depend on any option",
                  "the bytes tested for the BOM are read in a way that depends on the option(s) %s: with a sample shorter than the BOM "
                  "(autodetect_encoding_chars=1 or 2) a UTF-8 BOM is not seen, stays glued to the first line, and the same text read from "
                  "a file and from a string differ" % opts)
    # encoding / errors reach io.open unchanged
    opens = [c for c in walk_shallow(fc.node) if isinstance(c, ast.Call) and ast.unparse(c.func) in ("io.open", "open", "codecs.open")
             and any(k.arg == "encoding" for k in c.keywords)]
    for c in opens:
        kw = {k.arg: k.value for k in c.keywords}
        if kw.get("mode") is not None and isinstance(kw["mode"], ast.Constant) and "b" in kw["mode"].value:
            continue
        n += 1
        errp = [x for x in fc.params() if "error" in x]
        enc_kw = kw.get("encoding")
        if isinstance(enc_kw, ast.Constant) and isinstance(enc_kw.value, str) and "sig" in enc_kw.value:
            # the BOM case opened directly (`return open_as("utf-8-sig")`): allowed exactly under the BOM test
            tests_ = [ast.unparse(cfg.nodes[tn].ast) for nid_ in cfg.node_of_expr(c) for (tn, lab) in cd.transitive(nid_)
                      if cfg.nodes[tn].kind == "test" and lab.startswith("true")]
            ctx.check(any("BOM" in t_ for t_ in tests_) and (not errp or ast.unparse(kw.get("errors", ast.Constant(value=None))) == errp[0]),
                      "PU.CHANNEL", "reader.open_with_codecs#bom-open", fc, c,
                      "the file is opened as %s only when it starts with a BOM" % enc_kw.value,
                      "`%s` opens the file as %s without a BOM test" % (unparse(c), enc_kw.value))
            continue
        under_bom = [ast.unparse(cfg.nodes[tn].ast) for nid_ in cfg.node_of_expr(c) for (tn, lab) in cd.transitive(nid_)
                     if cfg.nodes[tn].kind == "test" and lab.startswith("true") and "BOM" in ast.unparse(cfg.nodes[tn].ast)]
        if under_bom:
            ctx.bad("PU.CHANNEL", "reader.open_with_codecs#bom-open", fc, c, "under the BOM test the file is opened with `encoding=%s`, not "
                    "utf-8-sig: the BOM stays in the text as U+FEFF glued to the first section title, so a BOM file and the same text "
                    "given as a string read differently" % unparse(enc_kw))
            continue
        ok = ast.unparse(kw.get("encoding")) in aliases and (not errp or ast.unparse(kw.get("errors", ast.Constant(value=None))) == errp[0])
        nl = kw.get("newline")
        if nl is not None and not (isinstance(nl, ast.Constant) and nl.value is None):
            ok = False
        ctx.check(ok, "PU.CHANNEL", "reader.open_with_codecs#final-open", fc, c,
                  "the file is opened with encoding=encoding, errors=encoding_errors, universal newlines",
                  "the final open is `%s`: the caller's encoding/errors do not reach it unchanged (or newline translation is off)" % unparse(c))
    ctx.floor("PU.CHANNEL", 4)


# ---------------------------------------------------------------------------------------------- PU.TABLE-ALIAS

MUTATING_METHODS = {"append", "extend", "insert", "pop", "remove", "clear", "sort", "reverse", "update", "setdefault", "popitem",
                    "__setitem__", "__delitem__", "__iadd__"}
COPYING_CALLS = {"list", "dict", "tuple", "set", "frozenset", "sorted", "copy", "deepcopy", "OrderedDict", "str", "float", "int", "len",
                 "isinstance", "bool", "repr", "format", "enumerate", "zip", "range", "any", "all", "min", "max", "sum"}


def _shared_tables(p):
    """module-level mutable tables of lasio/defaults.py (dict / list / OrderedDict values)"""
    mod = p.module("defaults")
    out = set()
    for nm, vals in mod.globals.items():
        for v in vals:
            if isinstance(v, (ast.Dict, ast.List, ast.Set)) or (isinstance(v, ast.Call) and ast.unparse(v.func).split(".")[-1] in ("OrderedDict", "dict", "list", "defaultdict")):
                out.add(nm)
    return out


def rule_pu_table_alias(ctx):
    """no function reachable from LASFile.read mutates an object that may be (part of) a module-level table of
    lasio/defaults.py.  Flow-insensitive may-alias over local names: a name is shared if one of its definitions is an
    alias-preserving expression over a table (the table itself, an element, .get()/.values() of it, a conditional
    expression or tuple containing one, a loop variable ranging over one)."""
    p = ctx.p
    r = get_resolver(p)
    tables = _shared_tables(p)
    roots = [p.func(LF + ".__init__"), p.func(LF + ".read")]
    clos = r.closure(roots)
    n = 0
    for q, fi in sorted(clos.items()):
        if isinstance(fi.node, ast.Lambda):
            continue
        mod = fi.module

        def is_table_ref(e):
            if isinstance(e, ast.Attribute) and isinstance(e.value, ast.Name) and e.attr in tables:
                imp = mod.imports.get(e.value.id)
                return bool(imp and imp[0] == "module" and imp[1].endswith("defaults"))
            if isinstance(e, ast.Name) and e.id in tables:
                imp = mod.imports.get(e.id)
                return bool((imp and imp[0] == "name" and imp[1].endswith("defaults")) or mod.name == "defaults")
            return False
        shared = set()

        def aliases(e):
            """may e evaluate to (part of) a shared table?"""
            if is_table_ref(e):
                return True
            if isinstance(e, ast.Name):
                return e.id in shared
            if isinstance(e, ast.Subscript):
                return aliases(e.value)
            if isinstance(e, ast.IfExp):
                return aliases(e.body) or aliases(e.orelse)
            if isinstance(e, ast.BoolOp):
                return any(aliases(v) for v in e.values)
            if isinstance(e, (ast.Tuple, ast.List)):
                return any(aliases(v) for v in e.elts)
            if isinstance(e, ast.Starred):
                return aliases(e.value)
            if isinstance(e, ast.Call) and isinstance(e.func, ast.Attribute) and e.func.attr in ("get", "values", "items", "setdefault", "pop"):
                return aliases(e.func.value)
            return False

        def bind(t):
            if isinstance(t, ast.Name):
                shared.add(t.id)
            elif isinstance(t, (ast.Tuple, ast.List)):
                for e in t.elts:
                    bind(e)
            elif isinstance(t, ast.Starred):
                bind(t.value)
        changed = True
        rounds = 0
        while changed and rounds < 10:
            rounds += 1
            before = len(shared)
            for sub in walk_shallow(fi.node):
                if isinstance(sub, ast.Assign) and aliases(sub.value):
                    for t in sub.targets:
                        bind(t)
                elif isinstance(sub, ast.For) and aliases(sub.iter):
                    bind(sub.target)
                elif isinstance(sub, (ast.ListComp, ast.GeneratorExp, ast.SetComp, ast.DictComp)):
                    for g in sub.generators:
                        if aliases(g.iter):
                            bind(g.target)
            changed = len(shared) != before
        muts = []
        for sub in walk_shallow(fi.node):
            if isinstance(sub, ast.Call) and isinstance(sub.func, ast.Attribute) and sub.func.attr in MUTATING_METHODS and aliases(sub.func.value):
                if sub.func.attr in ("get",):
                    continue
                muts.append((sub, "`%s`" % unparse(sub)))
            elif isinstance(sub, ast.AugAssign) and aliases(sub.target):
                muts.append((sub, "`%s` (in-place for lists and dicts)" % unparse(sub)))
            elif isinstance(sub, (ast.Assign, ast.Delete)):
                for t in (sub.targets if isinstance(sub, (ast.Assign, ast.Delete)) else []):
                    if isinstance(t, ast.Subscript) and aliases(t.value):
                        muts.append((sub, "`%s`" % unparse(sub)))
        if not shared and not any(is_table_ref(x) for x in ast.walk(fi.node)):
            continue
        n += 1
        site = "%s#defaults-tables" % q
        if muts:
            ctx.bad("PU.TABLE-ALIAS", site, fi, muts[0][0], "%s modifies an object that may be (an element of) a module-level table of "
                    "lasio/defaults.py through %s (names that may alias a table: %s): one read changes the substitutions / orders "
                    "every later read uses" % (q, muts[0][1], sorted(shared)))
        else:
            ctx.ok("PU.TABLE-ALIAS", site, fi, fi.node, "uses tables of lasio/defaults.py (aliases: %s) read-only: no mutating call, "
                   "augmented assignment or subscript store on a name that may alias one" % (sorted(shared) or "none"))
    ctx.floor("PU.TABLE-ALIAS", 3)


def rule_pu_rewind(ctx):
    """the section scan numbers lines from where the handle stands, the fast engine from the start of the file (seek(0) +
    skip_header): read() must hand find_sections_in_file a handle at absolute position 0 - every seek on the handle before
    the scan is seek(0), and a peek (read/readline) is always followed by one"""
    from rules.common import read_family, calls_qual
    p = ctx.p
    host_fi = None
    for fi in read_family(p):
        if calls_qual(p, fi, {"reader.find_sections_in_file"}):
            host_fi = fi
            break
    if host_fi is None:
        ctx.undecided("PU.REWIND", READ + "#rewind", p.func(READ), p.func(READ).node, "no call of reader.find_sections_in_file found")
        return
    fi = host_fi
    cfg = build_cfg(p, fi)
    scan = calls_qual(p, fi, {"reader.find_sections_in_file"})[0]
    if not (scan.args and isinstance(scan.args[0], ast.Name)):
        ctx.undecided("PU.REWIND", READ + "#rewind", fi, scan, "the scan is not called on a plain name")
        return
    hv = scan.args[0].id
    scan_nodes = cfg.node_of_expr(scan)
    seeks, peeks = [], []
    for node in cfg.nodes:
        if node.ast is None or node.kind not in ("stmt", "test"):
            continue
        for c in walk_expr_shallow(node.ast):
            if isinstance(c, ast.Call) and isinstance(c.func, ast.Attribute) and isinstance(c.func.value, ast.Name) and c.func.value.id == hv:
                if c.func.attr == "seek":
                    seeks.append((node.id, c))
                elif c.func.attr in ("read", "readline", "readlines", "__next__"):
                    peeks.append((node.id, c))
    site = READ + "#rewind"
    problems = []
    path = None
    zero = [nid for nid, c in seeks if len(c.args) == 1 and isinstance(c.args[0], ast.Constant) and c.args[0].value == 0 and not c.keywords]
    for nid, c in seeks:
        if nid in zero:
            continue
        if cfg.find_path(nid, scan_nodes, avoid=zero, skip_labels=EXC):
            problems.append("`%s` positions the handle before the section scan: the scan's line numbers then count from there while "
                            "the fast engine skips lines from the start of the file" % unparse(c))
    for nid, c in peeks:
        pth = cfg.find_path(nid, scan_nodes, avoid=zero, skip_labels=EXC)
        if pth:
            problems.append("after the peek `%s` the section scan can start without a seek(0)" % unparse(c))
            path = cfg.describe_path(pth[:8])
    ctx.check(not problems, "PU.REWIND", site, fi, scan, "the section scan always starts at absolute position 0 (%d peek(s), each followed "
              "by seek(0))" % len(peeks), "; ".join(dict.fromkeys(problems)), path)
    ctx.floor("PU.REWIND", 1)


READ = LF + ".read"


# ---------------------------------------------------------------------------------------------- LF.* additions

def rule_no_alias_repeat(ctx):
    """LF.NO-ALIAS-REPEAT: a slot of the curve list (or of any section) always holds its own item object: no sequence
    repetition of a display that contains a constructed object (`[CurveItem("")] * n` puts ONE object into n slots), no
    dict.fromkeys(keys, <object>) in lasio/las.py and lasio/las_items.py"""
    p = ctx.p
    n = 0
    for q, fi in sorted(p.functions.items()):
        if fi.module.name not in ("las", "las_items") or isinstance(fi.node, ast.Lambda):
            continue
        hits = []
        for sub in walk_shallow(fi.node):
            if isinstance(sub, ast.BinOp) and isinstance(sub.op, ast.Mult):
                for side in (sub.left, sub.right):
                    if isinstance(side, (ast.List, ast.Tuple)) and any(
                            isinstance(c, ast.Call) and isinstance(c.func, (ast.Name, ast.Attribute))
                            and (c.func.id if isinstance(c.func, ast.Name) else c.func.attr)[:1].isupper() for e in side.elts for c in ast.walk(e)):
                        hits.append((sub, "`%s` repeats one constructed object" % unparse(sub)))
            if isinstance(sub, ast.Call) and isinstance(sub.func, ast.Attribute) and sub.func.attr == "fromkeys" and len(sub.args) == 2 \
                    and isinstance(sub.args[1], (ast.Call, ast.List, ast.Dict)):
                hits.append((sub, "`%s` shares one object between all keys" % unparse(sub)))
            if isinstance(sub, ast.Call) and ast.unparse(sub.func).split(".")[-1] == "repeat" and sub.args and isinstance(sub.args[0], ast.Call) \
                    and "np" not in ast.unparse(sub.func) and "numpy" not in ast.unparse(sub.func):
                hits.append((sub, "`%s` repeats one constructed object" % unparse(sub)))
        if fi.cls is None and fi.parent is None:
            continue
        if fi.cls is not None and fi.cls.name in ("LASFile", "SectionItems") and fi.parent is None:
            n += 1
            site = "%s#fresh-slots" % q
            if hits:
                ctx.bad("LF.NO-ALIAS-REPEAT", site, fi, hits[0][0], "%s: every slot then holds the same item, so naming or filling one "
                        "changes all of them" % hits[0][1])
            else:
                ctx.ok("LF.NO-ALIAS-REPEAT", site, fi, fi.node, "no repetition of a constructed object into several slots",
                       nontrivial=any(isinstance(c, ast.Call) and isinstance(c.func, ast.Name) and c.func.id in ("CurveItem", "HeaderItem")
                                      for c in walk_shallow(fi.node)))
    ctx.floor("LF.NO-ALIAS-REPEAT", 20)


def rule_sentinel(ctx):
    """LF.SENTINEL: `False` is the "argument not given" marker of the curve editors (update_curve(..., unit=False, ...)); the
    arguments are values ('' and 0 are legitimate), so the only admissible test on them is identity with False"""
    p = ctx.p
    cls = p.cls(LF)
    n = 0
    for mname, fi in sorted(cls.methods.items()):
        node = fi.node
        args = node.args
        defaults = list(zip([a.arg for a in args.args][len(args.args) - len(args.defaults):], args.defaults))
        sent = [nm for nm, d in defaults if isinstance(d, ast.Constant) and d.value is False]
        # keyword arguments fetched with an explicit False default: unit = kwargs.get("unit", False)
        for sub in walk_shallow(node):
            if isinstance(sub, ast.Assign) and len(sub.targets) == 1 and isinstance(sub.targets[0], ast.Name) and isinstance(sub.value, ast.Call) \
                    and isinstance(sub.value.func, ast.Attribute) and sub.value.func.attr in ("get", "pop") and len(sub.value.args) == 2 \
                    and isinstance(sub.value.args[1], ast.Constant) and sub.value.args[1].value is False:
                sent.append(sub.targets[0].id)
        if not sent:
            continue
        for nm in sent:
            # is it stored as a value somewhere (as opposed to a flag that is only tested)?
            stored = False
            for sub in walk_shallow(node):
                if isinstance(sub, ast.Assign) and any(isinstance(x, ast.Name) and x.id == nm for x in ast.walk(sub.value)) \
                        and any(isinstance(t, (ast.Attribute, ast.Subscript)) for t in sub.targets):
                    stored = True
                if isinstance(sub, ast.Call) and any(isinstance(k.value, ast.Name) and k.value.id == nm for k in sub.keywords):
                    pass
                if isinstance(sub, (ast.Tuple, ast.List)) and isinstance(getattr(sub, "_parent", None), (ast.Tuple, ast.List)) \
                        and any(isinstance(e, ast.Name) and e.id == nm for e in sub.elts):
                    stored = True   # (name, value) rows of a table that is looped over
            if not stored:
                continue
            n += 1
            site = "%s#sentinel(%s)" % (fi.qual, nm)
            ident, truthy = [], []
            for sub in walk_shallow(node):
                if isinstance(sub, ast.Compare) and isinstance(sub.left, ast.Name) and sub.left.id == nm and len(sub.ops) == 1 \
                        and isinstance(sub.comparators[0], ast.Constant) and sub.comparators[0].value is False:
                    (ident if isinstance(sub.ops[0], (ast.Is, ast.IsNot)) else truthy).append(sub)
                elif isinstance(sub, (ast.If, ast.IfExp, ast.While)):
                    t = sub.test
                    conj = t.values if isinstance(t, ast.BoolOp) else [t]
                    for c in conj:
                        if isinstance(c, ast.UnaryOp) and isinstance(c.op, ast.Not):
                            c = c.operand
                        if isinstance(c, ast.Name) and c.id == nm:
                            truthy.append(t)
            if truthy:
                ctx.bad("LF.SENTINEL", site, fi, truthy[0], "`%s` tests the value argument %s for truthiness / equality: '' and 0 are "
                        "legitimate new values and would be taken for 'not given'" % (unparse(truthy[0]), nm))
            elif not ident:
                ctx.bad("LF.SENTINEL", site, fi, node, "the value argument %s (default False = not given) is never compared with "
                        "`is False` / `is not False`: the 'not given' case is decided some other way (e.g. truthiness of a copy), so "
                        "'' or 0 cannot be stored" % nm)
            else:
                ctx.ok("LF.SENTINEL", site, fi, ident[0], "%s is stored under `%s` only" % (nm, unparse(ident[0])))
    if n == 0:
        ctx.undecided("LF.SENTINEL", LF + "#sentinel", None, cls.node, "no value argument with a `False` = 'not given' default is stored "
                      "directly into an attribute (the editors keep their updates in another form)")
    uc = cls.methods.get("update_curve")
    if uc is not None and sum(1 for i in ctx.instances if i.rule == "LF.SENTINEL" and i.site.startswith(uc.qual + "#")) < 2:
        # update_curve keeps its optional arguments in another form (a defaults table updated with **kwargs ...): the identity tests
        # on plain locals that this rule reads are not there
        ctx.undecided("LF.SENTINEL", uc.qual + "#sentinel", uc, uc.node, "update_curve does not fetch its optional arguments into plain locals "
                      "with a False default: how 'not given' is told from '' / 0 is not decided in this form")
        ctx.floor("LF.SENTINEL", min(2, n))
        return
    ctx.floor("LF.SENTINEL", 2)


def rule_rename_reset(ctx):
    """SI.RENAME-RESET: assigning item.mnemonic always (i) records the new original mnemonic and (ii) resets the session
    mnemonic to the bare useful mnemonic - set_data()/assign_duplicate_suffixes rely on (ii) to drop stale ':n' suffixes"""
    p = ctx.p
    fi = p.func("las_items.HeaderItem.__setattr__")
    cfg = build_cfg(p, fi)
    key = fi.params()[1]
    site = fi.qual + "#mnemonic-branch"
    branch = None
    for node in cfg.nodes:
        if node.kind == "test" and isinstance(node.ast, ast.Compare) and isinstance(node.ast.left, ast.Name) and node.ast.left.id == key \
                and isinstance(node.ast.comparators[0], ast.Constant) and node.ast.comparators[0].value == "mnemonic":
            branch = node
    if branch is None:
        ctx.undecided("SI.RENAME-RESET", site, fi, fi.node, "no `key == 'mnemonic'` branch in HeaderItem.__setattr__")
        return
    resets = [n.id for n in cfg.nodes if n.ast is not None and n.kind == "stmt" and any(
        isinstance(c, ast.Call) and isinstance(c.func, ast.Attribute) and c.func.attr == "set_session_mnemonic_only" for c in walk_expr_shallow(n.ast))]
    origs = [n.id for n in cfg.nodes if n.ast is not None and n.kind == "stmt" and isinstance(n.ast, ast.Assign) and any(
        isinstance(t, ast.Attribute) and t.attr == "original_mnemonic" for t in n.ast.targets)]
    starts = [t for (t, lab) in cfg.succ[branch.id] if lab.startswith("true")]
    problems = []
    path = None
    for what, nodes in (("reset the session mnemonic (set_session_mnemonic_only)", resets), ("record original_mnemonic", origs)):
        if not nodes:
            problems.append("the mnemonic branch does not %s" % what)
            continue
        for st in starts:
            if st in nodes:
                continue
            pth = cfg.find_path(st, [cfg.exit], avoid=nodes, skip_labels=EXC)
            if pth:
                problems.append("a rename can leave __setattr__ without having %s" % ("reset the session mnemonic" if "reset" in what else "recorded original_mnemonic"))
                path = cfg.describe_path(pth[:8])
    ctx.check(not problems, "SI.RENAME-RESET", site, fi, branch.ast, "every assignment to .mnemonic records original_mnemonic and resets the "
              "session mnemonic to the useful mnemonic, on every path", "; ".join(dict.fromkeys(problems)), path)
    ctx.floor("SI.RENAME-RESET", 1)


def rule_write_no_state(ctx):
    """WR.NO-STATE: nothing reachable from write() keeps state from one call to the next: no write to module-level objects /
    class attributes (same detector as PU.GLOBAL) and no mutation of a mutable default argument, including from nested
    functions that close over it"""
    p = ctx.p
    r = get_resolver(p)
    ea = get_effects(p)
    roots = [p.func("writer.write"), p.func(LF + ".write")]
    clos = r.closure(roots)
    n = 0
    for q, fi in sorted(clos.items()):
        if fi.module.name not in ("writer", "las", "las_items", "defaults") or isinstance(fi.node, ast.Lambda):
            continue
        ws = _global_writes(p, ea, fi)
        # mutable defaults mutated through nested functions / mutating methods
        node = fi.node
        args = node.args
        defaults = list(zip([a.arg for a in args.args][len(args.args) - len(args.defaults):], args.defaults))
        defaults += [(a.arg, d) for a, d in zip(args.kwonlyargs, args.kw_defaults) if d is not None]
        mut = {nm for nm, d in defaults if isinstance(d, (ast.Dict, ast.List, ast.Set)) or (
            isinstance(d, ast.Call) and isinstance(d.func, ast.Name) and d.func.id in ("dict", "list", "set", "OrderedDict"))}
        if mut:
            # only an unconditional re-binding at the top of the body detaches the name from the shared default object
            rebound = {t.id for sub in node.body if isinstance(sub, ast.Assign) for t in sub.targets if isinstance(t, ast.Name)}
            for sub in ast.walk(node):
                tgt = None
                if isinstance(sub, ast.Call) and isinstance(sub.func, ast.Attribute) and isinstance(sub.func.value, ast.Name) \
                        and sub.func.attr in MUTATING_METHODS:
                    tgt = sub.func.value.id
                elif isinstance(sub, (ast.Assign, ast.AugAssign, ast.Delete)):
                    for t in (sub.targets if isinstance(sub, (ast.Assign, ast.Delete)) else [sub.target]):
                        if isinstance(t, ast.Subscript) and isinstance(t.value, ast.Name):
                            tgt = t.value.id
                if tgt in mut and tgt not in rebound:
                    ws.append((sub, "mutates its mutable default argument `%s` (`%s`): what one call stores is seen by the next call"
                               % (tgt, unparse(sub)[:60])))
        n += 1
        site = "%s#call-state" % q
        if ws:
            ctx.bad("WR.NO-STATE", site, fi, ws[0][0], "%s (reachable from write()) %s" % (q, ws[0][1]))
        else:
            ctx.ok("WR.NO-STATE", site, fi, fi.node, "keeps nothing between calls (no module/class state, no mutated default argument)",
                   nontrivial=bool(mut) or fi.module.name == "writer")
    ctx.floor("WR.NO-STATE", 5)


def rule_pu_cookie(ctx):
    """PU.COOKIE: a section address is the tell() cookie of the line start, handed back to seek() unchanged: text-mode
    cookies are opaque (UTF-16: two bytes per character, BOM state), so arithmetic on them addresses a different place"""
    p = ctx.p
    fi = p.func("reader.find_sections_in_file")
    site = fi.qual + "#address"
    apps = [c for c in walk_shallow(fi.node) if isinstance(c, ast.Call) and isinstance(c.func, ast.Attribute) and c.func.attr == "append"
            and c.args and isinstance(c.args[0], ast.Tuple) and len(c.args[0].elts) >= 3]
    if not apps:
        ctx.undecided("PU.COOKIE", site, fi, fi.node, "no `<list>.append((pos, line_no, title))` in find_sections_in_file")
        return
    for c in apps:
        pos = c.args[0].elts[0]
        problems = []
        if not isinstance(pos, ast.Name):
            problems.append("the recorded position is `%s`, not the tell() value itself" % unparse(pos))
        else:
            defs = [s_.value for s_ in walk_shallow(fi.node) if isinstance(s_, ast.Assign) and any(isinstance(t, ast.Name) and t.id == pos.id for t in s_.targets)]
            for d in defs:
                inner = d.args[0] if isinstance(d, ast.Call) and isinstance(d.func, ast.Name) and d.func.id == "int" and len(d.args) == 1 else d
                if not (isinstance(inner, ast.Call) and isinstance(inner.func, ast.Attribute) and inner.func.attr == "tell" and not inner.args):
                    problems.append("`%s = %s` is not a plain tell()" % (pos.id, unparse(d)))
            if not defs:
                ctx.undecided("PU.COOKIE", site, fi, c, "`%s` is not assigned in find_sections_in_file (it is produced elsewhere)" % pos.id)
                continue
        ctx.check(not problems, "PU.COOKIE", site, fi, c, "section addresses are unmodified tell() cookies", "; ".join(problems) +
                  ": for a UTF-16 file (or any multi-byte codec) the computed address is not a valid position of the text stream")
    ctx.floor("PU.COOKIE", 1)


CHANNEL_PROBES = [("~V\n1 2", True), ("~V\r\n1 2", True), ("~Version\nVERS. 2.0 : x\n~A\n1 2\n", True), ("x.las", False),
                  ("C:\\data\\well 1.las", False), ("~A\n1670.0 50.5 -999.25", True)]


def rule_pu_channel_table(ctx):
    """PU.CHANNEL (decision table): a str argument is LAS content exactly when it has more than one line; the test in
    open_file is folded over probe strings (two-line texts without a final line break included)"""
    from sa.consts import fold, NotConst
    p = ctx.p
    fo = p.func("reader.open_file")
    fparam = fo.params()[0]
    site = "reader.open_file#content-or-filename"
    wraps = [c for c in ast.walk(fo.node) if isinstance(c, ast.Call) and ast.unparse(c.func).endswith("StringIO") and c.args
             and isinstance(c.args[0], ast.Name) and c.args[0].id == fparam]
    if not wraps:
        ctx.undecided("PU.CHANNEL", site, fo, fo.node, "no StringIO(<text argument>) in open_file")
        return
    w = wraps[0]
    iff = enclosing(w, (ast.If,))
    if iff is None:
        ctx.undecided("PU.CHANNEL", site, fo, w, "the StringIO wrap is not under an if")
        return
    test = iff.test
    defs = {}
    for s_ in walk_shallow(fo.node):
        if isinstance(s_, ast.Assign) and len(s_.targets) == 1 and isinstance(s_.targets[0], ast.Name):
            defs.setdefault(s_.targets[0].id, []).append(s_.value)
    problems = []
    n_eval = 0
    for text, want in CHANNEL_PROBES:
        depth = [0]

        def env(name, text=text):
            if name == fparam:
                return text
            if name in defs and len(defs[name]) == 1:
                depth[0] += 1
                if depth[0] > 20:
                    raise NotConst("cyclic")
                try:
                    return fold(defs[name][0], env)
                finally:
                    depth[0] -= 1
            raise NotConst("name %s" % name)
        try:
            got = bool(fold(test, env))
        except NotConst:
            continue
        n_eval += 1
        if got != want:
            problems.append("%r is taken for %s" % (text, "LAS content" if got else "a file name"))
    if n_eval < 4:
        ctx.undecided("PU.CHANNEL", site, fo, test, "the content-or-filename test `%s` could be folded for %d probes only" % (unparse(test), n_eval))
        return
    ctx.check(not problems, "PU.CHANNEL", site, fo, test, "a string with more than one line is content, a single line is a file name "
              "(%d probe strings)" % n_eval, "; ".join(problems) + ": the same text read through StringIO or from a file gives a result, "
              "as a string it raises FileNotFoundError")


def rule_editors_pure(ctx):
    """LF.NO-MODULE-STATE: the curve editors change the LASFile they are called on and nothing else - in particular no module-level
    object (a defaults table updated in place makes the arguments of one call the defaults of the next, on every LASFile)."""
    p = ctx.p
    r = get_resolver(p)
    ea = get_effects(p)
    cls = p.cls(LF)
    roots = [cls.methods[m] for m in MUTATORS if m in cls.methods]
    clos = r.closure(roots)
    n = 0
    for q, fi in sorted(clos.items()):
        if fi.module.name not in ("las", "las_items"):
            continue
        ws = _global_writes(p, ea, fi)
        n += 1
        site = "%s#module-state" % q
        if ws:
            ctx.bad("LF.NO-MODULE-STATE", site, fi, ws[0][0], "%s (reachable from the curve editors) %s: what one call passes in is remembered and "
                    "applied by later calls, also on other LASFile objects" % (q, ws[0][1]))
        else:
            ctx.ok("LF.NO-MODULE-STATE", site, fi, fi.node, "writes no module-level state", nontrivial=False)
    ctx.floor("LF.NO-MODULE-STATE", 5)


SI_MUTATORS = ("__delitem__", "__setitem__", "append", "insert", "set_item", "set_item_value", "pop", "remove", "extend", "__iadd__")


def rule_no_swallow(ctx):
    """LF.NO-SWALLOW: the list model an edit history is compared with raises for an edit it cannot do (position out of range,
    unknown mnemonic).  Composite edits rely on that: replace_curve_item is delete + insert and has no bounds check of its own.
    An editing method of LASFile / SectionItems therefore never catches the lookup error of the collection primitive it calls
    and carries on (log / pass / return) - a handler that re-raises or retries the edit another way is not a swallow."""
    p = ctx.p
    n = 0
    broad = {"IndexError", "KeyError", "LookupError", "Exception", "BaseException", "ValueError"}

    def touches_collection(nodes):
        for s in nodes:
            for c in ast.walk(s):
                if isinstance(c, ast.Call):
                    f = ast.unparse(c.func)
                    if f.startswith(("self.", "list.", "super(")) and not f.startswith("self.logger"):
                        return c
                if isinstance(c, (ast.Delete,)) or (isinstance(c, ast.Subscript) and isinstance(c.ctx, (ast.Store, ast.Del))
                                                     and ast.unparse(c.value).startswith("self")):
                    return c
        return None

    for q, names in ((LF, MUTATORS), ("las_items.SectionItems", SI_MUTATORS)):
        cls = p.cls(q)
        for m in names:
            fi = cls.methods.get(m)
            if fi is None:
                continue
            n += 1
            bad = None
            for t in walk_shallow(fi.node):
                if not isinstance(t, ast.Try) or touches_collection(t.body) is None:
                    continue
                for h in t.handlers:
                    types = [h.type] if h.type is not None and not isinstance(h.type, ast.Tuple) else (h.type.elts if h.type is not None else [])
                    caught = {ast.unparse(x).split(".")[-1] for x in types} if h.type is not None else {"BaseException"}
                    if not (caught & broad):
                        continue
                    if any(isinstance(x, ast.Raise) for s in h.body for x in ast.walk(s)) or touches_collection(h.body) is not None:
                        continue
                    bad = (t, h, sorted(caught & broad))
            ctx.check(bad is None, "LF.NO-SWALLOW", "%s.%s#errors" % (q, m), fi, bad[1] if bad else fi.node,
                      "%s lets the lookup errors of the collection primitives it calls propagate" % m,
                      bad and ("%s catches %s raised by `%s` and carries on without re-raising or retrying: an edit the list model "
                               "rejects (position out of range, unknown mnemonic) is silently skipped, and composite edits that rely "
                               "on the raise as their bounds check (replace_curve_item = delete + insert) then change the collection"
                               % (m, "/".join(bad[2]), unparse(touches_collection(bad[0].body)))))
    ctx.floor("LF.NO-SWALLOW", 10)
