"""Rule groups SEC and LINE: section intervals and line classification (C02, C05, C09, C07).

SEC.SCAN        the title scan tests every line it reads; one counter increment per line; a title is recorded
                under the title predicate only
SEC.CONVENTION  all section ends the scan produces have the same offset from the boundary line (inclusive last
                line), every consumer loop assumes that convention, the numpy engine's skip_header/max_rows are
                the matching affine forms
SEC.END-TEST    in every section-bounded loop the counter advances exactly once per physical line, the loop iterates
                the file object itself, and the end-of-section test is evaluated on every iteration, after the line
                was processed
SEC.CASE        every predicate that classifies a title by its letter gives the same answer for ~x and ~X
SEC.STEER       VERS/WRAP/DLM are taken only under a ~V selector and NULL only under a ~W selector
SEC.TITLE-PRED  every "is this a title" test is startswith('~') on a stripped line
SEC.ROUTE       one store into self.sections per header section; the key agrees with the parser kind chosen by
                SectionParser for the same title (truth table over probe titles)
SEC.RESEEK      every section consumer is entered with the file positioned at the section start
LINE.NORMALISE  blank/comment classification happens on the fully stripped line in all three classifying loops, both
                skips precede counting/parsing, sniffer and reference engine agree
"""
import ast

from sa.astutil import ordn

from sa import AnalysisError, ShapeNotRecognised
from sa.astutil import unparse, parents, in_block, enclosing
from sa.cfg import build_cfg, EXC, is_exc_label
from sa.consts import fold, NotConst, module_env
from sa.dataflow import Provenance, ControlDependence, ReachingDefs, target_names, node_defs
from sa.loader import walk_shallow, walk_expr_shallow
from sa.resolve import get_resolver
from rules.common import host_sections, host_data, read_family

LETTERS = "VWCPOA"
READ = "las.LASFile.read"


# ---------------------------------------------------------------------------------------------- helpers

def _file_param(fi):
    ps = [x for x in fi.params() if x not in ("self",)]
    if not ps:
        raise AnalysisError("%s has no file parameter" % fi.qual)
    return ps[0]


def _loop_over_file(fi, fparam):
    """for-loops iterating the file object: [(loop, countervar or None, linevar, direct(bool), start_expr or None)]"""
    out = []
    for sub in walk_shallow(fi.node):
        if not isinstance(sub, ast.For):
            continue
        it = sub.iter
        names = {n.id for n in ast.walk(it) if isinstance(n, ast.Name)}
        if fparam not in names:
            continue
        direct = False
        counter = None
        start = None
        linevar = None
        if isinstance(it, ast.Name) and it.id == fparam and isinstance(sub.target, ast.Name):
            direct, linevar = True, sub.target.id
        elif (isinstance(it, ast.Call) and isinstance(it.func, ast.Name) and it.func.id == "enumerate" and it.args
              and isinstance(sub.target, ast.Tuple) and len(sub.target.elts) == 2
              and all(isinstance(e, ast.Name) for e in sub.target.elts)):
            direct = isinstance(it.args[0], ast.Name) and it.args[0].id == fparam
            linevar = sub.target.elts[1].id
            st = it.args[1] if len(it.args) > 1 else next((k.value for k in it.keywords if k.arg == "start"), None)
            if st is not None:
                counter, start = sub.target.elts[0].id, st
        else:
            if isinstance(sub.target, ast.Name):
                linevar = sub.target.id
            elif isinstance(sub.target, ast.Tuple) and isinstance(sub.target.elts[-1], ast.Name):
                linevar = sub.target.elts[-1].id
        if linevar:
            # `for raw in f: line = raw.strip(...)` (raw read nowhere else): the line variable is `line`
            uses = [n for st in sub.body for n in ast.walk(st) if isinstance(n, ast.Name) and n.id == linevar and isinstance(n.ctx, ast.Load)]
            stores = [n for st in sub.body for n in ast.walk(st) if isinstance(n, ast.Name) and n.id == linevar and isinstance(n.ctx, ast.Store)]
            if len(uses) == 1 and not stores:
                for st in sub.body:
                    if isinstance(st, ast.Assign) and len(st.targets) == 1 and isinstance(st.targets[0], ast.Name) \
                            and st.targets[0].id != linevar and any(x is uses[0] for x in ast.walk(st.value)):
                        linevar = st.targets[0].id
        out.append((sub, counter, linevar, direct, start))
    return out


def _lin(e, resolve, depth=0):
    """linear normal form {symbol: coeff, 1: const} of an integer expression; resolve(name)->expr or None"""
    if depth > 8:
        return None
    if isinstance(e, ast.Constant) and isinstance(e.value, int) and not isinstance(e.value, bool):
        return {1: e.value}
    if isinstance(e, ast.Name):
        d = resolve(e.id)
        if d is not None:
            return _lin(d, resolve, depth + 1)
        return {e.id: 1}
    if isinstance(e, ast.Subscript) and isinstance(e.slice, ast.Constant):
        return {ast.unparse(e): 1}
    if isinstance(e, ast.UnaryOp) and isinstance(e.op, ast.USub):
        v = _lin(e.operand, resolve, depth + 1)
        return None if v is None else {k: -c for k, c in v.items()}
    if isinstance(e, ast.BinOp) and isinstance(e.op, (ast.Add, ast.Sub)):
        l, r = _lin(e.left, resolve, depth + 1), _lin(e.right, resolve, depth + 1)
        if l is None or r is None:
            return None
        out = dict(l)
        for k, c in r.items():
            out[k] = out.get(k, 0) + (c if isinstance(e.op, ast.Add) else -c)
        return {k: c for k, c in out.items() if c != 0 or k == 1}
    if isinstance(e, ast.Call) and isinstance(e.func, ast.Name) and e.func.id == "int" and len(e.args) == 1:
        return _lin(e.args[0], resolve, depth + 1)
    return None


def _single_defs(fi):
    """name -> value expr for names assigned exactly once (plain assignment) in the function"""
    defs = {}
    for sub in walk_shallow(fi.node):
        if isinstance(sub, ast.Assign) and len(sub.targets) == 1 and isinstance(sub.targets[0], ast.Name):
            defs.setdefault(sub.targets[0].id, []).append(sub.value)
        elif isinstance(sub, ast.Assign):
            for t in sub.targets:
                for nm in target_names(t):
                    defs.setdefault(nm, []).append(None)
        elif isinstance(sub, (ast.AugAssign, ast.For, ast.With, ast.AnnAssign, ast.comprehension)):
            if isinstance(sub, ast.With):
                ts = [it.optional_vars for it in sub.items if it.optional_vars is not None]
            else:
                ts = [sub.target]
            for t in ts:
                for nm in target_names(t):
                    defs.setdefault(nm, []).append(None)
    for nm in fi.params():
        defs.setdefault(nm, []).append(None)
    out = {k: v[0] for k, v in defs.items() if len(v) == 1 and v[0] is not None}
    # `if T: v = A else: v = B` (the only two definitions of v) is the single definition `A if T else B`
    for sub in walk_shallow(fi.node):
        if isinstance(sub, ast.If) and len(sub.body) == 1 and len(sub.orelse) == 1 and all(
                isinstance(s_, ast.Assign) and len(s_.targets) == 1 and isinstance(s_.targets[0], ast.Name) for s_ in (sub.body[0], sub.orelse[0])) \
                and sub.body[0].targets[0].id == sub.orelse[0].targets[0].id:
            nm = sub.body[0].targets[0].id
            if len(defs.get(nm, [])) == 2 and all(v is not None for v in defs[nm]):
                out[nm] = ast.fix_missing_locations(ast.copy_location(
                    ast.IfExp(test=sub.test, body=sub.body[0].value, orelse=sub.orelse[0].value), sub))
    # `a, b = <expr>` (only definition of a and b): a is `<expr>[0]`, b is `<expr>[1]`
    for sub in walk_shallow(fi.node):
        if isinstance(sub, ast.Assign) and len(sub.targets) == 1 and isinstance(sub.targets[0], ast.Tuple) \
                and all(isinstance(e, ast.Name) for e in sub.targets[0].elts) and not isinstance(sub.value, ast.Tuple):
            for k_, e in enumerate(sub.targets[0].elts):
                if len(defs.get(e.id, [])) == 1:
                    out[e.id] = ast.fix_missing_locations(ast.copy_location(
                        ast.Subscript(value=sub.value, slice=ast.Constant(value=k_), ctx=ast.Load()), sub))
    return out


# ---------------------------------------------------------------------------------------------- SEC.SCAN / CONVENTION

def _scan_facts(p):
    fi = p.func("reader.find_sections_in_file")
    fparam = _file_param(fi)
    loops = [s for s in walk_shallow(fi.node) if isinstance(s, (ast.While, ast.For))]
    scan = None
    for lp in loops:
        if any(isinstance(c, ast.Call) and isinstance(c.func, ast.Attribute) and c.func.attr == "startswith"
               and c.args and isinstance(c.args[0], ast.Constant) and c.args[0].value == "~" for c in ast.walk(lp)):
            if scan is None or ordn(lp) < ordn(scan):
                scan = lp
    if scan is None:
        return fi, fparam, None
    return fi, fparam, scan


def rule_scan(ctx):
    p = ctx.p
    fi, fparam, scan = _scan_facts(p)
    if scan is None:
        ctx.undecided("SEC.SCAN", fi.qual + "#scan", fi, fi.node, "no loop with a startswith('~') title test in find_sections_in_file "
                      "(SEC.TITLE-PRED reports a different title predicate)")
        return
    cfg = build_cfg(p, fi)
    cd = ControlDependence(cfg)
    site = fi.qual
    # line variable of the scan: while <line>: ... / for line in f
    if isinstance(scan, ast.While):
        linevar = scan.test.id if isinstance(scan.test, ast.Name) else (
            scan.test.target.id if isinstance(scan.test, ast.NamedExpr) and isinstance(scan.test.target, ast.Name) else None)
    else:
        linevar = scan.target.id if isinstance(scan.target, ast.Name) else (
            scan.target.elts[-1].id if isinstance(scan.target, ast.Tuple) else None)
    if linevar is None:
        ctx.undecided("SEC.SCAN", site + "#scan", fi, scan, "the title scan is neither `while <line>:` nor `for <line> in <file>:`")
        return
    # 1. every readline() in the function is assigned to the line variable (every line read is tested)
    n_read = 0
    for sub in walk_shallow(fi.node):
        if isinstance(sub, ast.Call) and isinstance(sub.func, ast.Attribute) and sub.func.attr in ("readline", "readlines", "read", "__next__"):
            if not (isinstance(sub.func.value, ast.Name) and sub.func.value.id == fparam):
                continue
            n_read += 1
            if sub.args or sub.keywords:
                ctx.bad("SEC.SCAN", "%s#read:%d:whole-line" % (site, n_read), fi, sub, "`%s` reads at most a given number of characters: a "
                        "longer physical line is counted as several lines, and every later section gets line numbers the fast engine "
                        "(which counts physical lines) does not agree with" % unparse(sub))
            par = getattr(sub, "_parent", None)
            ok = (isinstance(par, ast.Assign) and len(par.targets) == 1 and isinstance(par.targets[0], ast.Name) and par.targets[0].id == linevar) or (
                isinstance(par, ast.NamedExpr) and isinstance(par.target, ast.Name) and par.target.id == linevar)
            ctx.check(ok, "SEC.SCAN", "%s#read:%d" % (site, n_read), fi, sub,
                      "line read by %s is assigned to the scanned variable `%s`" % (unparse(sub), linevar),
                      "%s reads a line that is never tested for being a section title: sections after it are not found "
                      "and their lines are attributed to the previous section" % unparse(sub))
        elif isinstance(sub, ast.Call) and isinstance(sub.func, ast.Name) and sub.func.id == "next" and sub.args and isinstance(sub.args[0], ast.Name) and sub.args[0].id == fparam:
            n_read += 1
            ctx.bad("SEC.SCAN", "%s#read:%d" % (site, n_read), fi, sub, "next(%s) consumes a line without testing it for a title" % fparam)
    # nested loops over the file inside the scan
    for sub in ast.walk(scan):
        if sub is not scan and isinstance(sub, (ast.For, ast.While)) and fparam in {n.id for n in ast.walk(sub) if isinstance(n, ast.Name)}:
            ctx.bad("SEC.SCAN", site + "#nested-loop", fi, sub, "a nested loop consumes lines of the file inside the title "
                    "scan without testing them for titles")
    # 2. title recording is controlled by the title predicate only
    appends = [c for c in ast.walk(scan) if isinstance(c, ast.Call) and isinstance(c.func, ast.Attribute) and c.func.attr == "append"]
    starts_app = None
    for c in appends:
        if c.args and isinstance(c.args[0], ast.Tuple) and len(c.args[0].elts) >= 3:
            starts_app = c
    if starts_app is None:
        ctx.undecided("SEC.SCAN", site + "#record", fi, scan, "no `<list>.append((pos, line_no, title))` records the section starts")
        return
    tests = set()
    for nid in cfg.node_of_expr(starts_app):
        for (tn, lab) in cd.transitive(nid):
            if cfg.nodes[tn].kind == "test":
                t = cfg.nodes[tn].ast
                if t is scan.test if isinstance(scan, ast.While) else False:
                    continue
                tests.add((unparse(t), lab))
    title_tests = [t for t in tests if "startswith('~')" in t[0] and t[1].startswith("true")]
    other = [t for t in tests if t not in title_tests]
    ctx.check(len(title_tests) == 1 and not other, "SEC.SCAN", site + "#record", fi, starts_app,
              "a section start is recorded exactly when the stripped line starts with '~'",
              "recording of a section start depends on %s besides the title predicate: some title lines are not "
              "recorded as sections" % ([t[0] for t in other] or "no title predicate"))
    # 3. counter increments exactly once per iteration
    counter = starts_app.args[0].elts[1]
    if not isinstance(counter, ast.Name):
        raise AnalysisError("line counter of the title scan is not a plain name")
    cv = counter.id
    incs = []
    for node in cfg.nodes:
        a = node.ast
        if node.kind == "stmt" and (
                (isinstance(a, ast.AugAssign) and isinstance(a.target, ast.Name) and a.target.id == cv) or
                (isinstance(a, ast.Assign) and any(isinstance(t, ast.Name) and t.id == cv for t in a.targets)
                 and in_block(a, scan.body))):
            if in_block(a, scan.body):
                incs.append(node.id)
    head = cfg.nodes_for(scan)
    ok = bool(incs) and bool(head)
    msg = ""
    if not incs and isinstance(scan, ast.For) and cv in {n.id for n in ast.walk(scan.target) if isinstance(n, ast.Name)}:
        it = scan.iter
        if isinstance(it, ast.Call) and isinstance(it.func, ast.Name) and it.func.id == "enumerate" and len(it.args) == 1 \
                and not it.keywords and isinstance(it.args[0], ast.Name) and it.args[0].id == fparam:
            ctx.ok("SEC.SCAN", site + "#counter", fi, scan, "the line counter is the enumerate() index of the file iteration")
        else:
            ctx.undecided("SEC.SCAN", site + "#counter", fi, scan, "the line counter is produced by `%s`" % unparse(it))
        ctx.floor("SEC.SCAN", 1)
        return
    if ok:
        h = head[0]
        # a path head->head avoiding all increments
        body_entry = [t for (t, lab) in cfg.succ[h] if lab in ("true", "body")]
        pth = None
        for be in body_entry:
            if be in incs:
                continue
            pth = cfg.find_path(be, [h], avoid=incs, skip_labels=EXC)
            if pth:
                break
        if pth:
            ok, msg = False, "an iteration of the scan can complete without advancing the line counter"
        for i in incs:
            p2 = cfg.find_path(i, [x for x in incs], avoid=[h], skip_labels=EXC)
            if p2:
                ok, msg = False, "the line counter can advance twice for one line"
        for i in incs:
            a = cfg.nodes[i].ast
            step = None
            if isinstance(a, ast.AugAssign) and isinstance(a.op, ast.Add) and isinstance(a.value, ast.Constant):
                step = a.value.value
            elif isinstance(a, ast.Assign):
                l = _lin(a.value, lambda n: None)
                if l is not None and l.get(cv) == 1:
                    step = l.get(1, 0)
            if step != 1:
                ok, msg = False, "the line counter advances by %s per line" % step
    ctx.check(ok, "SEC.SCAN", site + "#counter", fi, scan, "the line counter advances by exactly one for every line read",
              msg or "no increment of the line counter found in the scan loop")
    ctx.floor("SEC.SCAN", 1)


def rule_convention(ctx):
    p = ctx.p
    fi, fparam, scan = _scan_facts(p)
    site = fi.qual
    if scan is None:
        ctx.undecided("SEC.CONVENTION", site + "#producer", fi, fi.node, "no title scan loop recognised in find_sections_in_file")
        return
    # producer: ends.append(<counter + c>) inside the loop (boundary = title in hand, index = counter) and after it
    # (boundary = EOF, index = counter after the last increment)
    starts_app = None
    for c in ast.walk(scan):
        if isinstance(c, ast.Call) and isinstance(c.func, ast.Attribute) and c.func.attr == "append" and c.args and isinstance(c.args[0], ast.Tuple) and len(c.args[0].elts) >= 3:
            starts_app = c
    if starts_app is None or not isinstance(starts_app.args[0].elts[1], ast.Name):
        ctx.undecided("SEC.CONVENTION", site + "#producer", fi, fi.node, "no `<list>.append((pos, line_no, title))` in the title scan")
        return
    cv = starts_app.args[0].elts[1].id
    ends_name = None
    offsets = []
    for sub in walk_shallow(fi.node):
        if isinstance(sub, ast.Call) and isinstance(sub.func, ast.Attribute) and sub.func.attr == "append" and sub is not starts_app and sub.args:
            l = _lin(sub.args[0], lambda n: None)
            if l is not None and l.get(cv) == 1 and set(l) <= {cv, 1}:
                where = "inner" if in_block(sub, scan.body) else "last"
                offsets.append((where, l.get(1, 0), sub))
                ends_name = ast.unparse(sub.func.value)
    wheres = {w for w, c, s in offsets}
    cs = {c for w, c, s in offsets}
    if wheres != {"inner", "last"}:
        ctx.undecided("SEC.CONVENTION", site + "#producer", fi, fi.node, "section ends are not recorded as `ends.append(counter + c)` "
                      "inside and after the title scan (found %s): the producer side of the end convention is not decided "
                      "in this form" % sorted(wheres))
    elif len(cs) != 1:
        bad_site = [s for w, c, s in offsets if w == "last"][0]
        ctx.bad("SEC.CONVENTION", site + "#producer", fi, bad_site,
                "section ends are recorded with different offsets from the boundary line: %s - inner sections and the "
                "last section disagree about whether the end is inclusive" % sorted(
                    "%s: boundary%+d" % (w, c) for w, c, s in offsets))
        conv = None
    else:
        bad_site = [s for w, c, s in offsets if w == "last"][0]
        conv = cs.pop()
        ctx.check(conv == -1, "SEC.CONVENTION", site + "#producer", fi, bad_site,
                  "every section end is the index of the last line of the section (boundary - 1), for inner sections and "
                  "for the last one",
                  "section ends are recorded as boundary%+d: the consumers stop on `counter == end` after processing the "
                  "line, i.e. they need the inclusive index (boundary - 1)" % conv)
    # the tuples handed out are (pos, first, ends[j], title)
    # numpy engine: affine forms
    fn = p.func("reader.read_data_section_iterative_numpy_engine")
    lp = fn.params()[1]
    defs = _single_defs(fn)
    gen = [c for c in walk_shallow(fn.node) if isinstance(c, ast.Call) and isinstance(c.func, ast.Attribute) and c.func.attr in ("genfromtxt", "loadtxt")]
    if not gen:
        raise AnalysisError("no genfromtxt/loadtxt call in the numpy engine")
    call = gen[0]
    kw = {k.arg: k.value for k in call.keywords}
    a, b = "%s[0]" % lp, "%s[1]" % lp
    skip = kw.get("skip_header", kw.get("skiprows"))
    mr = kw.get("max_rows")
    problems = []
    if skip is None or mr is None:
        problems.append("the fast engine does not bound its window with skip_header and max_rows")
    else:
        ls = _lin(skip, lambda n: defs.get(n))
        lm = _lin(mr, lambda n: defs.get(n))
        if ls != {a: 1, 1: 1}:
            problems.append("skip_header is %s, expected first+1 (skip everything up to and including the title line)" % _fmt_lin(ls))
        if lm is None or {k: v for k, v in lm.items() if not (k == 1 and v == 0)} != {b: 1, a: -1}:
            problems.append("max_rows is %s, expected last-first (the number of lines of a section whose end index is "
                            "inclusive)" % _fmt_lin(lm))
    ctx.check(not problems, "SEC.CONVENTION", fn.qual + "#window", fn, call,
              "fast engine window: skip_header = first+1, max_rows = last-first (inclusive end)", "; ".join(problems))
    seeks = [c for c in walk_shallow(fn.node) if isinstance(c, ast.Call) and isinstance(c.func, ast.Attribute) and c.func.attr == "seek"]
    ok = any(c.args and isinstance(c.args[0], ast.Constant) and c.args[0].value == 0 and ordn(c) < ordn(call) for c in seeks)
    ctx.check(ok, "SEC.CONVENTION", fn.qual + "#absolute", fn, call,
              "the fast engine rewinds to the start of the file before skipping `first+1` lines",
              "the fast engine addresses lines absolutely (skip_header counts from line 0) but does not seek(0) first")
    ctx.floor("SEC.CONVENTION", 3)


def _fmt_lin(l):
    if l is None:
        return "not an affine expression of the section line numbers"
    return " + ".join("%s*%s" % (c, k) if k != 1 else str(c) for k, c in sorted(l.items(), key=lambda kv: str(kv[0])))


# ---------------------------------------------------------------------------------------------- consumer loops

def _consumer_loops(p):
    """[(fi, loop, role, counter, linevar, direct, start_expr, end_texts, first_texts)]"""
    out = []
    specs = [("reader.parse_header_items_section", "header"), ("reader.inspect_data_section", "sniffer")]
    for q, role in specs:
        fi = p.func(q)
        fparam = _file_param(fi)
        lp = fi.params()[1]
        loops = _loop_over_file(fi, fparam)
        if not loops:
            # the loop may have moved into a generator / helper that this function drives
            r_ = get_resolver(p)
            moved = [f.qual for q2, f in sorted(r_.closure([fi]).items()) if f is not fi and not isinstance(f.node, ast.Lambda) and any(
                isinstance(x, ast.For) and any(isinstance(n_, ast.Name) and n_.id in f.params() and "file" in n_.id for n_ in ast.walk(x.iter))
                for x in walk_shallow(f.node))]
            if moved:
                raise ShapeNotRecognised("the loop over the lines of the section is no longer in %s itself but in %s: the per-line "
                                         "clauses are not decided across that structure" % (q, ", ".join(moved)))
            raise AnalysisError("no loop over the file object in %s" % q)
        loop, counter, linevar, direct, start = loops[0]
        out.append((fi, loop, role, counter, linevar, direct, start, {"%s[1]" % lp}, {"%s[0]" % lp}))
    # reference engine: nested generator
    fe = p.func("reader.read_data_section_iterative_normal_engine")
    found = False
    # candidates: the nested generator, or a module-level (generator) function of the module that the engine calls
    called = {c.func.id for c in ast.walk(fe.node) if isinstance(c, ast.Call) and isinstance(c.func, ast.Name)}
    cands = list(fe.nested.items()) + [(nm, mf) for nm, mf in fe.module.functions.items() if nm in called and mf is not fe
                                       and any(isinstance(y, (ast.Yield, ast.YieldFrom)) for y in ast.walk(mf.node))]
    for nm, nf in cands:
        if isinstance(nf.node, ast.Lambda):
            continue
        try:
            fparam = _file_param(nf)
        except AnalysisError:
            continue
        loops = _loop_over_file(nf, fparam)
        if loops:
            loop, counter, linevar, direct, start = loops[0]
            # bind the nested function's parameters at its call site
            ends, firsts = set(), set()
            lp = fe.params()[1]
            for c in walk_shallow(fe.node):
                if isinstance(c, ast.Call) and isinstance(c.func, ast.Name) and c.func.id == nm:
                    bind = {}
                    pn = nf.params()
                    for i, a in enumerate(c.args):
                        if i < len(pn):
                            bind[pn[i]] = ast.unparse(a)
                    for k in c.keywords:
                        bind[k.arg] = ast.unparse(k.value)
                    for k, v in bind.items():
                        if v == "%s[1]" % lp:
                            ends.add(k)
                        if v == "%s[0]" % lp:
                            firsts.add(k)
            out.append((nf, loop, "reference-engine", counter, linevar, direct, start, ends, firsts))
            found = True
    if not found:
        # the loop may have been inlined into the engine function itself
        fparam = _file_param(fe)
        loops = _loop_over_file(fe, fparam)
        if not loops:
            # moved into a function or class that today's tree does not have (a tokenizer class, a module-level generator that was
            # not expanded): the per-line clauses are not decided across that structure
            from sa.normalize import _reference
            ref_ = _reference()
            moved = [f_.qual for q_, f_ in sorted(p.functions.items()) if q_ not in ref_ and f_.module.name == fe.module.name
                     and not isinstance(f_.node, ast.Lambda) and any(
                         isinstance(x, ast.For) and any(isinstance(n_, ast.Name) and n_.id in f_.params() for n_ in ast.walk(x.iter))
                         for x in walk_shallow(f_.node))]
            if moved:
                raise ShapeNotRecognised("the reference engine's loop over the lines of the section now lives in %s: the per-line clauses "
                                         "are not decided across that structure" % ", ".join(moved))
            raise AnalysisError("no loop over the file object in the reference engine")
        loop, counter, linevar, direct, start = loops[0]
        lp = fe.params()[1]
        out.append((fe, loop, "reference-engine", counter, linevar, direct, start, {"%s[1]" % lp}, {"%s[0]" % lp}))
    # ~Other (free text) loop: in LASFile.read or in a private helper of the las module it calls
    fr = p.func(READ)
    cands = list(read_family(p)) + [f for q, f in sorted(p.functions.items()) if f.module.name == "las" and f.cls is None and f.parent is None]
    found_other = False
    for cf in cands:
        if found_other:
            break
        for sub in walk_shallow(cf.node):
            if not (isinstance(sub, ast.For) and isinstance(sub.iter, ast.Name) and isinstance(sub.target, ast.Name)):
                continue
            if not ("file" in sub.iter.id or sub.iter.id in cf.params()):
                continue
            if not any(isinstance(c, ast.Call) and isinstance(c.func, ast.Attribute) and c.func.attr == "append" for c in ast.walk(sub)):
                continue
            if not _is_title_test(sub, sub.target.id):
                continue
            # counter = name advanced by += 1 in the loop; first = its initial value; last = what it is compared with
            cvs = [a.target.id for a in ast.walk(sub) if isinstance(a, ast.AugAssign) and isinstance(a.target, ast.Name)]
            if not cvs:
                continue
            cv = cvs[0]
            firsts, ends = set(), set()
            for s2 in walk_shallow(cf.node):
                if isinstance(s2, ast.Assign) and any(isinstance(t, ast.Name) and t.id == cv for t in s2.targets) and not in_block(s2, sub.body):
                    firsts.add(ast.unparse(s2.value))
            for c in ast.walk(sub):
                if isinstance(c, ast.Compare) and len(c.ops) == 1 and isinstance(c.ops[0], ast.Eq) and isinstance(c.left, ast.Name) and c.left.id == cv:
                    ends.add(ast.unparse(c.comparators[0]))
            if firsts and ends:
                out.append((cf, sub, "other", None, sub.target.id, True, None, ends, firsts))
                found_other = True
                break
    return out


def _section_tuple_names(fr):
    """names bound to (pos, first, last, title) in the first loop over section_positions in LASFile.read"""
    for sub in walk_shallow(fr.node):
        if isinstance(sub, ast.For):
            t = sub.target
            cand = None
            if isinstance(t, ast.Tuple):
                for e in t.elts:
                    if isinstance(e, ast.Tuple) and len(e.elts) == 4 and all(isinstance(x, ast.Name) for x in e.elts):
                        cand = e
                if len(t.elts) == 4 and all(isinstance(x, ast.Name) for x in t.elts):
                    cand = t
            if cand is not None:
                return {"pos": cand.elts[0].id, "first": cand.elts[1].id, "last": cand.elts[2].id, "title": cand.elts[3].id,
                        "loop": sub}
    raise AnalysisError("cannot find the (pos, first, last, title) unpacking loop in LASFile.read")


def rule_end_test(ctx):
    p = ctx.p
    for (fi, loop, role, counter, linevar, direct, start, ends, firsts) in _consumer_loops(p):
        cfg = build_cfg(p, fi)
        site = "%s#%s-loop" % (fi.qual, role)
        heads = cfg.nodes_for(loop)
        if not heads:
            raise AnalysisError("loop of %s not in CFG" % site)
        h = heads[0]
        problems = []
        path_info = None
        # iterates the file object itself
        if not direct:
            problems.append("the loop iterates `%s`, not the file object itself: lines removed or added by that iterable "
                            "are not counted, so the loop stops at the wrong physical line" % unparse(loop.iter))
        # end tests: Compare Eq between the counter and an end expression
        defs = _single_defs(fi)
        end_texts = set(ends)
        for k, v in defs.items():
            if ast.unparse(v) in ends:
                end_texts.add(k)
        tests = []
        cvars = set()
        for node in cfg.nodes:
            if node.kind != "test" or not in_block(node.ast, loop.body):
                continue
            for c in ast.walk(node.ast):
                if isinstance(c, ast.Compare) and len(c.ops) == 1 and isinstance(c.ops[0], (ast.Eq, ast.GtE)):
                    l, r_ = ast.unparse(c.left), ast.unparse(c.comparators[0])
                    if r_ in end_texts and isinstance(c.left, ast.Name):
                        tests.append(node.id)
                        cvars.add(l)
                    elif l in end_texts and isinstance(c.comparators[0], ast.Name):
                        tests.append(node.id)
                        cvars.add(r_)
        if not tests:
            problems.append("no end-of-section test (`counter == last line`) in the loop: it runs on into the following "
                            "sections")
        cv = counter or (sorted(cvars)[0] if cvars else None)
        if tests and cv:
            # increments of the counter inside the loop
            incs = []
            derived_counter = False
            if counter is None:
                for node in cfg.nodes:
                    a = node.ast
                    if node.kind == "stmt" and in_block(a, loop.body) and (
                            (isinstance(a, ast.AugAssign) and isinstance(a.target, ast.Name) and a.target.id == cv) or
                            (isinstance(a, ast.Assign) and any(isinstance(t, ast.Name) and t.id == cv for t in a.targets))):
                        incs.append(node.id)
                        l = None
                        if isinstance(a, ast.AugAssign):
                            step = a.value.value if isinstance(a.op, ast.Add) and isinstance(a.value, ast.Constant) else None
                        else:
                            l = _lin(a.value, lambda n: None)
                            step = l.get(1, 0) if l is not None and l.get(cv) == 1 else None
                            # `line_no = first + i + 1` with i the enumerate() index of this loop (counting from 0): one step per
                            # line by construction; its value for the first line must be first+1
                            ivar = loop.target.elts[0].id if (isinstance(loop.target, ast.Tuple) and isinstance(loop.iter, ast.Call)
                                                              and isinstance(loop.iter.func, ast.Name) and loop.iter.func.id == "enumerate"
                                                              and len(loop.iter.args) == 1 and not loop.iter.keywords
                                                              and isinstance(loop.target.elts[0], ast.Name)) else None
                            l2 = _lin(a.value, lambda n: defs.get(n) if n != ivar else None)
                            if ivar and l2 is not None and l2.get(ivar) == 1 and cv not in l2:
                                derived_counter = True
                                rest_ = {k: v for k, v in l2.items() if k != ivar}
                                if rest_ not in [{f: 1, 1: 1} for f in firsts]:
                                    problems.append("the line counter is %s for the first data line; the first data line has index "
                                                    "first+1" % _fmt_lin(rest_))
                                continue
                        if step != 1:
                            problems.append("the line counter advances by %s per line" % step)
                if not incs:
                    problems.append("the line counter `%s` is never advanced in the loop" % cv)
            body_entry = [t for (t, lab) in cfg.succ[h] if lab == "body"]
            title_guard = _title_guard_nodes(cfg, loop, linevar)
            title_edges = {(g, t, lab) for g in title_guard for (t, lab) in cfg.succ[g] if lab.startswith("true")}
            if counter is None and incs:
                # (1) every iteration advances the counter exactly once (title-line iterations of the ~Other loop excepted)
                for be in body_entry:
                    pth = cfg.find_path(be, [h], avoid=incs, skip_labels=EXC, forbid_edges=title_edges) if be not in incs else None
                    if pth:
                        problems.append("an iteration can finish without advancing the line counter: the counter falls "
                                        "behind the physical line and the loop over-runs the section")
                        path_info = cfg.describe_path(pth)
                for i in incs:
                    # exception edges included: an increment inside an error handler also counts
                    if cfg.find_path(i, incs, avoid=[h, cfg.exit, cfg.raise_exit]):
                        problems.append("the line counter can advance twice within one iteration (e.g. again in an error "
                                        "handler): the end-of-section test then fires early and the last lines of the section "
                                        "are dropped")
            # (2) the end test is evaluated on every iteration (after the increment)
            srcs = incs if (counter is None and incs) else body_entry
            for s in srcs:
                if s in tests:
                    continue
                pth = cfg.find_path(s, [h], avoid=tests, skip_labels=EXC, forbid_edges=title_edges)
                if pth:
                    problems.append("an iteration can return to the loop head without evaluating the end-of-section test "
                                    "(e.g. via `continue` on a blank or comment line): if that line is the last of an "
                                    "inner section the loop reads on into the next section")
                    path_info = cfg.describe_path(pth)
                    break
            # (3) the test comes after the processing of the line: from the test's continue-edge nothing uses the line
            if linevar:
                for t in tests:
                    for (succ, lab) in cfg.succ[t]:
                        if not lab.startswith("false"):
                            continue
                        reach = cfg.reachable(succ, avoid=[h], skip_labels=EXC, include_src=True)
                        users = [n for n in reach if cfg.nodes[n].ast is not None and cfg.nodes[n].kind in ("stmt", "test")
                                 and n not in tests and in_block(cfg.nodes[n].ast, loop.body)
                                 and any(isinstance(x, ast.Name) and x.id == linevar and isinstance(x.ctx, ast.Load)
                                         for x in walk_expr_shallow(cfg.nodes[n].ast))]
                        users = [n for n in users if not _is_title_test(cfg.nodes[n].ast, linevar)]
                        if users and role != "other":
                            problems.append("the line is still processed after the end-of-section test (the test treats the "
                                            "end as exclusive, the scan records it as inclusive): the last line of the "
                                            "section is dropped")
                        break
            # (4) initial value of the counter
            if counter is not None and start is not None:
                l = _lin(start, lambda n: defs.get(n))
                want = [{f: 1, 1: 1} for f in firsts]
                if l not in want:
                    problems.append("enumerate() starts at %s; the first data line has index first+1" % _fmt_lin(l))
            elif counter is None and cv and not derived_counter:
                init = None
                for sub in walk_shallow(fi.node):
                    if (isinstance(sub, ast.Assign) and any(isinstance(t, ast.Name) and t.id == cv for t in sub.targets)
                            and not in_block(sub, loop.body) and ordn(sub) < ordn(loop)):
                        init = sub.value
                li = _lin(init, lambda n: defs.get(n)) if init is not None else None
                want = [{f: 1} for f in firsts] + [{f: 1, 1: 0} for f in firsts]
                if li is None or {k: v for k, v in li.items() if not (k == 1 and v == 0)} not in [{f: 1} for f in firsts]:
                    problems.append("the line counter starts at %s, expected the index of the title line" % (
                        unparse(init) if init is not None else "nothing"))
        if problems:
            for m in dict.fromkeys(problems):
                ctx.bad("SEC.END-TEST", site, fi, loop, "%s loop: %s" % (role, m), path_info)
        else:
            ctx.ok("SEC.END-TEST", site, fi, loop, "%s loop iterates the file itself, advances its counter once per line, "
                   "and evaluates `counter == last` on every iteration after processing the line" % role)
    if not any(role == "other" for (_fi, _lp, role, *_rest) in _consumer_loops(p)):
        # the ~Other loop is not a `for line in file_obj:` with a counter in LASFile.read / a las helper any more (islice, a
        # generator expression ...): its end test is not decided in that form
        ctx.undecided("SEC.END-TEST", READ + "#other-loop", None, 0, "the free-text (~Other) loop is not a counted loop over the file object: "
                      "where it stops is not decided in this form")
        ctx.floor("SEC.END-TEST", 3)
        return
    ctx.floor("SEC.END-TEST", 4)


def _takes_title_branch(cfg, pth, title_guard):
    """does the path leave a title test `startswith('~')` by its true edge? (the title line itself)"""
    for a, b in zip(pth, pth[1:]):
        if a in title_guard and any(t == b and lab.startswith("true") for (t, lab) in cfg.succ[a]):
            # make sure the false edge does not also lead to b
            if not any(t == b and lab.startswith("false") for (t, lab) in cfg.succ[a]):
                return True
    return False


def _match_object_test(fi, stmt, call):
    """`m = <R>.match(<x>)` whose result is used as a truth value in a test of the same function (`if m:`, `if m is not None`,
    `while m`): the call is a test written in two steps"""
    if not (isinstance(stmt, ast.Assign) and stmt.value is call and len(stmt.targets) == 1 and isinstance(stmt.targets[0], ast.Name)):
        return False
    if not (isinstance(call, ast.Call) and isinstance(call.func, ast.Attribute) and call.func.attr in ("match", "search", "fullmatch")):
        return False
    m = stmt.targets[0].id
    for sub in walk_shallow(fi.node):
        if isinstance(sub, (ast.If, ast.While, ast.IfExp)):
            t = sub.test
            atoms = list(t.values) if isinstance(t, ast.BoolOp) else [t]
            for a in atoms:
                if isinstance(a, ast.UnaryOp) and isinstance(a.op, ast.Not):
                    a = a.operand
                if isinstance(a, ast.Name) and a.id == m:
                    return True
                if isinstance(a, ast.Compare) and isinstance(a.left, ast.Name) and a.left.id == m and len(a.ops) == 1 \
                        and isinstance(a.ops[0], (ast.Is, ast.IsNot)) and isinstance(a.comparators[0], ast.Constant) and a.comparators[0].value is None:
                    return True
    return False


def _is_title_test(node, linevar):
    """`<line>.startswith('~')`, or the same test written with a title regex constant (`<..TITLE..>.match(<line>)`; that the
    constant means "white space, then ~" is SEC.TITLE-PRED's business)"""
    return any(isinstance(c, ast.Call) and isinstance(c.func, ast.Attribute) and ((c.func.attr == "startswith"
               and c.args and isinstance(c.args[0], ast.Constant) and c.args[0].value == "~") or (
               c.func.attr == "match" and c.args and ("TITLE" in ast.unparse(c.func.value).upper() or (
                   "re.compile(" in ast.unparse(c.func.value) and "~" in ast.unparse(c.func.value))))) for c in ast.walk(node))


def _title_guard_nodes(cfg, loop, linevar):
    """test nodes `<line>.startswith('~')` inside the loop (a title line legitimately takes a short path)"""
    out = set()
    for node in cfg.nodes:
        if node.kind == "test" and in_block(node.ast, loop.body) and _is_title_test(node.ast, linevar):
            out.add(node.id)
    return out


# ---------------------------------------------------------------------------------------------- SEC.CASE / STEER / ROUTE

def _probe_titles():
    out = []
    for L in LETTERS + "TXZ":
        for rest in ("", "ersion", " Information Section", "URVE INFORMATION", "scii", "ther", " ---"):
            out.append(("~" + L + rest, "~" + L.lower() + rest))
    return out


def _foldable_title_tests(fi, names):
    """tests in fi whose only free variable is one of `names` (title variables)"""
    out = []
    for sub in walk_shallow(fi.node):
        tests = []
        if isinstance(sub, (ast.If, ast.IfExp, ast.While)):
            tests.append(sub.test)
        for t in tests:
            free = {n.id for n in ast.walk(t) if isinstance(n, ast.Name)} - {"re", "any", "len", "str"}
            tv = free & names
            if len(tv) == 1 and len(free) == 1:
                out.append((sub, t, tv.pop()))
            elif len(tv) == 1:
                # split conjunctions/disjunctions: evaluate only operands over the title variable
                out.append((sub, t, list(tv)[0]))
    return out


def _fold_title(t, var, title, extra=None, defs=None, menv=None, clsnode=None):
    """fold test t with the title variable bound to `title`; locals with a single definition (derived from the title or
    constant tables) are inlined through `defs`"""
    depth = [0]

    def env(name):
        if name == var:
            return title
        if extra and name in extra:
            return extra[name]
        if defs and name in defs:
            depth[0] += 1
            if depth[0] > 30:
                raise NotConst("cyclic %s" % name)
            try:
                return fold(defs[name], env)
            finally:
                depth[0] -= 1
        if clsnode is not None and name.startswith(("self.", "cls.")) and name.count(".") == 1:
            attr = name.split(".", 1)[1]
            vals = [st.value for st in clsnode.body if isinstance(st, ast.Assign) and any(isinstance(t_, ast.Name) and t_.id == attr for t_ in st.targets)]
            if len(vals) == 1:
                return fold(vals[0], env)
            raise NotConst("class attribute %s" % name)
        if menv is not None:
            return menv(name)
        if _MODULE_ENV[0] is not None:
            return _MODULE_ENV[0](name)
        raise NotConst("name %s" % name)
    return fold(t, env)


_MODULE_ENV = [None]


def _mentions(v, tv, derived, depth=0):
    names = {n.id for n in ast.walk(v) if isinstance(n, ast.Name)}
    if tv in names:
        return True
    if depth > 10:
        return False
    return any(n in derived and _mentions(derived[n], tv, derived, depth + 1) for n in names)


def _title_derived(fi, tv, known=(), modules=False):
    """single-definition locals whose value depends only on the title variable / constants (transitively); `known` are names
    the caller binds itself (the version under which a probe is evaluated)"""
    defs = _single_defs(fi)
    known = set(known) | ({k for k, v in fi.module.imports.items() if v[0] == "module"} | {"self", "cls"} if modules else set())
    # containers that are updated after their definition do not keep their initial (literal) value
    mutated = set()
    for sub in walk_shallow(fi.node):
        if isinstance(sub, (ast.Assign, ast.AugAssign, ast.Delete)):
            for t in (sub.targets if isinstance(sub, (ast.Assign, ast.Delete)) else [sub.target]):
                if isinstance(t, (ast.Subscript, ast.Attribute)) and isinstance(t.value, ast.Name):
                    mutated.add(t.value.id)
        elif isinstance(sub, ast.Call) and isinstance(sub.func, ast.Attribute) and isinstance(sub.func.value, ast.Name) \
                and sub.func.attr in ("append", "extend", "insert", "update", "setdefault", "pop", "remove", "clear", "add", "discard"):
            mutated.add(sub.func.value.id)
    good = {}
    changed = True
    while changed:
        changed = False
        for k, v in defs.items():
            if k in good or k == tv or k in mutated:
                continue
            bound = {n.id for c in ast.walk(v) if isinstance(c, ast.comprehension) for n in ast.walk(c.target) if isinstance(n, ast.Name)}
            free = {n.id for n in ast.walk(v) if isinstance(n, ast.Name)} - {"re", "len", "str", "any", "all", "dict", "tuple", "set"} - bound
            if free - known:
                free = free - known
            pure_const = not free and isinstance(v, (ast.Constant, ast.Tuple, ast.List, ast.Set, ast.Dict))
            if (free and free <= ({tv} | set(good))) or pure_const:
                good[k] = v
                changed = True
    return good


def _letter_atoms(t, var, defs=None):
    """sub-expressions of test t that classify by a documented letter: compares/startswith/in against 'X'/'~X'"""
    atoms = []
    defs = defs or {}
    for c in ast.walk(t):
        if isinstance(c, ast.Compare) and len(c.ops) == 1:
            consts = [x for x in [c.left] + list(c.comparators) if isinstance(x, (ast.Constant, ast.Tuple, ast.List, ast.Set, ast.Dict))
                      or (isinstance(x, ast.Name) and x.id in defs and x.id != var and not ({n.id for n in ast.walk(defs[x.id]) if isinstance(n, ast.Name)}))]
            free = {n.id for n in ast.walk(c) if isinstance(n, ast.Name)} - {x.id for x in consts if isinstance(x, ast.Name)}
            titleish = {var} | {k for k, v in defs.items() if var in {n.id for n in ast.walk(v) if isinstance(n, ast.Name)}}
            if free & titleish and consts and free <= titleish:
                vals = []
                for k in consts:
                    try:
                        v = fold(defs[k.id]) if isinstance(k, ast.Name) else fold(k)
                    except NotConst:
                        continue
                    if isinstance(v, dict):
                        v = list(v)
                    vals += list(v) if isinstance(v, (tuple, list, set)) else [v]
                if any(isinstance(v, str) and v.lstrip("~").upper() in list(LETTERS) and len(v.lstrip("~")) == 1 for v in vals):
                    atoms.append(c)
        elif isinstance(c, ast.Call) and isinstance(c.func, ast.Attribute) and c.func.attr == "startswith" and c.args:
            free = {n.id for n in ast.walk(c) if isinstance(n, ast.Name)}
            try:
                v = fold(c.args[0])
            except NotConst:
                continue
            vals = list(v) if isinstance(v, tuple) else [v]
            titleish = {var} | {k for k, v_ in defs.items() if var in {n.id for n in ast.walk(v_) if isinstance(n, ast.Name)}}
            if free & titleish and free <= titleish and any(isinstance(x, str) and x.lstrip("~").upper() in list(LETTERS) and len(x.lstrip("~")) == 1 for x in vals):
                atoms.append(c)
    return atoms


def rule_case(ctx):
    p = ctx.p
    fr = host_sections(p)
    sp = _section_tuple_names(fr)
    targets = [(p.func("reader.determine_section_type"), None), (fr, {sp["title"]}),
               (p.func("reader.SectionParser.__init__"), {"title"})]
    n = 0
    for fi, names in targets:
        if names is None:
            names = set(fi.params()) | {k for k, v in _single_defs(fi).items()
                                        if set(n_.id for n_ in ast.walk(v) if isinstance(n_, ast.Name)) & set(fi.params())}
        seen = set()
        for sub in walk_shallow(fi.node):
            if not isinstance(sub, (ast.If, ast.IfExp)):
                continue
            for var in sorted(names):
                for atom in _letter_atoms(sub.test, var, _single_defs(fi)):
                    key = (atom.lineno, atom.col_offset)
                    if key in seen:
                        continue
                    seen.add(key)
                    n += 1
                    site = "%s#%s" % (fi.qual, _case_site(atom))
                    # substitute names derived from the parameter (stitle = section_title.strip()...) by folding their defs
                    defs = _single_defs(fi)
                    diff = None
                    for up, lo in _probe_titles():
                        try:
                            vu = _fold_with_defs(atom, var, up, defs, fi)
                            vl = _fold_with_defs(atom, var, lo, defs, fi)
                        except NotConst as e:
                            if "subscript failed" in str(e):
                                diff = (up, lo, "raises (%s)" % e, "raises")
                                break
                            raise AnalysisError("SEC.CASE: cannot fold `%s`: %s" % (unparse(atom), e))
                        if bool(vu) != bool(vl):
                            diff = (up, lo, vu, vl)
                            break
                    if diff:
                        ctx.bad("SEC.CASE", site, fi, atom, "`%s` classifies %r and %r differently (%s vs %s): the "
                                "documentation tabulates both cases of every section letter" % (
                                    unparse(atom), diff[0], diff[1], diff[2], diff[3]))
                    else:
                        ctx.ok("SEC.CASE", site, fi, atom, "`%s` gives the same answer for upper- and lower-case section "
                               "letters (%d probe title pairs)" % (unparse(atom), len(_probe_titles())))
    # table lookups keyed by (a slice of) the title: `TABLE.get(title[:2])` / `TABLE[key]` with TABLE a constant dict of section
    # letters must select the same entry for the upper- and the lower-case spelling of a title
    for fi, names in targets:
        if names is None:
            names = set(fi.params())
        defs = _single_defs(fi)
        clsnode = fi.cls.node if fi.cls is not None else None
        menv = module_env(p, fi.module.name)
        for sub in walk_shallow(fi.node):
            tab = keyx = None
            if isinstance(sub, ast.Call) and isinstance(sub.func, ast.Attribute) and sub.func.attr == "get" and sub.args:
                tab, keyx = sub.func.value, sub.args[0]
            elif isinstance(sub, ast.Subscript) and isinstance(sub.ctx, ast.Load) and not isinstance(sub.slice, (ast.Slice, ast.Constant)):
                tab, keyx = sub.value, sub.slice
            if tab is None:
                continue
            var = next((v_ for v_ in sorted(names) if _mentions(keyx, v_, defs)), None)
            if var is None:
                continue
            try:
                table = _fold_title(tab, var, "~V", defs=defs, menv=menv, clsnode=clsnode)
            except NotConst:
                continue
            except Exception:  # noqa - not a constant table
                continue
            if not (isinstance(table, dict) and table and all(isinstance(k, str) and k[:1] in "~" + LETTERS + LETTERS.lower() and len(k) <= 2
                                                                for k in table)):
                continue
            diff = None
            try:
                for up, lo in _probe_titles():
                    ku = _fold_title(keyx, var, up, defs=defs, menv=menv, clsnode=clsnode)
                    kl = _fold_title(keyx, var, lo, defs=defs, menv=menv, clsnode=clsnode)
                    if table.get(ku, None) != table.get(kl, None):
                        diff = (up, lo, ku, kl)
                        break
            except NotConst:
                continue
            site = "%s#letter-lookup(%s)" % (fi.qual, unparse(keyx, 30))
            if diff:
                ctx.bad("SEC.CASE", site, fi, sub, "the lookup `%s` selects different entries for %r and %r (keys %r / %r): the "
                        "documentation tabulates both cases of every section letter" % (unparse(sub), diff[0], diff[1], diff[2], diff[3]))
            else:
                ctx.ok("SEC.CASE", site, fi, sub, "the lookup `%s` selects the same entry for upper- and lower-case section letters"
                       % unparse(sub))
    ctx.floor("SEC.CASE", 6)


def _case_site(atom):
    consts = sorted({c.value for c in ast.walk(atom) if isinstance(c, ast.Constant) and isinstance(c.value, str)})
    return "letter-test(%s)" % ",".join(consts)


def _fold_with_defs(expr, var, title, defs, fi):
    params = set(fi.params())

    def env(name, depth=[0]):
        if name in params or name == var and name not in defs:
            return title
        if name in defs:
            depth[0] += 1
            if depth[0] > 20:
                raise NotConst("cyclic")
            try:
                return fold(defs[name], env)
            finally:
                depth[0] -= 1
        if name == var:
            return title
        raise NotConst("name %s" % name)
    return fold(expr, env)


STEER_EXPECT = {"VERS": "V", "WRAP": "V", "DLM": "V", "NULL": "W"}


def _steer_stores(fr):
    out = []
    for sub in walk_shallow(fr.node):
        if isinstance(sub, ast.Assign) and len(sub.targets) == 1 and isinstance(sub.targets[0], ast.Name):
            v = sub.value
            if isinstance(v, ast.Compare) and len(v.ops) == 1 and isinstance(v.comparators[0], ast.Constant):
                v = v.left        # a steering value kept as a boolean: `wrapped = <items>.WRAP.value == "YES"`
            if isinstance(v, ast.Attribute) and v.attr == "value":
                b = v.value
                mn = None
                if isinstance(b, ast.Attribute) and b.attr in STEER_EXPECT:
                    mn = b.attr
                elif isinstance(b, ast.Subscript) and isinstance(b.slice, ast.Constant) and b.slice.value in STEER_EXPECT:
                    mn = b.slice.value
                elif isinstance(b, ast.Call) and isinstance(b.func, ast.Attribute) and b.func.attr == "get" and b.args and isinstance(b.args[0], ast.Constant) and b.args[0].value in STEER_EXPECT:
                    mn = b.args[0].value
                if mn:
                    out.append((sub, mn, sub.targets[0].id))
    return out


def rule_steer(ctx):
    p = ctx.p
    fr = host_sections(p)
    sp = _section_tuple_names(fr)
    tv = sp["title"]
    cfg = build_cfg(p, fr)
    cd = ControlDependence(cfg)
    stores = _steer_stores(fr)
    found = set()
    derived = _title_derived(fr, tv)
    if not stores:
        ctx.undecided("SEC.STEER", READ + "#steer", fr, fr.node, "no `x = <items>.<VERS|WRAP|DLM|NULL>.value` pick-up found: the "
                      "steering values are kept in another form")
        return
    def enabled_for(st):
        tests = []
        for nid in cfg.nodes_for(st):
            for (tn, lab) in cd.transitive(nid):
                if cfg.nodes[tn].kind == "test":
                    t0 = cfg.nodes[tn].ast
                    pol = lab.startswith("true")
                    # a conjunction taken on its true branch (a disjunction on its false branch) constrains every operand
                    if isinstance(t0, ast.BoolOp) and ((isinstance(t0.op, ast.And) and pol) or (isinstance(t0.op, ast.Or) and not pol)):
                        parts = list(t0.values)
                    else:
                        parts = [t0]
                    tder = {k for k, v in derived.items() if _mentions(v, tv, derived)}
                    for t in parts:
                        free = {n.id for n in ast.walk(t) if isinstance(n, ast.Name)}
                        if free & ({tv} | tder) and free <= ({tv} | set(derived)):
                            tests.append((t, pol))
        enabled = set()
        partial = {}
        for L in LETTERS + "TX":
            votes = []
            spellings = ("~" + L, "~" + L.lower(), "~" + L + "ersion", "~" + L.lower() + " section", "~" + L + "ELL_INFORMATION",
                         "~" + L.lower() + "ell_info block", "~" + L + "1", "~" + L + " - x")
            for title in spellings:
                ok = True
                for t, pol in tests:
                    try:
                        v = bool(_fold_title(t, tv, title, defs=derived))
                    except NotConst as e:
                        raise AnalysisError("SEC.STEER: cannot fold `%s`: %s" % (unparse(t), e))
                    if v != pol:
                        ok = False
                votes.append(ok)
            if any(votes):
                enabled.add(L)
            if any(votes) and not all(votes):
                partial[L] = [sp for sp, v in zip(spellings, votes) if not v]
        return enabled, partial

    for st, mn, var in stores:
        found.add(mn)
        site = "%s#steer(%s)" % (READ, mn)
        enabled, partial = enabled_for(st)
        want = {STEER_EXPECT[mn]}
        if enabled == want and partial.get(STEER_EXPECT[mn]):
            ctx.bad("SEC.STEER", site, fr, st, "%s is not picked up from every spelling of a ~%s title (not from %s): the section is still "
                    "filed as ~%s, but its %s no longer steers the parse" % (mn, STEER_EXPECT[mn], partial[STEER_EXPECT[mn]][:3],
                                                                             STEER_EXPECT[mn], mn))
        elif enabled == want:
            ctx.ok("SEC.STEER", site, fr, st, "%s is taken only from sections whose title letter is %s (either case)" % (mn, STEER_EXPECT[mn]))
        else:
            extra = sorted(enabled - want)
            missing = sorted(want - enabled)
            ctx.bad("SEC.STEER", site, fr, st, "the parse-steering value %s is taken from sections with title letters %s%s: "
                    "only ~%s may steer it, an item called %s elsewhere must not change how data or other sections are "
                    "read" % (mn, sorted(enabled), " (never from ~%s)" % missing[0] if missing else "", STEER_EXPECT[mn], mn))
    # a steering variable is not given a constant inside the loop over sections under another section's letter: the value picked
    # up from ~W must survive a ~V section that follows it (and the other way round)
    from sa.astutil import parents as parents_of
    for st, mn, var in stores:
        loops = [a for a in parents_of(st) if isinstance(a, (ast.For, ast.While))]
        if not loops:
            continue
        for sub in walk_shallow(loops[-1]):
            if isinstance(sub, ast.Assign) and sub is not st and len(sub.targets) == 1 and isinstance(sub.targets[0], ast.Name) \
                    and sub.targets[0].id == var and isinstance(sub.value, ast.Constant):
                enabled, _partial = enabled_for(sub)
                site = "%s#reset(%s)" % (READ, mn)
                if enabled - {STEER_EXPECT[mn]}:
                    ctx.bad("SEC.STEER", site, fr, sub, "the steering value %s is set back to %s while a section with title letter %s is "
                            "processed: a ~%s section met earlier loses its %s (the order of the header sections changes the result)"
                            % (mn, unparse(sub.value), sorted(enabled - {STEER_EXPECT[mn]}), STEER_EXPECT[mn], mn))
                else:
                    ctx.ok("SEC.STEER", site, fr, sub, "constant store to the %s variable only under its own section letter" % mn)
    for mn in STEER_EXPECT:
        if mn not in found:
            ctx.bad("SEC.STEER", "%s#steer(%s)" % (READ, mn), fr, fr.node, "%s is never picked up from the header" % mn)
    ctx.floor("SEC.STEER", 4)


def _title_regex_ok(p, fi, c):
    """`<R>.match(<line>)` with R a module constant whose language, as a prefix test, is exactly "optional white space, then ~":
    the same set of lines as <stripped line>.startswith('~').  Returns True / False / None (not a regex title test)"""
    if not (isinstance(c, ast.Call) and isinstance(c.func, ast.Attribute) and c.func.attr in ("match", "search", "fullmatch", "findall") and c.args):
        return None
    from sa.consts import Regex
    from sa import rx
    try:
        if isinstance(c.func.value, ast.Name) and c.func.value.id == "re":
            pat = fold(c.args[0], module_env(p, fi.module.name))
            pat = Regex(pat, 0) if isinstance(pat, str) else pat
        else:
            pat = fold(c.func.value, module_env(p, fi.module.name))
    except NotConst:
        return None
    if not isinstance(pat, Regex) or "~" not in pat.pattern:
        return None
    if c.func.attr != "match":
        return False
    try:
        a = rx.DFA("(?:%s)[\\s\\S]*" % pat.pattern, pat.flags)        # the lines that have a prefix in L(pattern)
        b = rx.DFA(r"\s*~[\s\S]*")
        if rx.included(a, b)[0] and rx.included(b, a)[0]:
            return True
        b2 = rx.DFA(r"~[\s\S]*")
        if rx.included(a, b2)[0] and rx.included(b2, a)[0]:
            return "stripped-only"      # the same test provided the text it is applied to has no leading white space
        return False
    except Exception:  # noqa - unsupported construct: not decided here
        return None


def rule_title_pred(ctx):
    p = ctx.p
    targets = [p.func("reader.find_sections_in_file"), p.func("reader.parse_header_items_section")] + [
        f for f in read_family(p) if f.cls is not None]
    targets += [f for q, f in sorted(p.functions.items()) if f.module.name == "las" and f.cls is None and f.parent is None
                and not isinstance(f.node, ast.Lambda)]
    # helpers that today's tree does not have and that the scanner / header loop drive (a generator holding the line loop ...)
    from sa.normalize import _reference
    ref = _reference()
    r_ = get_resolver(p)
    new_helpers = {}
    for q in ("reader.find_sections_in_file", "reader.parse_header_items_section"):
        new_helpers[q] = [f for q2, f in sorted(r_.closure([p.func(q)]).items()) if q2 not in ref and not isinstance(f.node, ast.Lambda)
                          and f.module.name == "reader"]
        targets += [f for f in new_helpers[q] if f not in targets]
    n = 0
    for fi in targets:
        cfg = build_cfg(p, fi)
        rd = ReachingDefs(cfg)
        for node in cfg.nodes:
            if node.ast is None or node.kind not in ("test", "stmt"):
                continue
            for c in walk_expr_shallow(node.ast):
                tv_ = _title_regex_ok(p, fi, c) if (node.kind == "test" or _match_object_test(fi, node.ast, c)) else None
                if tv_ == "stripped-only":
                    arg_ = c.args[-1] if c.args else None
                    tv_ = bool(arg_ is not None and _fully_stripped(arg_, cfg, rd, node.id))
                if tv_ is not None:
                    n += 1
                    ctx.check(tv_, "SEC.TITLE-PRED", "%s#title-test(%s)" % (fi.qual, ast.unparse(c)[:40]), fi, c,
                              "title test `%s`: optional white space then '~', the same lines as <stripped>.startswith('~')" % unparse(c),
                              "`%s` does not recognise exactly the lines whose first non-blank character is '~' (search() finds a tilde "
                              "anywhere in the line; another pattern selects other lines): a junk line is taken for a section title, or "
                              "a title is missed" % unparse(c))
                    continue
                if (isinstance(c, ast.Call) and isinstance(c.func, ast.Attribute) and c.func.attr == "startswith"
                        and c.args and isinstance(c.args[0], ast.Constant) and c.args[0].value == "~"):
                    n += 1
                    recv = c.func.value
                    ok = _fully_stripped(recv, cfg, rd, node.id)
                    site = "%s#title-test:%d" % (fi.qual, sum(1 for _ in [1]) and n)
                    site = "%s#title-test(%s)" % (fi.qual, ast.unparse(recv))
                    ctx.check(ok, "SEC.TITLE-PRED", site, fi, c,
                              "title test is startswith('~') on a stripped line, like the section scanner's",
                              "`%s` tests the unstripped line: an indented title is recognised by the scanner but not "
                              "here, so the title is swallowed into the section and its last line is lost" % unparse(c))
    # every site decides "is this a title line" the same way: startswith('~').  A site that tests titles differently (a regular
    # expression, a character class after the '~') recognises a different set of lines than the readers stop on
    for q in ("reader.find_sections_in_file", "reader.parse_header_items_section"):
        fi = p.func(q)
        scope = [fi] + new_helpers.get(q, [])
        has_sw = any(isinstance(c, ast.Call) and isinstance(c.func, ast.Attribute) and c.func.attr == "startswith" and c.args
                     and isinstance(c.args[0], ast.Constant) and c.args[0].value == "~" for f_ in scope for c in walk_shallow(f_.node))
        other = []
        for f_ in scope:
          for sub in walk_shallow(f_.node):
            tested = None
            if isinstance(sub, (ast.If, ast.While, ast.IfExp)):
                tested = sub.test
            elif isinstance(sub, ast.Assign) and isinstance(sub.value, ast.Call) and _match_object_test(f_, sub, sub.value):
                tested = sub.value          # `m = R.match(line)` ... `if m:`
            if tested is not None:
                for c in ast.walk(tested):
                    if isinstance(c, ast.Call) and isinstance(c.func, ast.Attribute) and c.func.attr in ("match", "search", "fullmatch", "findall"):
                        verdict = _title_regex_ok(p, f_, c)
                        if verdict is True or verdict == "stripped-only":
                            has_sw = True       # the same set of title lines, written as a regular expression (stripping is checked above)
                            continue
                        txt = ast.unparse(c)
                        if verdict is False or "~" in txt or "TITLE" in txt.upper() or "SECTION" in txt.upper():
                            other.append(c)
                    if isinstance(c, ast.Compare) and any(isinstance(k, ast.Constant) and k.value == "~" for k in [c.left] + c.comparators) \
                            and not (len(c.ops) == 1 and isinstance(c.ops[0], ast.Eq) and isinstance(c.left, ast.Subscript)
                                     and ast.unparse(c.left.slice) in ("0", ":1")):
                        other.append(c)
        if not has_sw or other:
            ctx.bad("SEC.TITLE-PRED", q + "#title-predicate", fi, (other[0] if other else fi.node),
                    "%s decides what a section title is with `%s` instead of <stripped line>.startswith('~'): the scanner, the header "
                    "loop, the free-text loop and the data readers must agree on the set of title lines, or a section is not found "
                    "while the readers still stop at its title" % (q, unparse(other[0]) if other else "no startswith('~') test"))
        else:
            ctx.ok("SEC.TITLE-PRED", q + "#title-predicate", fi, fi.node, "title lines are recognised by startswith('~') only")
    # the title handed to SectionParser must be the stripped title too (the scanner accepts indented titles)
    fi = p.func("reader.parse_header_items_section")
    cfg = build_cfg(p, fi)
    rd = ReachingDefs(cfg)
    for node in cfg.nodes:
        if node.ast is None or node.kind != "stmt":
            continue
        for c in walk_expr_shallow(node.ast):
            if isinstance(c, ast.Call) and isinstance(c.func, ast.Name) and c.func.id == "SectionParser" and c.args:
                ok = _fully_stripped(c.args[0], cfg, rd, node.id)
                ctx.check(ok, "SEC.TITLE-PRED", fi.qual + "#parser-title", fi, c,
                          "the section title given to SectionParser is fully stripped",
                          "SectionParser receives the title `%s` without a full strip: an indented '  ~Well' title is filed under "
                          "Well but parsed with the rules of an unknown section (1.2 value/description order lost)" % unparse(c.args[0]))
    ctx.floor("SEC.TITLE-PRED", 4)


def _fully_stripped(expr, cfg, rd, at, depth=0, _seen=None):
    """is expr a fully (both sides, whitespace) stripped text at node `at`?  (cycles through loops are taken
    coinductively: a definition that only depends on itself and stripped values is stripped)"""
    if _seen is None:
        _seen = set()
    if depth > 25:
        return False
    if isinstance(expr, ast.Constant) and isinstance(expr.value, str) and expr.value == expr.value.strip():
        return True       # a literal without surrounding blanks (typically "")
    if isinstance(expr, ast.Call) and isinstance(expr.func, ast.Attribute):
        a = expr.func.attr
        if a == "strip" and (not expr.args or (isinstance(expr.args[0], ast.Constant) and expr.args[0].value is None)):
            # a full strip of the text itself (or of a strip/replace chain over it); a slice such as line[:-1] drops characters
            recv = expr.func.value
            while isinstance(recv, ast.Call) and isinstance(recv.func, ast.Attribute) and recv.func.attr in ("strip", "rstrip", "lstrip", "replace"):
                recv = recv.func.value
            return isinstance(recv, (ast.Name, ast.Call, ast.Attribute))
        if a == "lstrip" and not expr.args:
            inner = expr.func.value
            return _rstripped(inner, cfg, rd, at, depth + 1) or _fully_stripped(inner, cfg, rd, at, depth + 1, _seen)
        if a in ("strip", "replace", "lstrip", "rstrip"):
            # strip("\n") etc. keep full-strippedness of the receiver
            return _fully_stripped(expr.func.value, cfg, rd, at, depth + 1, _seen)
        if a == "sub" and len(expr.args) >= 3:
            # re.sub(pattern, repl, text): substitutions inside a stripped line (the emptiness test that follows is
            # about the line after ^Z / run-on clean-up)
            return _fully_stripped(expr.args[2], cfg, rd, at, depth + 1, _seen)
        return False
    if isinstance(expr, ast.Name):
        dns = rd.reaching(expr.id, at)
        if not dns:
            return False
        for dn in dns:
            if (expr.id, dn) in _seen:
                continue
            _seen.add((expr.id, dn))
            nd = cfg.nodes[dn]
            if nd.kind == "stmt" and isinstance(nd.ast, ast.Assign) and len(nd.ast.targets) == 1 and isinstance(nd.ast.targets[0], ast.Name):
                if not _fully_stripped(nd.ast.value, cfg, rd, dn, depth + 1, _seen):
                    return False
            else:
                return False
        return True
    return False


def _rstripped(expr, cfg, rd, at, depth):
    if isinstance(expr, ast.Call) and isinstance(expr.func, ast.Attribute) and expr.func.attr in ("rstrip", "strip") and not expr.args:
        return True
    if isinstance(expr, ast.Name):
        dns = rd.reaching(expr.id, at)
        return bool(dns) and all(
            cfg.nodes[d].kind == "stmt" and isinstance(cfg.nodes[d].ast, ast.Assign)
            and (_rstripped(cfg.nodes[d].ast.value, cfg, rd, d, depth + 1) or _fully_stripped(cfg.nodes[d].ast.value, cfg, rd, d, depth + 1))
            for d in dns)
    return False


def rule_route(ctx):
    p = ctx.p
    fr = host_sections(p)
    sp = _section_tuple_names(fr)
    tv = sp["title"]
    cfg = build_cfg(p, fr)
    # stores into self.sections[...] inside the section loop
    stores = []
    for node in cfg.nodes:
        a = node.ast
        if node.kind == "stmt" and isinstance(a, ast.Assign) and in_block(a, sp["loop"].body):
            for t in a.targets:
                if isinstance(t, ast.Subscript) and ast.unparse(t.value) == "self.sections":
                    stores.append((node.id, a, t))
    items_stores = [s for s in stores if isinstance(s[1].value, ast.Name)]
    # (a) header-items routing: every path from the parse call to the end of the iteration stores exactly once
    r = get_resolver(p)
    parse_nodes = []
    for node in cfg.nodes:
        if node.ast is not None and node.kind == "stmt":
            for c in walk_expr_shallow(node.ast):
                if isinstance(c, ast.Call) and any(t.qual == "reader.parse_header_items_section" for t in r.callees(fr, c)[0]):
                    parse_nodes.append((node.id, node.ast))
    if not parse_nodes:
        raise AnalysisError("LASFile.read does not call reader.parse_header_items_section")
    pn, pst = parse_nodes[0]
    var = target_names(pst.targets[0])[0] if isinstance(pst, ast.Assign) else None
    mine = [s for s in items_stores if isinstance(s[1].value, ast.Name) and s[1].value.id == var]
    head = cfg.nodes_for(sp["loop"])[0]
    pth = cfg.find_path(pn, [head], avoid=[s[0] for s in mine], skip_labels=EXC)
    site = READ + "#route-header-items"
    ok = pth is None
    twice = any(cfg.find_path(s[0], [x[0] for x in mine], avoid=[head], skip_labels=EXC) for s in mine)
    ctx.check(ok and not twice, "SEC.ROUTE", site, fr, pst,
              "every parsed header section is stored into self.sections exactly once (%d routing stores)" % len(mine),
              "a parsed header section can %s" % ("be stored twice" if twice else "reach the next section without being "
                                                 "stored in self.sections: its items are dropped"),
              cfg.describe_path(pth) if pth else None)
    # (b) truth table: stored key vs parser kind
    sp_init = p.func("reader.SectionParser.__init__")
    cd = ControlDependence(cfg)
    cfg_i = build_cfg(p, sp_init)
    cd_i = ControlDependence(cfg_i)
    # parser kind assignments: self.section_name2 = <const or title>
    kinds = []
    for node in cfg_i.nodes:
        a = node.ast
        if node.kind == "stmt" and isinstance(a, ast.Assign) and any(isinstance(t, ast.Attribute) and t.attr == "section_name2" for t in a.targets):
            tests = [(cfg_i.nodes[tn].ast, lab.startswith("true")) for (tn, lab) in cd_i.transitive(node.id) if cfg_i.nodes[tn].kind == "test"]
            kinds.append((a.value, tests))
        elif node.kind == "stmt" and isinstance(a, ast.Assign) and len(a.targets) == 1 and isinstance(a.targets[0], ast.Tuple):
            for k_, t_ in enumerate(a.targets[0].elts):
                if isinstance(t_, ast.Attribute) and t_.attr == "section_name2":
                    tests = [(cfg_i.nodes[tn].ast, lab.startswith("true")) for (tn, lab) in cd_i.transitive(node.id) if cfg_i.nodes[tn].kind == "test"]
                    val = a.value.elts[k_] if isinstance(a.value, ast.Tuple) and len(a.value.elts) == len(a.targets[0].elts) else \
                        ast.Subscript(value=a.value, slice=ast.Constant(value=k_), ctx=ast.Load())
                    kinds.append((ast.fix_missing_locations(ast.copy_location(val, a)), tests))
    routes = []
    for nid, a, t in mine:
        tests = [(cfg.nodes[tn].ast, lab.startswith("true")) for (tn, lab) in cd.transitive(nid) if cfg.nodes[tn].kind == "test"]
        routes.append((t.slice, tests, a))
    problems = []
    derived_r = _title_derived(fr, tv, known=("provisional_version",), modules=True)
    derived_p = _title_derived(sp_init, "title", known=("version",), modules=True)
    def _opaque(fi_, tvar_, dd_):
        """locals with several definitions of which one depends on the title (`regular = None` / `regular = TABLE.get(title[:2])`)"""
        out_ = set()
        titleish = {tvar_} | set(dd_)
        ndefs = {}
        for a_ in walk_shallow(fi_.node):
            if isinstance(a_, ast.Assign):
                for t_ in a_.targets:
                    for nm_ in target_names(t_):
                        ndefs[nm_] = ndefs.get(nm_, 0) + 1
        for a_ in walk_shallow(fi_.node):
            if isinstance(a_, ast.Assign):
                for t_ in a_.targets:
                    for nm_ in target_names(t_):
                        if ndefs.get(nm_, 0) > 1 and nm_ not in dd_ and nm_ != tvar_ and any(
                                isinstance(x, ast.Name) and x.id in titleish for x in ast.walk(a_.value)):
                            out_.add(nm_)
        return out_
    n_eval = 0
    unfolded = []
    opaque_r, opaque_p = _opaque(fr, tv, derived_r), _opaque(sp_init, "title", derived_p)
    menv_r, menv_p = module_env(p, fr.module.name), module_env(p, sp_init.module.name)
    probes = []
    for L in LETTERS[:4] + "TX":
        for title in ("~" + L, "~" + L.lower(), "~" + L + "ection info", "~" + L.lower() + "ection info"):
            probes.append((title, {"las3_section": False, "provisional_version": 2.0, "section_type": "Header items"},
                           {"version": 2.0, "is_like_las3_section": False}))
    # LAS-3 style titles under every version: whether a title counts as a LAS 3 section is folded from the code itself
    # (titles that begin with ~C/~P and contain '_' are custom sections by design, and a title containing '_Data' is a LAS 3 data
    # section, not a header-items section: neither is probed)
    for L in "VWT":
        for rest in ("ELL_DATA", "ELL_PARAMETER", "_definition", "_Information"):
            for version in (1.2, 2.0, 3.0):
                for title in ("~" + L + rest, "~" + L.lower() + rest.lower()):
                    probes.append((title, {"provisional_version": version, "section_type": "Header items"}, {"version": version}))
    for (title, extra_r, extra_p) in probes:
        for _once in (1,):
            def pick(cands, tvar, extra):
                hits = []
                for keyexpr, tests, *rest in cands:
                    ok_ = True
                    for t, pol in tests:
                        free = {n.id for n in ast.walk(t) if isinstance(n, ast.Name)}
                        dd = derived_r if tvar == tv else derived_p
                        relevant = {tvar} | {k for k, v_ in dd.items() if _mentions(v_, tvar, dd)} | set(extra)
                        if free & (opaque_r if tvar == tv else opaque_p):
                            # the test reads a local that depends on the title but has no single definition: not foldable here
                            ok_ = None
                            break
                        if not (free & relevant):
                            if _assume(t, pol) is not None:
                                # a version / LAS-3 test written over names the table does not know: approximate, and remember it
                                assumed[0] = True
                                if _assume(t, pol) != pol:
                                    ok_ = False
                                    break
                            continue      # a test about something else (LiDAR signature, ignore_data ...): not part of the routing
                        try:
                            v = bool(_fold_title(t, tvar, title, extra, defs=dd, menv=menv_r if tvar == tv else menv_p,
                                                 clsnode=None if tvar == tv else sp_init.cls.node))
                        except NotConst:
                            # tests not about the title (section_type == ..., version == 3.0 ...): assume the header-items, non-LAS3 case
                            assumed[0] = True
                            v = _assume(t, pol)
                            if v is None:
                                ok_ = None
                                break
                        if v != pol:
                            ok_ = False
                            break
                    if ok_ is None:
                        return None
                    if ok_:
                        hits.append(keyexpr)
                return hits
            assumed = [False]
            rk = pick(routes, tv, extra_r)
            pk = pick(kinds, "title", extra_p)
            if rk is None or pk is None:
                continue
            if len(pk) > 1 and any(not tests for _, tests in kinds):
                # a generic default assigned unconditionally first and overridden later: the last assignment that executes wins
                pk = pk[-1:]
            if assumed[0] and (len(rk) != 1 or len(pk) != 1 or "las3_section" not in extra_r):
                continue      # a test could not be folded for this probe and had to be approximated: no verdict from it
            if len(rk) != 1 or len(pk) != 1:
                n_eval += 1
                problems.append("title %r (version %s): %d routing stores and %d parser kinds are selected" % (
                    title, extra_p.get("version"), len(rk or []), len(pk or [])))
                continue
            try:
                key = _fold_title(rk[0], tv, title, extra_r, defs=derived_r, menv=menv_r)
                kind = _fold_title(pk[0], "title", title, extra_p, defs=derived_p, menv=menv_p, clsnode=sp_init.cls.node)
            except NotConst as e:
                unfolded.append("%r: %s" % (title, e))
                continue
            n_eval += 1
            std = {"Curves", "Parameter", "Well", "Version"}
            if kind in std:
                if key != kind:
                    problems.append("a section titled %r (version %s) is parsed as %s but stored under sections[%r]" % (
                        title, extra_p.get("version"), kind, key))
            else:
                if key in std or key != title[1:]:
                    problems.append("a custom section titled %r is stored under sections[%r] instead of its own title" % (title, key))
    if n_eval < 12 and not problems:
        ctx.undecided("SEC.ROUTE", READ + "#route-vs-parser", fr, sp["loop"], "only %d probe titles could be evaluated: the routing "
                      "in read() or the dispatch in SectionParser.__init__ is not an if-chain over the title%s" % (
                          n_eval, (" (" + "; ".join(unfolded[:2]) + ")") if unfolded else ""))
        ctx.floor("SEC.ROUTE", 0)
        return
    ctx.check(not problems, "SEC.ROUTE", READ + "#route-vs-parser", fr, sp["loop"],
              "for all %d probe titles the key under which a header section is stored agrees with the kind SectionParser "
              "parses it as; custom sections are kept under their own title" % n_eval,
              "; ".join(dict.fromkeys(problems)))
    ctx.floor("SEC.ROUTE", 2)


def _assume(t, pol):
    """tests not about the title inside the header-items branch: resolve the ones we know, else give up"""
    txt = ast.unparse(t)
    if "section_type" in txt and "Header items" in txt:
        return True
    if "section_type" in txt:
        return False
    if "3.0" in txt or "las3" in txt.lower():
        return False
    return None


def rule_reseek(ctx):
    """every call of a section consumer in LASFile.read is immediately preceded (on every path) by file_obj.seek(<pos>)
    with no other consumer of the file in between"""
    p = ctx.p
    r = get_resolver(p)
    for fr in read_family(p):
        _reseek_in(ctx, p, r, fr)
    ctx.floor("SEC.RESEEK", 4)


def _reseek_in(ctx, p, r, fr):
    cfg = build_cfg(p, fr)
    consumers_q = {"reader.parse_header_items_section", "reader.inspect_data_section",
                   "reader.read_data_section_iterative_normal_engine"}
    for q, f in p.functions.items():
        if f.module.name == "las" and f.cls is None and f.parent is None and not isinstance(f.node, ast.Lambda) and f.params():
            fp = f.params()[0]
            if any(isinstance(x, ast.For) and isinstance(x.iter, ast.Name) and x.iter.id == fp for x in walk_shallow(f.node)):
                consumers_q.add(q)
    cons, seeks, other_cons = [], [], []
    for node in cfg.nodes:
        if node.ast is None or node.kind not in ("stmt", "test", "for-iter"):
            continue
        src = node.ast.iter if node.kind == "for-iter" else node.ast
        if node.kind == "for-iter" and isinstance(src, ast.Name) and "file" in src.id:
            cons.append((node.id, node.ast, "loop over the file"))
            continue
        for c in walk_expr_shallow(src):
            if isinstance(c, ast.Call):
                tg = r.callees(fr, c)[0]
                if any(t.qual in consumers_q for t in tg):
                    cons.append((node.id, c, [t.qual for t in tg][0]))
                elif any(t.qual == "reader.read_data_section_iterative_numpy_engine" for t in tg):
                    other_cons.append(node.id)     # seeks by itself
                elif any(t.qual == "reader.find_sections_in_file" for t in tg):
                    other_cons.append(node.id)
                elif isinstance(c.func, ast.Attribute) and c.func.attr == "seek" and c.args and not (
                        isinstance(c.args[0], ast.Constant) and c.args[0].value == 0):
                    seeks.append(node.id)
                elif isinstance(c.func, ast.Attribute) and c.func.attr in ("read", "readline", "readlines") and isinstance(c.func.value, ast.Name) and "file" in c.func.value.id:
                    other_cons.append(node.id)
    all_cons = set([c[0] for c in cons] + other_cons)
    # the position handed to seek() belongs to the section being read: inside a loop over sections it is not the leaked
    # target of an earlier loop (which still holds the offset of that loop's last section)
    from sa.dataflow import ReachingDefs
    rd = None
    for nid in seeks:
        node = cfg.nodes[nid]
        for c in walk_expr_shallow(node.ast.iter if node.kind == "for-iter" else node.ast):
            if not (isinstance(c, ast.Call) and isinstance(c.func, ast.Attribute) and c.func.attr == "seek" and c.args):
                continue
            loops = []
            cur = getattr(c, "_parent", None)
            while cur is not None and cur is not fr.node:
                if isinstance(cur, (ast.For, ast.While)):
                    loops.append(cur)
                cur = getattr(cur, "_parent", None)
            if not loops:
                continue
            rd = rd or ReachingDefs(cfg)
            stale = []
            for nm in [x for x in ast.walk(c.args[0]) if isinstance(x, ast.Name)]:
                for dn in rd.reaching(nm.id, nid):
                    d = cfg.nodes[dn]
                    if d.kind == "for-iter" and isinstance(d.ast, ast.For) and d.ast not in loops:
                        stale.append("`%s` is the target of the earlier loop at line %d" % (nm.id, d.ast.lineno))
            site = "%s#seek-position@%d" % (fr.qual, sorted(seeks).index(nid) + 1)
            ctx.check(not stale, "SEC.RESEEK", site, fr, c, "the offset handed to seek() is bound by the loop that reads this section",
                      "%s: seek(%s) goes to the offset that loop ended with (the last section of the file), so the consumer reads "
                      "lines of another section whenever this one is not last" % ("; ".join(dict.fromkeys(stale)), unparse(c.args[0])))
    # a private helper is entered with the position its caller established (its call site is checked as a consumer)
    witnesses = _explore_dirty(cfg, set(seeks), all_cons, dirty_at_entry=(fr.qual == READ))
    for nid, call, what in cons:
        site = "%s#reseek(%s@%d)" % (fr.qual, what.split(".")[-1], sum(1 for c in cons if c[0] <= nid and c[2] == what))
        bad = witnesses.get(nid)
        ctx.check(bad is None, "SEC.RESEEK", site, fr, call,
                  "the file is re-positioned with seek(<section offset>) on every path into this consumer",
                  "%s can be entered with the file positioned wherever a previous consumer left it (no seek to the "
                  "section offset in between): it reads lines of the wrong section" % what,
                  cfg.describe_path(bad) if bad else None)


def _explore_dirty(cfg, seeks, consumers, dirty_at_entry=True):
    """explore the CFG from the entry with state (node, known string constants, dirty); dirty = the file position is
    not known to be at a section start (initially, and after any consumer).  Returns {consumer node: witness path}
    for consumers reachable in a dirty state."""
    from collections import deque
    start = (cfg.entry, frozenset(), dirty_at_entry, False)
    prev = {start: None}
    dq = deque([start])
    out = {}
    while dq:
        st = dq.popleft()
        nid, known, dirty, back = st
        kd = dict(known)
        node = cfg.nodes[nid]
        a = node.ast
        if nid in consumers and dirty and nid not in out and not (back and node.kind == "for-iter"):
            path = []
            cur = st
            while cur is not None:
                path.append(cur[0])
                cur = prev[cur]
            path = list(reversed(path))
            # keep the tail from the previous consumer / entry
            cut = 0
            for i, x in enumerate(path[:-1]):
                if x in consumers:
                    cut = i
            out[nid] = path[cut:]
        ndirty = dirty
        if nid in seeks:
            ndirty = False
        if nid in consumers:
            ndirty = True
        if node.kind == "stmt" and isinstance(a, (ast.Assign, ast.AugAssign, ast.AnnAssign)):
            for nm in node_defs(node):
                kd.pop(nm, None)
            if isinstance(a, ast.Assign) and len(a.targets) == 1 and isinstance(a.targets[0], ast.Name) and isinstance(a.value, ast.Constant) and isinstance(a.value.value, str):
                kd[a.targets[0].id] = a.value.value
        elif node.kind in ("for-iter", "with-enter", "handler"):
            for nm in node_defs(node):
                kd.pop(nm, None)
        eq = None
        if node.kind == "test" and isinstance(a, ast.Compare) and len(a.ops) == 1 and isinstance(a.ops[0], (ast.Eq, ast.NotEq)) \
                and isinstance(a.left, ast.Name) and isinstance(a.comparators[0], ast.Constant) and isinstance(a.comparators[0].value, str):
            eq = (a.left.id, a.comparators[0].value, isinstance(a.ops[0], ast.Eq))
        for t, lab in cfg.succ[nid]:
            nk = dict(kd)
            d2 = ndirty
            if is_exc_label(lab):
                # an exception out of a seek leaves the position unknown; out of a consumer likewise
                d2 = True if nid in seeks else ndirty
            if eq is not None and not is_exc_label(lab):
                name, const, is_eq = eq
                takes_equal = (lab.startswith("true") == is_eq)
                if takes_equal:
                    if name in nk and nk[name] != const:
                        continue
                    nk[name] = const
                else:
                    if nk.get(name) == const:
                        continue
            nst = (t, frozenset(nk.items()), d2, lab in ("loop", "continue"))
            if nst not in prev:
                prev[nst] = st
                dq.append(nst)
    return out


def _find_path_const_sensitive(cfg, src, dst, avoid):
    """path search that tracks which string constant each plain name is known to equal (from `name == "c"` tests and
    constant assignments), pruning branches that contradict it (`if engine == "numpy": ... if engine == "normal":`)"""
    from collections import deque
    start = (src, frozenset())
    prev = {start: None}
    dq = deque([start])
    while dq:
        st = dq.popleft()
        nid, known = st
        kd = dict(known)
        node = cfg.nodes[nid]
        a = node.ast
        if node.kind == "stmt" and isinstance(a, (ast.Assign, ast.AugAssign, ast.AnnAssign)):
            for nm in node_defs(node):
                kd.pop(nm, None)
            if isinstance(a, ast.Assign) and len(a.targets) == 1 and isinstance(a.targets[0], ast.Name) and isinstance(a.value, ast.Constant) and isinstance(a.value.value, str):
                kd[a.targets[0].id] = a.value.value
        elif node.kind in ("for-iter", "with-enter", "handler"):
            for nm in node_defs(node):
                kd.pop(nm, None)
        eq = None
        if node.kind == "test" and isinstance(a, ast.Compare) and len(a.ops) == 1 and isinstance(a.ops[0], (ast.Eq, ast.NotEq)) \
                and isinstance(a.left, ast.Name) and isinstance(a.comparators[0], ast.Constant) and isinstance(a.comparators[0].value, str):
            eq = (a.left.id, a.comparators[0].value, isinstance(a.ops[0], ast.Eq))
        for t, lab in cfg.succ[nid]:
            if is_exc_label(lab) or t in avoid:
                continue
            nk = dict(kd)
            if eq is not None:
                name, const, is_eq = eq
                takes_equal = (lab.startswith("true") == is_eq)
                if takes_equal:
                    if name in nk and nk[name] != const:
                        continue
                    nk[name] = const
                else:
                    if nk.get(name) == const:
                        continue
            nst = (t, frozenset(nk.items()))
            if t == dst:
                path = [t]
                cur = st
                while cur is not None:
                    path.append(cur[0])
                    cur = prev[cur]
                return list(reversed(path))
            if nst not in prev:
                prev[nst] = st
                dq.append(nst)
    return None


# ---------------------------------------------------------------------------------------------- LINE.NORMALISE

def rule_line_normalise(ctx):
    p = ctx.p
    results = {}
    for (fi, loop, role, counter, linevar, direct, start, ends, firsts) in _consumer_loops(p):
        if role == "other" or linevar is None:
            continue
        cfg = build_cfg(p, fi)
        rd = ReachingDefs(cfg)
        site = "%s#%s-classify" % (fi.qual, role)
        problems = []
        # comment tests: <line>[0] in <comments>, <line>.startswith(<comments param>)
        cparams = [x for x in (fi.params() + (fi.parent.params() if fi.parent else [])) if "comment" in x]
        ctests, etests = [], []
        for node in cfg.nodes:
            if node.kind != "test" or not in_block(node.ast, loop.body):
                continue
            for c in ast.walk(node.ast):
                if isinstance(c, ast.Call) and isinstance(c.func, ast.Attribute) and c.func.attr == "startswith" and c.args:
                    if any(isinstance(x, ast.Name) and x.id in cparams for x in ast.walk(c.args[0])):
                        ctests.append((node.id, c.func.value, c))
                if isinstance(c, ast.Compare) and len(c.ops) == 1 and isinstance(c.ops[0], (ast.In, ast.NotIn)):
                    if any(isinstance(x, ast.Name) and x.id in cparams for x in ast.walk(c.comparators[0])):
                        base = c.left.value if isinstance(c.left, ast.Subscript) else c.left
                        ctests.append((node.id, base, c))
            t = node.ast
            for c in ast.walk(t):
                # emptiness: `not line`, `line`, len(line) == 0 / > 0
                if isinstance(c, ast.UnaryOp) and isinstance(c.op, ast.Not) and isinstance(c.operand, ast.Name) and c.operand.id == linevar:
                    etests.append((node.id, c.operand, c))
                if isinstance(c, ast.Compare) and isinstance(c.left, ast.Call) and isinstance(c.left.func, ast.Name) and c.left.func.id == "len" \
                        and c.left.args and isinstance(c.left.args[0], ast.Name) and c.left.args[0].id == linevar:
                    etests.append((node.id, c.left.args[0], c))
            if isinstance(t, ast.Name) and t.id == linevar:
                etests.append((node.id, t, t))
            for c in ast.walk(t):
                # `line and not line.startswith(...)`: truthiness of the line as an operand of and/or
                if isinstance(c, ast.BoolOp):
                    for v in c.values:
                        if isinstance(v, ast.Name) and v.id == linevar:
                            etests.append((node.id, v, v))
        if not ctests:
            problems.append("comment lines are not skipped")
        if not etests:
            problems.append("blank lines are not skipped")
        for nid, recv, c in ctests:
            if not _fully_stripped(recv, cfg, rd, nid):
                problems.append("the comment test `%s` is applied to a line that is not fully stripped: an indented "
                                "comment line is parsed as content" % unparse(c))
        for nid, recv, c in etests:
            if not _fully_stripped(recv, cfg, rd, nid):
                problems.append("the blank-line test `%s` is applied to a line that is not fully stripped" % unparse(c))
        # both skips dominate the counting / parsing node
        sinks = []
        for node in cfg.nodes:
            if node.ast is None or node.kind not in ("stmt", "for-iter", "test") or not in_block(node.ast, loop.body):
                continue
            src = node.ast.iter if node.kind == "for-iter" else node.ast
            for c in walk_expr_shallow(src):
                if isinstance(c, ast.Call):
                    nm = c.func.attr if isinstance(c.func, ast.Attribute) else getattr(c.func, "id", "")
                    if nm in ("read_line", "read_header_line", "line_splitter", "findall", "split") or (
                            isinstance(c.func, ast.Name) and c.func.id not in ("len", "enumerate", "str", "int", "isinstance", "range") and
                            any(isinstance(x, ast.Name) and x.id == linevar for a in c.args for x in ast.walk(a)) and nm not in ("sub",)):
                        sinks.append(node.id)
        sinks = sorted(set(sinks))
        if not sinks:
            problems.append("cannot find where the loop parses / counts the items of a line")
        head = cfg.nodes_for(loop)[0]
        for kind, tests in (("comment", ctests), ("blank", etests)):
            tn = sorted({t[0] for t in tests})
            if tn and sinks:
                pth = None
                for be in [t for (t, lab) in cfg.succ[head] if lab == "body"]:
                    pth = cfg.find_path(be, sinks, avoid=tn, skip_labels=EXC) if be not in tn else None
                    if pth:
                        break
                if pth:
                    problems.append("a line can be parsed/counted without the %s-line test having been evaluated" % kind)
        results[role] = (bool(ctests), bool(etests))
        if problems:
            for m in dict.fromkeys(problems):
                ctx.bad("LINE.NORMALISE", site, fi, loop, "%s loop: %s" % (role, m))
        else:
            ctx.ok("LINE.NORMALISE", site, fi, loop, "%s loop strips the line fully, then skips blank and comment lines "
                   "before parsing/counting" % role)
    if "sniffer" in results and "reference-engine" in results and results["sniffer"] != results["reference-engine"]:
        fi = p.func("reader.inspect_data_section")
        ctx.bad("LINE.NORMALISE", "reader#sniffer-vs-reference", fi, fi.node,
                "the column sniffer and the reference engine disagree on which lines are skipped (comment, blank): "
                "sniffer %s, reference engine %s" % (results["sniffer"], results["reference-engine"]))
    ctx.floor("LINE.NORMALISE", 3)


TYPE_PROBES = [
    ("~A", "Data"), ("~a", "Data"), ("~ASCII", "Data"), ("~ascii log data", "Data"), ("~Log_Data | Log_Definition", "Data"),
    ("~O", "Header (other)"), ("~other", "Header (other)"), ("~Other Information", "Header (other)"),
    ("~V", "Header items"), ("~Version", "Header items"), ("~well", "Header items"), ("~Curve Information", "Header items"),
    ("~Parameter", "Header items"), ("~Tops", "Header items"), ("~TOOL_DATABASE", "Header items"),
    ("~Mud_datasheet", "Header items"), ("~Custom_Section", "Header items"), ("~Log_Definition", "Header items"),
    ("~Log_Parameter", "Header items"), ("~Drilling_Data", "Las3_Data"), ("~Core_Data[1]", "Las3_Data"),
]


def rule_section_type(ctx):
    """truth table of determine_section_type over probe titles (folded if/elif chain)"""
    p = ctx.p
    fi = p.func("reader.determine_section_type")
    par = fi.params()[0]
    defs = _single_defs(fi)
    chain = []

    def collect(stmts):
        for st in stmts:
            if isinstance(st, ast.If):
                rets = [x for x in st.body if isinstance(x, ast.Return)]
                chain.append((st.test, rets[0].value if rets else None))
                collect(st.orelse)
            elif isinstance(st, ast.Return):
                chain.append((None, st.value))
    collect([x for x in fi.node.body])
    pure_chain = not any(isinstance(x, (ast.For, ast.While, ast.Try, ast.With)) for x in walk_shallow(fi.node))
    if not pure_chain or not chain or chain[-1][0] is not None:
        # not an if/elif chain (a rule table scanned in a loop ...): evaluate the function itself on the probe titles with the
        # interpreter for pure helpers
        from sa.consts import _interpret, FuncRef
        problems = []
        try:
            for title, want in TYPE_PROBES:
                got = _interpret(FuncRef(fi.node, module_env(p, fi.module.name)), [title], {})
                if got != want:
                    problems.append("a section titled %r is classified %r (documented: %r)" % (title, got, want))
        except NotConst as e:
            raise ShapeNotRecognised("determine_section_type is neither an if/elif/return chain nor evaluable as a pure function (%s)" % e)
        ctx.check(not problems, "SEC.TYPE", fi.qual + "#truth-table", fi, fi.node,
                  "section kind by title agrees with the documented classification for %d probe titles (function evaluated on each)" % len(TYPE_PROBES),
                  "; ".join(problems[:4]) + (": the lines of such a section are attributed to the wrong kind of section or dropped" if problems else ""))
        ctx.floor("SEC.TYPE", 1)
        return
    problems = []
    for title, want in TYPE_PROBES:
        got = None
        for test, val in chain:
            try:
                ok = True if test is None else bool(_fold_title(test, par, title, defs=defs))
            except NotConst as e:
                raise AnalysisError("SEC.TYPE: cannot fold `%s`: %s" % (unparse(test), e))
            if ok:
                try:
                    got = fold(val) if val is not None else None
                except NotConst:
                    got = unparse(val)
                break
        if got != want:
            problems.append("a section titled %r is classified %r (documented: %r)" % (title, got, want))
    ctx.check(not problems, "SEC.TYPE", fi.qual + "#truth-table", fi, fi.node,
              "section kind by title agrees with the documented classification for %d probe titles (both cases of A/O, "
              "custom titles containing '_data', LAS 3 data sections)" % len(TYPE_PROBES),
              "; ".join(problems[:4]) + (": the lines of such a section are attributed to the wrong kind of section or dropped" if problems else ""))
    ctx.floor("SEC.TYPE", 1)


def rule_content_only_effects(ctx):
    """LINE.EFFECTS: in the sniffer and the reference engine every per-line effect other than advancing the line
    counter (append to a census list, yield) is control-dependent on the line being neither blank nor a comment"""
    p = ctx.p
    for (fi, loop, role, counter, linevar, direct, start, ends, firsts) in _consumer_loops(p):
        if role not in ("sniffer", "reference-engine") or linevar is None:
            continue
        cfg = build_cfg(p, fi)
        cd = ControlDependence(cfg)
        cparams = [x for x in (fi.params() + (fi.parent.params() if fi.parent else [])) if "comment" in x]
        site = "%s#%s-effects" % (fi.qual, role)
        problems = []
        n_eff = 0
        for node in cfg.nodes:
            if node.ast is None or node.kind != "stmt" or not in_block(node.ast, loop.body):
                continue
            eff = None
            for c in walk_expr_shallow(node.ast):
                if isinstance(c, ast.Call) and isinstance(c.func, ast.Attribute) and c.func.attr in ("append", "add", "extend"):
                    eff = c
                if isinstance(c, (ast.Yield, ast.YieldFrom)):
                    eff = c
            if eff is None:
                continue
            n_eff += 1
            deps = set(cd.transitive(node.id))
            # statements inside an except handler inherit the conditions of the try statement they belong to
            cur = node.ast
            par = getattr(cur, "_parent", None)
            while par is not None and par is not loop:
                if isinstance(par, ast.Try) and not in_block(cur, par.body):
                    for first in cfg.nodes_for(par.body[0]):
                        deps |= set(cd.transitive(first))
                cur = par
                par = getattr(par, "_parent", None)
            tests = [(cfg.nodes[tn].ast, lab.startswith("true")) for (tn, lab) in deps
                     if cfg.nodes[tn].kind == "test" and in_block(cfg.nodes[tn].ast, loop.body)]
            txts = []
            for t, pol in tests:
                for a in (t.values if isinstance(t, ast.BoolOp) and isinstance(t.op, ast.And) and pol else [t]):
                    txts.append((ast.unparse(a), pol))
            has_comment = any(any(cp in tx for cp in cparams) and "startswith" in tx for tx, pol in txts)
            has_blank = any(("len(%s)" % linevar in tx) or tx in (linevar, "not %s" % linevar) for tx, pol in txts)
            if has_blank and not has_comment:
                # "comment lines come back empty": under the comment test the line (or a value copied into it) is set to "",
                # so the blank test skips comment lines as well
                blanked = set()
                for n2 in cfg.nodes:
                    a2 = n2.ast
                    if n2.kind == "stmt" and isinstance(a2, ast.Assign) and in_block(a2, loop.body) and isinstance(a2.value, ast.Constant) \
                            and a2.value.value == "" and len(a2.targets) == 1 and isinstance(a2.targets[0], ast.Name):
                        under = [(cfg.nodes[tn].ast, lab) for (tn, lab) in cd.transitive(n2.id) if cfg.nodes[tn].kind == "test"]
                        if any(lab.startswith("true") and "startswith" in ast.unparse(t_) and any(cp in ast.unparse(t_) for cp in cparams)
                               and not ast.unparse(t_).startswith("not ") for t_, lab in under):
                            blanked.add(a2.targets[0].id)
                for _ in range(3):
                    for a2 in ast.walk(loop):
                        if isinstance(a2, ast.Assign) and len(a2.targets) == 1 and isinstance(a2.targets[0], ast.Name) \
                                and isinstance(a2.value, ast.Name) and a2.value.id in blanked:
                            blanked.add(a2.targets[0].id)
                if linevar in blanked:
                    has_comment = True
            if not (has_comment and has_blank):
                problems.append("`%s` is executed for %s lines too: inserting such lines changes the result (e.g. the "
                                "hyphen census decides whether the run-on substitutions are dropped)" % (
                                    unparse(node.ast), " and ".join(k for k, v in (("comment", has_comment), ("blank", has_blank)) if not v)))
        if n_eff == 0:
            raise AnalysisError("no per-line effect found in the %s loop" % role)
        ctx.check(not problems, "LINE.EFFECTS", site, fi, loop,
                  "all %d per-line effects of the %s loop happen only for lines that are neither blank nor comments" % (n_eff, role),
                  "; ".join(dict.fromkeys(problems)))
    ctx.floor("LINE.EFFECTS", 2)


def rule_every_section(ctx):
    """SEC.EVERY-SECTION: every (pos, first, last, title) entry found by the scan is routed: no `continue`/`break` in the
    section loop of read() that depends on the section's line numbers (an empty section is still a section: it must appear
    under its title, and an empty ~Well must not keep the pre-filled defaults silently)"""
    p = ctx.p
    fr = host_sections(p)
    sp = _section_tuple_names(fr)
    loop = sp["loop"]
    cfg = build_cfg(p, fr)
    cd = ControlDependence(cfg)
    lines = {sp["first"], sp["last"], sp["pos"], sp["title"]}
    # names computed from the title or the line numbers inside the loop (letter = title[1:2].upper() ...)
    for _ in range(3):
        for a_ in ast.walk(loop):
            if isinstance(a_, ast.Assign) and len(a_.targets) == 1 and isinstance(a_.targets[0], ast.Name) \
                    and any(isinstance(x, ast.Name) and x.id in lines for x in ast.walk(a_.value)) \
                    and not any(isinstance(c, ast.Call) and "determine_section_type" in ast.unparse(c.func) for c in ast.walk(a_.value)):
                lines.add(a_.targets[0].id)
    site = READ + "#every-section"
    problems = []
    for node in cfg.nodes:
        a = node.ast
        if node.kind != "stmt" or not isinstance(a, (ast.Continue, ast.Break)) or not in_block(a, loop.body):
            continue
        if enclosing(a, (ast.For, ast.While)) is not loop:
            continue
        for (tn, lab) in cd.transitive(node.id):
            t = cfg.nodes[tn].ast
            if cfg.nodes[tn].kind == "test" and t is not None and in_block(t, loop.body):
                used = {x.id for x in ast.walk(t) if isinstance(x, ast.Name)} & lines
                if used:
                    problems.append((a, "`%s` under `%s` skips a section depending on its title or line numbers (%s): the section never reaches "
                                        "the routing, so it is missing from the result (or keeps default items that are not in the file)"
                                     % (type(a).__name__.lower(), unparse(t), sorted(used))))
    if problems:
        for nd, msg in problems:
            ctx.bad("SEC.EVERY-SECTION", site, fr, nd, msg)
    else:
        ctx.ok("SEC.EVERY-SECTION", site, fr, loop, "no section found by the scan is skipped on account of its position or length")
    ctx.floor("SEC.EVERY-SECTION", 1)


def rule_other_verbatim(ctx):
    """SEC.OTHER-VERBATIM: the free-text ~Other section keeps every line between its title and the next title: in the loop
    that collects it, whether a line is appended depends on title tests and the section's line numbers only"""
    p = ctx.p
    host_fi, lp, app = None, None, None
    for fi in read_family(p):
        for l_ in [x for x in walk_shallow(fi.node) if isinstance(x, ast.For)]:
            has_title = any(isinstance(c, ast.Call) and isinstance(c.func, ast.Attribute) and c.func.attr == "startswith" and c.args
                            and isinstance(c.args[0], ast.Constant) and c.args[0].value == "~" for c in ast.walk(l_))
            apps = [c for c in ast.walk(l_) if isinstance(c, ast.Call) and isinstance(c.func, ast.Attribute) and c.func.attr == "append"
                    and c.args and any(isinstance(x, ast.Name) for x in ast.walk(c.args[0]))]
            parses = any(isinstance(c, ast.Call) and "parse_header_items_section" in ast.unparse(c.func) for c in ast.walk(l_))
            if has_title and apps and not parses and isinstance(l_.iter, ast.Name):
                host_fi, lp, app = fi, l_, apps[0]
    if lp is None:
        ctx.undecided("SEC.OTHER-VERBATIM", READ + "#other-loop", p.func(READ), p.func(READ).node, "no free-text collection loop found")
        return
    cfg = build_cfg(p, host_fi)
    cd = ControlDependence(cfg)
    extra = []
    for nid in cfg.node_of_expr(app):
        for (tn, lab) in cd.transitive(nid):
            t = cfg.nodes[tn].ast
            if cfg.nodes[tn].kind != "test" or t is None or not in_block(t, lp.body):
                continue
            txt = ast.unparse(t)
            if "startswith('~')" in txt:
                continue
            if any(isinstance(c, ast.Compare) and ("line_no" in ast.unparse(c) or "last" in ast.unparse(c)) for c in ast.walk(t)) and "[0]" not in txt:
                continue
            extra.append(txt)
    ctx.check(not extra, "SEC.OTHER-VERBATIM", READ + "#other-loop", host_fi, app,
              "every line of ~Other up to the next title is kept",
              "whether a line of ~Other is kept also depends on %s: lines that write() emits verbatim do not come back" % sorted(set(extra)))
    ctx.floor("SEC.OTHER-VERBATIM", 1)


def rule_line_model(ctx):
    """SEC.LINE-MODEL: one notion of "line" everywhere: the section scan, the header loop, the sniffer, the reference engine and
    genfromtxt all take lines from the file object (readline / iteration).  str.splitlines() also breaks at form feed, vertical
    tab, FS/GS/RS, NEL and U+2028/9 and a lone CR, so text read from the handle is never split with splitlines()/split("\\n")."""
    p = ctx.p
    n = 0
    for q, fi in sorted(p.functions.items()):
        if fi.module.name not in ("reader", "las") or isinstance(fi.node, ast.Lambda):
            continue
        content_names = set()
        for a in walk_shallow(fi.node):
            if isinstance(a, ast.Assign) and isinstance(a.value, ast.Call) and isinstance(a.value.func, ast.Attribute) \
                    and a.value.func.attr in ("read", "getvalue"):
                for t in a.targets:
                    if isinstance(t, ast.Name):
                        content_names.add(t.id)
        hits = []
        for c in walk_shallow(fi.node):
            if isinstance(c, ast.Call) and isinstance(c.func, ast.Attribute) and (
                    c.func.attr == "splitlines" or (c.func.attr == "split" and c.args and isinstance(c.args[0], ast.Constant)
                                                    and c.args[0].value in ("\n", "\r\n"))):
                recv = c.func.value
                from_handle = (isinstance(recv, ast.Call) and isinstance(recv.func, ast.Attribute) and recv.func.attr in ("read", "getvalue")) or (
                    isinstance(recv, ast.Name) and recv.id in content_names)
                if from_handle:
                    hits.append(c)
        if hits or any(isinstance(c, ast.Call) and isinstance(c.func, ast.Attribute) and c.func.attr in ("readline", "tell") for c in walk_shallow(fi.node)):
            n += 1
            site = "%s#line-model" % q
            if hits:
                ctx.bad("SEC.LINE-MODEL", site, fi, hits[0], "`%s` splits text read from the handle with str.splitlines()/split: it also breaks "
                        "at form feed, \\\\x0b, \\\\x1c-\\\\x1e, \\\\x85, U+2028/9 and a lone CR, which file iteration and genfromtxt do not - the "
                        "line numbers of the sections drift from the lines the readers count" % unparse(hits[0])[:60])
            else:
                ctx.ok("SEC.LINE-MODEL", site, fi, fi.node, "lines come from the handle (readline / iteration) only")
    ctx.floor("SEC.LINE-MODEL", 1)


def rule_whitespace_sets(ctx):
    """LINE.WS-SET: surrounding white space of a line is removed with the argument-less `strip()` (after an optional
    `strip("\\n")`).  A hand-written character set (`strip(" \\t\\n")`) is a different set: it leaves `\\r` (text given as a string
    or StringIO is not newline-translated), form feeds, no-break spaces ... on the line, so the same text reads differently by
    channel."""
    p = ctx.p
    n = 0
    bad = []
    for q, fi in sorted(p.functions.items()):
        if isinstance(fi.node, ast.Lambda) or fi.module.name not in ("las", "reader"):
            continue
        for c in walk_shallow(fi.node):
            if isinstance(c, ast.Call) and isinstance(c.func, ast.Attribute) and c.func.attr in ("strip", "rstrip", "lstrip") and len(c.args) == 1 \
                    and isinstance(c.args[0], ast.Constant) and isinstance(c.args[0].value, str):
                n += 1
                chars = c.args[0].value
                if (" " in chars or "\t" in chars) and "line" in ast.unparse(c.func.value).lower():
                    bad.append((fi, c))
    site = "lasio#hand-written-whitespace-sets"
    if bad:
        fi, c = bad[0]
        ctx.bad("LINE.WS-SET", site, fi, c, "`%s` in %s strips a hand-written set of blanks: a trailing carriage return (CRLF text passed as a "
                "string / StringIO / file opened with newline='') and other white space stay on the line" % (unparse(c), fi.qual))
    else:
        ctx.ok("LINE.WS-SET", site, None, 0, "no line is stripped with a hand-written white-space set (%d strip(<chars>) calls looked at)" % n,
               nontrivial=False)
