"""Rule groups NULL and DATA (C01, C02, C06, C07, C09): the data section.

NULL.GUARD       the NaN store through the header-NULL mask is controlled by exactly: policy flag AND float dtype of the
                 column AND column counter != 0 (truth table over counter values)
NULL.EXACT       the mask is an exact == against the value taken from ~Well NULL; no tolerance function anywhere on it
NULL.TABLE       folded policy tables: strict -> ['NULL'], none -> [], NULL_SUBS['NULL'] == [None]; the decoder raises the
                 flag only for 'NULL' and drops None from the numeric list
NULL.WRITE       the writer's NaN branch emits str(well['NULL'].value), unformatted
DATA.COUNTER     column counter discipline in the assignment loop; per-section (re)initialisation of the bookkeeping;
                 surplus columns appended, missing columns NaN-filled to the common length
DATA.WRAP-COUNT  for a wrapped file the sniffed per-line count never reaches the reader (explicit-state search under
                 the assumption WRAP == YES and curves declared); the wrap predicate agrees with engine selection
DATA.TOKENIZER   the sniffer counts tokens with the very splitter the reader uses
DATA.TRIM        every splitter yields whitespace-free tokens; key set == DLM vocabulary; COMMA splitting is positional
DATA.RESHAPE     row-major (-1, n) reshape, columns yielded as [:, j]; fast engine unpack=True
DATA.ORIENT      fast engine result is 2-D by construction (ndmin=2) or oriented from data-derived quantities
WR.WRAP-TOKENS   the TextWrapper breaks only at blanks
"""
import ast
import re

from sa.astutil import ordn

from sa import AnalysisError
from sa.astutil import unparse, parents, in_block, enclosing
from sa.cfg import build_cfg, EXC
from sa.consts import fold, NotConst, module_env, Regex
from sa.dataflow import Provenance, ControlDependence, ReachingDefs, target_names, node_defs
from sa.explore import explore, witness
from sa.loader import walk_shallow, walk_expr_shallow
from sa.resolve import get_resolver
from sa import rx
from rules.common import host, host_data, host_sections, read_family, calls_qual, write_family

READ = "las.LASFile.read"
TOLERANCE_FUNCS = {"isclose", "allclose", "round", "around", "round_", "rint", "approx", "floor", "ceil", "trunc",
                   "fabs", "abs", "absolute"}
NORMAL = "reader.read_data_section_iterative_normal_engine"
NUMPY = "reader.read_data_section_iterative_numpy_engine"
SNIFF = "reader.inspect_data_section"


def _conjuncts(t):
    if isinstance(t, ast.BoolOp) and isinstance(t.op, ast.And):
        out = []
        for v in t.values:
            out += _conjuncts(v)
        return out
    return [t]


def _assign_loop(p):
    """the `for <arr> in <generator>` loop of LASFile.read that binds columns to curves"""
    r = get_resolver(p)
    for fr in read_family(p):
        cfg = build_cfg(p, fr)
        prov = Provenance(cfg)
        best = None
        engines = {"read_data_section_iterative_normal_engine", "read_data_section_iterative_numpy_engine"}
        over_columns = []
        for sub in walk_shallow(fr.node):
            if isinstance(sub, ast.For):
                nids = cfg.nodes_for(sub)
                base_ = sub.iter
                while isinstance(base_, ast.Call) and base_.args and ast.unparse(base_.func).split(".")[-1] in (
                        "enumerate", "islice", "zip", "iter", "list", "tuple", "reversed"):
                    base_ = base_.args[0]
                # the iterated object itself is (an iterator over) the engine's result - a range over a count derived from it is not
                if nids and isinstance(base_, ast.Name) and {a[1] for a in prov.atoms(base_, nids[0]) if a[0] == "callname"} & engines:
                    over_columns.append(sub)
            if isinstance(sub, ast.For) and _elem_name(sub) is not None:
                nids = cfg.nodes_for(sub)
                if not nids:
                    continue
                atoms = prov.atoms(_iter_source(sub), nids[0])
                names = {a[1] for a in atoms if a[0] == "callname"}
                if names & engines:
                    best = sub
        if len(over_columns) > 1:
            from sa import ShapeNotRecognised
            raise ShapeNotRecognised("the columns of the data section are bound to the curves by %d loops over the engine's result (lines %s): "
                                     "the single assignment loop the column clauses reason about is not there" % (
                                         len(over_columns), ", ".join(str(l_.lineno) for l_ in over_columns)))
        if best is not None:
            return fr, cfg, prov, best
    raise AnalysisError("cannot find the loop over the data-section columns in LASFile.read or its helpers")


def _iter_source(loop):
    """the iterated expression, looking through enumerate(...)"""
    it = loop.iter
    if isinstance(it, ast.Call) and isinstance(it.func, ast.Name) and it.func.id == "enumerate" and it.args:
        return it.args[0]
    return it


def _elem_name(loop):
    """name bound to the element in `for x in G` / `for i, x in enumerate(G)`"""
    src = _iter_source(loop)
    if not isinstance(src, ast.Name):
        return None
    if src is loop.iter:
        return loop.target.id if isinstance(loop.target, ast.Name) else None
    t = loop.target
    if isinstance(t, ast.Tuple) and len(t.elts) == 2 and isinstance(t.elts[1], ast.Name):
        return t.elts[1].id
    return None


def _null_var_defs(fr):
    """names assigned from <items>.NULL.value / <items>['NULL'].value"""
    out = set()
    for sub in walk_shallow(fr.node):
        if isinstance(sub, ast.Assign) and len(sub.targets) == 1 and isinstance(sub.targets[0], ast.Name):
            v = sub.value
            if isinstance(v, ast.Attribute) and v.attr == "value":
                b = v.value
                if (isinstance(b, ast.Attribute) and b.attr == "NULL") or (
                        isinstance(b, ast.Subscript) and isinstance(b.slice, ast.Constant) and b.slice.value == "NULL"):
                    if not _is_temp(sub.targets[0].id):
                        out.add(sub.targets[0].id)
    return out


def rule_null_guard(ctx):
    p = ctx.p
    fr, cfg, prov, loop = _assign_loop(p)
    arr = _elem_name(loop)
    cd = ControlDependence(cfg)
    nullvars = _null_var_defs(fr)
    if not nullvars:
        ctx.undecided("NULL.GUARD", READ + "#null-source", fr, fr.node, "no plain variable takes the ~Well NULL value (`x = "
                      "<items>.NULL.value`) in LASFile.read: the steering values are kept in another form")
        ctx.undecided("NULL.EXACT", READ + "#null-mask", fr, fr.node, "the ~Well NULL value is not held in a plain variable")
        return
    # NaN stores: arr[<mask>] = np.nan   /  np.putmask / arr = np.where(...)
    stores = []
    for node in cfg.nodes:
        a = node.ast
        if node.kind != "stmt" or not in_block(a, loop.body):
            continue
        if isinstance(a, ast.Assign) and len(a.targets) == 1 and isinstance(a.targets[0], ast.Subscript):
            t = a.targets[0]
            if isinstance(t.value, ast.Name) and t.value.id == arr and "nan" in ast.unparse(a.value).lower():
                stores.append((node.id, a, t.slice))
    site = READ + "#null-mask"
    if not stores:
        # the replacement may have moved out of the loop (into the engines, a helper that is not expanded): a NaN store through a
        # mask somewhere in what read() calls -> not decided in that form; nowhere -> the replacement is gone
        r_ = get_resolver(p)
        elsewhere = []
        for q, f in sorted(r_.closure([fr]).items()):
            if isinstance(f.node, ast.Lambda):
                continue
            for a in walk_shallow(f.node):
                if isinstance(a, ast.Assign) and len(a.targets) == 1 and isinstance(a.targets[0], ast.Subscript) \
                        and isinstance(a.targets[0].slice, ast.Compare) and "nan" in ast.unparse(a.value).lower() and (f is not fr or not in_block(a, loop.body)):
                    elsewhere.append((f, a))
        nv = set(nullvars)
        for a_ in walk_shallow(fr.node):
            if isinstance(a_, ast.Assign) and len(a_.targets) == 1 and isinstance(a_.targets[0], ast.Name) and isinstance(a_.value, ast.Name) \
                    and a_.value.id in nv:
                nv.add(a_.targets[0].id)
        nullvars = nv
        handed = [c for c in walk_shallow(fr.node) if isinstance(c, ast.Call) and not (isinstance(c.func, ast.Attribute) and (
            c.func.attr == "format" or ast.unparse(c.func.value).startswith(("logger", "logging")))) and any(
            isinstance(x, ast.Name) and x.id in nullvars for a_ in list(c.args) + [k.value for k in c.keywords] for x in ast.walk(a_))]
        if elsewhere and handed:
            f, a = elsewhere[0]
            ctx.undecided("NULL.GUARD", site, fr, loop, "the NULL->NaN store is `%s` in %s, outside the column assignment loop: its guard "
                          "(policy flag, float column, not the index) is not decided across that structure" % (unparse(a), f.qual))
            ctx.undecided("NULL.EXACT", site, fr, loop, "the NULL mask is built in %s" % f.qual)
            ctx.floor("NULL.GUARD", 0)
            ctx.floor("NULL.EXACT", 0)
            return
        ctx.bad("NULL.GUARD", site, fr, loop, "no store of NaN through a NULL mask on the column in the assignment loop: "
                "samples equal to the header NULL are never turned into NaN")
        ctx.floor("NULL.GUARD", 1)
        return
    # the column counter (used in `!= 0` guard / subscript of curves)
    counter = _counter_var(fr, loop)
    for nid, st, mask in stores:
        # --- NULL.EXACT on this mask
        mnames = {n.id for n in ast.walk(mask) if isinstance(n, ast.Name)}
        calls = [c for c in ast.walk(mask) if isinstance(c, ast.Call)]
        exact_problems = []
        if calls:
            exact_problems.append("the mask is computed by %s rather than an exact comparison" % ", ".join(unparse(c.func) for c in calls))
        if not (isinstance(mask, ast.Compare) and len(mask.ops) == 1 and isinstance(mask.ops[0], ast.Eq)):
            exact_problems.append("the mask `%s` is not a plain == comparison" % unparse(mask))
        else:
            sides = {ast.unparse(mask.left), ast.unparse(mask.comparators[0])}
            if arr not in sides or not (sides & nullvars):
                exact_problems.append("the mask compares %s; it must compare the column with the ~Well NULL value (%s)"
                                      % (sorted(sides), sorted(nullvars)))
        atoms = prov.atoms(mask, nid)
        tol = {a[1] for a in atoms if a[0] == "callname"} & TOLERANCE_FUNCS
        if tol:
            exact_problems.append("a tolerance/rounding function (%s) is on the path of the NULL comparison: near-NULL "
                                  "samples become NaN too" % ", ".join(sorted(tol)))
        ctx.check(not exact_problems, "NULL.EXACT", site, fr, st,
                  "mask is `column == <~Well NULL value>`, exact, no tolerance function in its provenance",
                  "; ".join(exact_problems))
        # --- NULL.GUARD
        tests = [(cfg.nodes[tn].ast, lab.startswith("true")) for (tn, lab) in cd.transitive(nid)
                 if cfg.nodes[tn].kind == "test" and in_block(cfg.nodes[tn].ast, loop.body)]
        conj = []
        for t, pol in tests:
            if pol:
                conj += [(c, True) for c in _conjuncts(t)]
            else:
                conj.append((t, False))
        have = {"flag": None, "dtype": None, "index": None}
        extra = []
        for c, pol in conj:
            names = {n.id for n in ast.walk(c) if isinstance(n, ast.Name)}
            txt = ast.unparse(c)
            catoms = prov.atoms(c, nid)
            cnames = {a[1] for a in catoms if a[0] == "callname"}
            if counter and names == {counter}:
                have["index"] = (c, pol)
            elif "dtype" in txt and arr in names:
                have["dtype"] = (c, pol)
            elif "get_substitutions" in cnames and pol and isinstance(c, ast.Name):
                have["flag"] = (c, pol)
            elif nullvars & names and ("None" in txt):
                # `null is not None` guards are harmless (no NULL in the header: nothing to compare with)
                continue
            else:
                extra.append((c, pol))
        problems = []
        if have["flag"] is None:
            problems.append("not controlled by the null-policy flag returned by get_substitutions (null_policy='none' "
                            "would still replace values)")
        else:
            # the flag must be the third element of the tuple returned by get_substitutions
            c = have["flag"][0]
            fatoms = prov.atoms(c, nid)
            if ("unpack", 2) not in fatoms:
                problems.append("the policy flag is not the third value returned by get_substitutions")
        if have["dtype"] is None:
            problems.append("not restricted to float columns (text columns would be compared with NULL)")
        else:
            c, pol = have["dtype"]
            if not (pol and "float" in ast.unparse(c).lower()):
                problems.append("the dtype guard `%s` does not select float columns" % unparse(c))
        if have["index"] is None:
            problems.append("not guarded by `column index != 0`: index samples equal to NULL would be nulled")
        else:
            c, pol = have["index"]
            table = []
            for i in range(0, 6):
                try:
                    v = bool(fold(c, lambda n, i=i: i if n == counter else (_ for _ in ()).throw(NotConst(n))))
                except NotConst as e:
                    raise AnalysisError("NULL.GUARD: cannot fold index guard `%s`: %s" % (unparse(c), e))
                table.append(v == pol)
            if table != [False, True, True, True, True, True]:
                problems.append("the index guard `%s` is true for column indexes %s; it must hold exactly for every "
                                "column but the first" % (unparse(c), [i for i, v in enumerate(table) if v]))
        for c, pol in extra:
            problems.append("additional condition `%s%s` restricts the NULL replacement: some NULL-valued samples stay "
                            "numbers" % ("" if pol else "not ", unparse(c)))
        ctx.check(not problems, "NULL.GUARD", site, fr, st,
                  "NaN is stored through the mask exactly under: policy flag AND float column AND column index != 0",
                  "header-NULL replacement: " + "; ".join(problems))
    # the counter used by the guard is the disciplined counter (DATA.COUNTER decides the discipline)
    ctx.floor("NULL.GUARD", 1)
    ctx.floor("NULL.EXACT", 1)


def _counter_var(fr, loop):
    """column counter of the assignment loop: the name that is augmented by 1 in the loop body (or an enumerate index)"""
    for sub in ast.walk(loop):
        if isinstance(sub, ast.AugAssign) and isinstance(sub.target, ast.Name) and isinstance(sub.op, ast.Add):
            return sub.target.id
    if isinstance(loop.target, ast.Tuple) and isinstance(loop.target.elts[0], ast.Name):
        return loop.target.elts[0].id
    return None


def rule_null_table(ctx):
    p = ctx.p
    env = module_env(p, "defaults")
    dmod = p.module("defaults")
    problems = []
    try:
        pol = env("NULL_POLICIES")
        subs = env("NULL_SUBS")
    except NotConst as e:
        raise AnalysisError("cannot fold defaults.NULL_POLICIES / NULL_SUBS: %s" % e)
    fi = p.func("defaults.get_default_items")
    ctx.check(pol.get("strict") == ["NULL"], "NULL.TABLE", "defaults.NULL_POLICIES#strict", fi, dmod.globals["NULL_POLICIES"][0],
              "NULL_POLICIES['strict'] == ['NULL']",
              "NULL_POLICIES['strict'] is %r: under the default policy only the header NULL may be replaced" % (pol.get("strict"),))
    ctx.check(pol.get("none") == [], "NULL.TABLE", "defaults.NULL_POLICIES#none", fi, dmod.globals["NULL_POLICIES"][0],
              "NULL_POLICIES['none'] == []",
              "NULL_POLICIES['none'] is %r: with null_policy='none' no sample may be changed" % (pol.get("none"),))
    # the text markers: documented pattern and replacement, compared as regular-expression structure
    NULL_SUBS_DOC = {
        "(null)": (r" \(null\)|\(null\) | \(NULL\)|\(NULL\) | null|null | NULL|NULL ", " NaN "),
        "-": (r" -+ ", " NaN "),
        "NA": (r"(#N/A)[ ]|[ ](#N/A)", " NaN "),
        "INF": (r"(-?1\.#INF)[ ]|[ ](-?1\.#INF[0-9]*)", " NaN "),
        "IO": (r"(-?1\.#IO)[ ]|[ ](-?1\.#IO)", " NaN "),
        "IND": (r"(-?1\.#IND)[ ]|[ ](-?1\.#IND[0-9]*)", " NaN "),
    }
    from sa import rx as _rx
    for key, (wp, wr) in NULL_SUBS_DOC.items():
        got = subs.get(key)
        pr = []
        if not (isinstance(got, list) and len(got) == 1 and isinstance(got[0], tuple) and len(got[0]) == 2):
            pr.append("entry is %r" % (got,))
        else:
            gp, gr = got[0]
            pat = gp.pattern if isinstance(gp, Regex) else gp
            try:
                gt_, wt_ = _rx.parse(pat, gp.flags if isinstance(gp, Regex) else 0), _rx.parse(wp)
                same = _rx.canonical(_rx.flatten(list(gt_), gp.flags if isinstance(gp, Regex) else 0), {}) == _rx.canonical(_rx.flatten(list(wt_)), {})
            except Exception:  # noqa
                same = pat == wp
            if not same:
                pr.append("pattern %r is not the documented %r: which blank belongs to the marker decides whether the neighbouring "
                          "field delimiter survives (a pattern that eats the preceding whitespace merges two tab-separated fields)" % (pat, wp))
            if gr != wr:
                pr.append("replacement %r is not %r" % (gr, wr))
        ctx.check(not pr, "NULL.TABLE", "defaults.NULL_SUBS#%s" % key, fi, dmod.globals["NULL_SUBS"][0],
                  "text null marker %s has the documented pattern and replacement" % key, "%s: %s" % (key, "; ".join(pr)))
    ctx.check(subs.get("NULL") == [None], "NULL.TABLE", "defaults.NULL_SUBS#NULL", fi, dmod.globals["NULL_SUBS"][0],
              "NULL_SUBS['NULL'] == [None] (placeholder resolved from the header in LASFile.read)",
              "NULL_SUBS['NULL'] is %r: a fixed number here is replaced in every column including the index, whatever the "
              "header NULL is" % (subs.get("NULL"),))
    # decoder
    fg = p.func("reader.get_substitutions")
    cfg = build_cfg(p, fg)
    cd = ControlDependence(cfg)
    rets = [s for s in walk_shallow(fg.node) if isinstance(s, ast.Return)]
    flagvar = None
    if len(rets) == 1 and isinstance(rets[0].value, ast.Tuple) and len(rets[0].value.elts) == 3 and isinstance(rets[0].value.elts[2], ast.Name):
        flagvar = rets[0].value.elts[2].id
        numvar = ast.unparse(rets[0].value.elts[1])
    if flagvar is None:
        problems.append("get_substitutions does not return (regexp_subs, numerical_subs, flag)")
    else:
        sets = [n for n in cfg.nodes if n.kind == "stmt" and isinstance(n.ast, ast.Assign)
                and any(isinstance(t, ast.Name) and t.id == flagvar for t in n.ast.targets)]
        for n in sets:
            v = n.ast.value
            if isinstance(v, ast.Constant) and v.value is False:
                continue
            if isinstance(v, ast.Constant) and v.value is True:
                tests = [(cfg.nodes[tn].ast, lab.startswith("true")) for (tn, lab) in cd.direct(n.id) if cfg.nodes[tn].kind == "test"]
                ok = any(isinstance(t, ast.Compare) and len(t.ops) == 1 and isinstance(t.ops[0], ast.Eq) and pol_
                         and isinstance(t.comparators[0], ast.Constant) and t.comparators[0].value == "NULL" for t, pol_ in tests)
                if not ok:
                    problems.append("the use-header-NULL flag is raised under `%s` rather than exactly for the substitution "
                                    "named 'NULL'" % (unparse(tests[0][0]) if tests else "no condition"))
            else:
                problems.append("the use-header-NULL flag is assigned `%s`" % unparse(v))
        # None is dropped from the numeric list
        filt = False
        for s in walk_shallow(fg.node):
            if isinstance(s, ast.Assign) and ast.unparse(s.targets[0]) == numvar and isinstance(s.value, ast.ListComp):
                txt = ast.unparse(s.value)
                if "None" in txt and ("is not None" in txt or "not" in txt):
                    filt = True
        if not filt:
            problems.append("the None placeholder is no longer dropped from the numeric substitution list")
    ctx.check(not problems, "NULL.TABLE", "reader.get_substitutions#decoder", fg, fg.node,
              "decoder: flag raised only for 'NULL', None dropped from the numeric list, returns (regexps, numbers, flag)",
              "; ".join(problems))
    # the unpacking in read() keeps that order
    fr = host(p, lambda f: bool(calls_qual(p, f, {"reader.get_substitutions"})), "the call of get_substitutions")
    for s in walk_shallow(fr.node):
        if isinstance(s, ast.Assign) and isinstance(s.value, ast.Call) and "get_substitutions" in ast.unparse(s.value.func):
            t = s.targets[0]
            ok = isinstance(t, ast.Tuple) and len(t.elts) == 3
            ctx.check(ok, "NULL.TABLE", READ + "#unpack", fr, s, "read() unpacks the three results of get_substitutions",
                      "read() does not unpack (regexps, numbers, flag) from get_substitutions")
    ctx.floor("NULL.TABLE", 4)


def rule_null_write(ctx):
    p = ctx.p
    fw = p.func("writer.write")
    site = "writer.write#nan-branch"
    found = False
    for fi in write_family(p):
        if fi is fw:
            continue
        for sub in walk_shallow(fi.node):
            if isinstance(sub, ast.If) and any(isinstance(c, ast.Call) and isinstance(c.func, ast.Attribute) and c.func.attr == "isnan"
                                               for c in ast.walk(sub.test)):
                found = True
                assigns = [s for s in sub.body if isinstance(s, ast.Assign)]
                rets = [s for s in sub.body if isinstance(s, ast.Return)]
                vals = [a.value for a in assigns] + [r_.value for r_ in rets if r_.value is not None]
                problems = []
                if not vals:
                    problems.append("the NaN branch produces no text")
                for v in vals:
                    txt = ast.unparse(v)
                    if not (isinstance(v, ast.Call) and isinstance(v.func, ast.Name) and v.func.id == "str" and len(v.args) == 1):
                        problems.append("NaN is written as `%s`; it must be str(<NULL value>) so that the reader's exact "
                                        "comparison with the header NULL finds it again" % txt)
                        continue
                    arg = ast.unparse(v.args[0])
                    if "NULL" not in arg or not arg.endswith(".value") or "well" not in arg:
                        problems.append("NaN is written as str(%s), not the current ~Well NULL value" % arg)
                ctx.check(not problems, "NULL.WRITE", site, fi, sub, "NaN samples are written as str(well['NULL'].value)",
                          "; ".join(problems))
    # formatter slots: callables stored in one slot (a variable or the entries of one container) agree on NaN handling - a raw
    # `<format>.__mod__` / `<format>.format` / NaN-blind lambda next to a NaN-aware formatter writes 'nan' for the columns it serves
    def has_isnan(node):
        return any(isinstance(c, ast.Call) and isinstance(c.func, ast.Attribute) and c.func.attr == "isnan" for c in ast.walk(node))
    r = get_resolver(p)
    for fi in write_family(p):
        slots = {}
        for sub in walk_shallow(fi.node):
            if not (isinstance(sub, ast.Assign) and len(sub.targets) == 1):
                continue
            t, v = sub.targets[0], sub.value
            base = t.value if isinstance(t, ast.Subscript) else t
            if not isinstance(base, (ast.Name, ast.Attribute)):
                continue
            kind = None
            if isinstance(v, ast.Attribute) and v.attr in ("__mod__", "format"):
                kind = "raw"
            elif isinstance(v, ast.Lambda):
                kind = "aware" if has_isnan(v) else ("raw" if any(isinstance(x, ast.BinOp) and isinstance(x.op, ast.Mod) for x in ast.walk(v)) else None)
            elif isinstance(v, ast.Call):
                tg = r.callees(fi, v)[0]
                if tg and all(has_isnan(t_.node) for t_ in tg):
                    kind = "aware"
            elif isinstance(v, ast.Name) and v.id in fi.nested and has_isnan(fi.nested[v.id].node):
                kind = "aware"
            if kind:
                slots.setdefault(ast.unparse(base), []).append((kind, sub))
        for slot, entries in sorted(slots.items()):
            kinds = {k for k, _ in entries}
            if "aware" not in kinds:
                continue
            raw = [st for k, st in entries if k == "raw"]
            ssite = "%s#formatter-slot(%s)" % (fi.qual, slot)
            if raw:
                ctx.bad("NULL.WRITE", ssite, fi, raw[0], "`%s` stores a bare format operation next to NaN-aware formatters in the same slot: "
                        "the columns it serves write NaN as 'nan' instead of the NULL value" % unparse(raw[0]))
            else:
                ctx.ok("NULL.WRITE", ssite, fi, entries[0][1], "every formatter stored in %s handles NaN (%d stores)" % (slot, len(entries)))
    if not found:
        ctx.bad("NULL.WRITE", site, fw, fw.node, "the data formatter has no isnan branch: NaN samples are written as 'nan' "
                "and never come back as NaN through the NULL marker")
    ctx.floor("NULL.WRITE", 1)


# ------------------------------------------------------------------------------------------------ DATA.COUNTER

def rule_counter(ctx):
    p = ctx.p
    fr, cfg, prov, loop = _assign_loop(p)
    arr = _elem_name(loop)
    counter = _counter_var(fr, loop)
    site = READ + "#column-loop"
    problems = []
    if counter is None:
        ctx.bad("DATA.COUNTER", site, fr, loop, "no column counter in the assignment loop")
        ctx.floor("DATA.COUNTER", 1)
        return
    head = cfg.nodes_for(loop)[0]
    incs = [n.id for n in cfg.nodes if n.kind == "stmt" and isinstance(n.ast, ast.AugAssign) and isinstance(n.ast.target, ast.Name)
            and n.ast.target.id == counter and in_block(n.ast, loop.body)]
    enum = (_iter_source(loop) is not loop.iter and isinstance(loop.target, ast.Tuple) and isinstance(loop.target.elts[0], ast.Name)
            and loop.target.elts[0].id == counter)
    if enum:
        # the counter is the enumerate() index: one step per column by construction; it must start at 0 and not be rebound
        start = loop.iter.args[1] if len(loop.iter.args) > 1 else next((k.value for k in loop.iter.keywords if k.arg == "start"), None)
        if start is not None and not (isinstance(start, ast.Constant) and start.value == 0):
            problems.append("the column index starts at `%s`, not 0" % unparse(start))
        if incs or any(isinstance(x, ast.Name) and x.id == counter and isinstance(x.ctx, ast.Store) for st in loop.body for x in ast.walk(st)):
            problems.append("the enumerate() column index is modified inside the loop")
    for i in incs:
        a = cfg.nodes[i].ast
        if not (isinstance(a.op, ast.Add) and isinstance(a.value, ast.Constant) and a.value.value == 1):
            problems.append("the column counter advances by `%s`" % unparse(a))
    body_entry = [t for (t, lab) in cfg.succ[head] if lab == "body"] if not enum else []
    for be in body_entry:
        if be not in incs and cfg.find_path(be, [head], avoid=incs, skip_labels=EXC):
            problems.append("an iteration can finish without advancing the column counter: the next column overwrites "
                            "the same curve")
    for i in incs:
        if cfg.find_path(i, incs, avoid=[head], skip_labels=EXC):
            problems.append("the column counter can advance twice for one column")
    # initial value 0, assigned inside the per-section loop
    sect_loop = enclosing(loop, (ast.For,))
    inits = [s for s in walk_shallow(fr.node) if isinstance(s, ast.Assign) and any(isinstance(t, ast.Name) and t.id == counter for t in s.targets)
             and not in_block(s, loop.body)]
    ok_init = [s for s in inits if isinstance(s.value, ast.Constant) and s.value.value == 0 and not isinstance(s.value.value, bool)
               and (sect_loop is None or in_block(s, sect_loop.body)) and ordn(s) < ordn(loop)]
    if not ok_init and not enum:
        problems.append("the column counter is not reset to 0 for every data section before the columns are assigned")
    # uses: subscript into the curve list with the counter; bound check; append for surplus
    stores = [s for s in ast.walk(loop) if isinstance(s, ast.Assign) and any(
        isinstance(t, ast.Attribute) and t.attr == "data" for t in s.targets)]
    good_store = False
    for s in stores:
        t = s.targets[0]
        if (isinstance(t.value, ast.Subscript) and ast.unparse(t.value.value).endswith("curves")
                and isinstance(t.value.slice, ast.Name) and t.value.slice.id == counter
                and isinstance(s.value, ast.Name) and s.value.id == arr):
            good_store = True
            iff = enclosing(s, (ast.If,))
            if iff is None or not _is_bound_test(iff.test, counter):
                problems.append("column is stored into curves[%s] without the bound test `%s < len(curves)`" % (counter, counter))
        else:
            problems.append("column data is stored as `%s`: each column must go to curves[<column index>] unchanged" % unparse(s))
    if not good_store:
        problems.append("no `curves[%s].data = <column>` store" % counter)
    appends = [c for c in ast.walk(loop) if isinstance(c, ast.Call) and isinstance(c.func, ast.Attribute) and c.func.attr in ("append",)
               and ast.unparse(c.func.value).endswith("curves")]
    inserts = [c for c in ast.walk(loop) if isinstance(c, ast.Call) and isinstance(c.func, ast.Attribute) and c.func.attr in ("insert",)
               and ast.unparse(c.func.value).endswith("curves")]
    if inserts:
        problems.append("surplus columns are inserted (%s) rather than appended after the declared curves" % unparse(inserts[0]))
    if not appends:
        problems.append("surplus data columns no longer become additional curves")
    else:
        for c in appends:
            pth_ok = False
            iff = enclosing(c, (ast.If,))
            if iff is not None and _is_bound_test(iff.test, counter) and in_block(c, iff.orelse):
                pth_ok = True
            if not pth_ok:
                problems.append("the creation of an extra curve is not the else-branch of `%s < len(curves)`" % counter)
        # the new curve holds this column
        news = [c for c in ast.walk(loop) if isinstance(c, ast.Call) and isinstance(c.func, ast.Name) and c.func.id == "CurveItem"]
        for c in news:
            d = next((k.value for k in c.keywords if k.arg == "data"), c.args[4] if len(c.args) > 4 else None)
            if not (isinstance(d, ast.Name) and d.id == arr):
                problems.append("the extra curve is created with data `%s`, not the column" % (unparse(d) if d is not None else None))
    # bookkeeping dict: initialised per section, keyed by counter, NaN fill of the common length
    book = None
    for s in ast.walk(loop):
        if isinstance(s, ast.Assign) and len(s.targets) == 1 and isinstance(s.targets[0], ast.Subscript) \
                and isinstance(s.targets[0].slice, ast.Name) and s.targets[0].slice.id == counter \
                and isinstance(s.value, ast.Constant) and s.value.value is True:
            book = ast.unparse(s.targets[0].value)
    undecided_book = None
    if book is None:
        # second recognised form: the number of columns assigned is kept (`n = <counter> + 1` once per column, 0 before the loop)
        # and the fill runs over range(n, <number of declared curves>)
        fills = [s for s in walk_shallow(fr.node) if isinstance(s, ast.Assign) and any(isinstance(t, ast.Attribute) and t.attr == "data" for t in s.targets)
                 and not in_block(s, loop.body) and "nan" in ast.unparse(s.value).lower() and (sect_loop is None or in_block(s, sect_loop.body))]
        if not fills:
            problems.append("declared curves without a column are no longer filled with NaN")
        for s in fills:
            fl = enclosing(s, (ast.For,))
            rng = fl.iter if fl is not None and isinstance(fl.iter, ast.Call) and isinstance(fl.iter.func, ast.Name) and fl.iter.func.id == "range" \
                and len(fl.iter.args) == 2 and isinstance(fl.target, ast.Name) else None
            if rng is None or not isinstance(rng.args[0], ast.Name):
                undecided_book = "the NaN fill of curves without a column is neither driven by a {index: assigned?} record nor by " \
                                 "range(<columns assigned>, <curves declared>)"
                continue
            nvar = rng.args[0].id
            nsets = [a for a in walk_shallow(fr.node) if isinstance(a, (ast.Assign, ast.AugAssign)) and any(
                isinstance(t, ast.Name) and t.id == nvar for t in (a.targets if isinstance(a, ast.Assign) else [a.target]))]
            inloop = [a for a in nsets if in_block(a, loop.body)]
            before = [a for a in nsets if not in_block(a, loop.body)]
            ok_in = bool(inloop) and all(a in loop.body and ((isinstance(a, ast.Assign) and ast.unparse(a.value) in ("%s + 1" % counter, "1 + %s" % counter))
                                                             or (isinstance(a, ast.AugAssign) and isinstance(a.op, ast.Add) and ast.unparse(a.value) == "1"))
                                         for a in inloop) and len(inloop) == 1
            if nvar == counter and not enum:
                ok_in = True      # the manual counter itself: after the loop it is the number of columns
                before = [a for a in before if not (isinstance(a, ast.Assign) and isinstance(a.value, ast.Constant) and a.value.value == 0)] or before
            ok_before = bool(before) and all(isinstance(a, ast.Assign) and isinstance(a.value, ast.Constant) and a.value.value == 0
                                             and (sect_loop is None or in_block(a, sect_loop.body)) for a in before)
            if not ok_in:
                problems.append("`%s`, the lower bound of the NaN fill, is not the number of columns assigned (<column index> + 1 once "
                                "per column)" % nvar)
            if not ok_before:
                problems.append("`%s`, the number of columns assigned, is not reset to 0 for every data section" % nvar)
            ub = rng.args[1]
            ubv = ub
            if isinstance(ub, ast.Name):
                ubd = [a.value for a in walk_shallow(fr.node) if isinstance(a, ast.Assign) and any(isinstance(t, ast.Name) and t.id == ub.id for t in a.targets)]
                ubv = ubd[0] if len(ubd) == 1 else None
            if not (ubv is not None and ast.unparse(ubv).startswith("len(") and ast.unparse(ubv).endswith("curves)")):
                problems.append("the NaN fill does not run up to the number of declared curves (`%s`)" % unparse(ub))
            t0 = s.targets[0]
            if not (isinstance(t0.value, ast.Subscript) and isinstance(t0.value.slice, ast.Name) and t0.value.slice.id == fl.target.id
                    and ast.unparse(t0.value.value).endswith("curves")):
                problems.append("the NaN fill stores into `%s`, not curves[<index without a column>]" % unparse(t0))
            lens = [n.id for n in ast.walk(s.value) if isinstance(n, ast.Name)]
            lenvars = {t.id for a in ast.walk(loop) if isinstance(a, ast.Assign) and isinstance(a.value, ast.Call)
                       and isinstance(a.value.func, ast.Name) and a.value.func.id == "len" and a.value.args
                       and isinstance(a.value.args[0], ast.Name) and a.value.args[0].id == arr
                       for t in a.targets if isinstance(t, ast.Name)}
            if not (set(lens) & lenvars):
                problems.append("the NaN fill length `%s` is not the length of the columns read" % unparse(s.value))
    else:
        binit = [s for s in walk_shallow(fr.node) if isinstance(s, ast.Assign) and any(ast.unparse(t) == book for t in s.targets)]
        if not binit or not all(sect_loop is None or in_block(s, sect_loop.body) for s in binit):
            problems.append("the record of assigned columns (`%s`) is not rebuilt for every data section: with several "
                            "data sections a curve that got data earlier is never NaN-filled to the new length" % book)
        else:
            v = binit[0].value
            fromkeys = (isinstance(v, ast.Call) and ast.unparse(v.func) == "dict.fromkeys" and len(v.args) == 2
                        and "range(len(" in ast.unparse(v.args[0]) and isinstance(v.args[1], ast.Constant) and v.args[1].value is False)
            if not fromkeys and not (isinstance(v, ast.DictComp) and "False" in ast.unparse(v.value) and "range(len(" in ast.unparse(v)):
                problems.append("the record of assigned columns is initialised as `%s`, expected {index: False for every "
                                "declared curve}" % unparse(v))
        # NaN fill loop
        fills = [s for s in walk_shallow(fr.node) if isinstance(s, ast.Assign) and any(isinstance(t, ast.Attribute) and t.attr == "data" for t in s.targets)
                 and not in_block(s, loop.body) and "nan" in ast.unparse(s.value).lower() and (sect_loop is None or in_block(s, sect_loop.body))]
        if not fills:
            problems.append("declared curves without a column are no longer filled with NaN")
        for s in fills:
            fl = enclosing(s, (ast.For,))
            iff = enclosing(s, (ast.If,))
            if fl is None or book not in ast.unparse(fl.iter):
                problems.append("the NaN fill does not iterate over the record of assigned columns")
            restricted = iff is not None and "False" in ast.unparse(iff.test)
            if not restricted and fl is not None and isinstance(fl.target, ast.Tuple) and len(fl.target.elts) == 2 and isinstance(fl.target.elts[1], ast.Name):
                # guard-clause form: `if <flag>: continue` before the fill, <flag> being the value variable of the loop
                flag = fl.target.elts[1].id
                for st in fl.body:
                    if st is s or any(x is s for x in ast.walk(st)):
                        break
                    if isinstance(st, ast.If) and not st.orelse and len(st.body) == 1 and isinstance(st.body[0], ast.Continue):
                        t = st.test
                        if (isinstance(t, ast.Name) and t.id == flag) or ast.unparse(t) in ("%s is True" % flag, "%s is not False" % flag):
                            restricted = True
            if not restricted:
                problems.append("the NaN fill is not restricted to curves that received no column")
            lens = [n.id for n in ast.walk(s.value) if isinstance(n, ast.Name)]
            # common length variable: assigned len(<column>) in the loop
            lenvars = {t.id for a in ast.walk(loop) if isinstance(a, ast.Assign) and isinstance(a.value, ast.Call)
                       and isinstance(a.value.func, ast.Name) and a.value.func.id == "len" and a.value.args
                       and isinstance(a.value.args[0], ast.Name) and a.value.args[0].id == arr
                       for t in a.targets if isinstance(t, ast.Name)}
            if not (set(lens) & lenvars):
                problems.append("the NaN fill length `%s` is not the length of the columns read" % unparse(s.value))
    if undecided_book and not problems:
        ctx.undecided("DATA.COUNTER", site, fr, loop, undecided_book)
    elif problems:
        for m in dict.fromkeys(problems):
            ctx.bad("DATA.COUNTER", site, fr, loop, m)
    else:
        ctx.ok("DATA.COUNTER", site, fr, loop, "counter 0-based, +1 once per column, reset per data section; column i -> "
               "curves[i] under i < len(curves), else appended CurveItem(data=column); bookkeeping rebuilt per section; "
               "NaN fill of the common length for unassigned curves")
    ctx.floor("DATA.COUNTER", 1)


def _is_bound_test(t, counter):
    return (isinstance(t, ast.Compare) and len(t.ops) == 1 and isinstance(t.ops[0], ast.Lt) and isinstance(t.left, ast.Name)
            and t.left.id == counter and isinstance(t.comparators[0], ast.Call) and ast.unparse(t.comparators[0]).startswith("len(")
            and ast.unparse(t.comparators[0]).endswith("curves)"))


# ------------------------------------------------------------------------------------------------ DATA.WRAP-COUNT

def _wrap_var(fr):
    for sub in walk_shallow(fr.node):
        if isinstance(sub, ast.Assign) and len(sub.targets) == 1 and isinstance(sub.targets[0], ast.Name):
            v = sub.value
            if isinstance(v, ast.Attribute) and v.attr == "value":
                b = v.value
                if (isinstance(b, ast.Attribute) and b.attr == "WRAP") or (
                        isinstance(b, ast.Subscript) and isinstance(b.slice, ast.Constant) and b.slice.value == "WRAP"):
                    if _is_temp(sub.targets[0].id):
                        continue       # a temporary of an expanded helper: the value lives on in some other form (a record field ...)
                    return sub.targets[0].id
    return None


def _is_temp(name):
    import re as _re
    return bool(_re.match(r"^(__ret_\w+|__lr\w*|\w+__[A-Za-z_]+\d+)$", name))


def rule_wrap_count(ctx):
    p = ctx.p
    r = get_resolver(p)
    fr = host_data(p)
    cfg = build_cfg(p, fr)
    wv = _wrap_var(fr)
    if wv is None:
        ctx.undecided("DATA.WRAP-COUNT", READ + "#n_columns", fr, fr.node, "the ~Version WRAP value is not held in a plain variable "
                      "(`x = <items>.WRAP.value`)")
        return
    # engine calls and the variable passed as n_columns
    calls = []
    for node in cfg.nodes:
        if node.ast is None or node.kind != "stmt":
            continue
        for c in walk_expr_shallow(node.ast):
            if isinstance(c, ast.Call) and any(t.qual == NORMAL for t in r.callees(fr, c)[0]):
                ncol = next((k.value for k in c.keywords if k.arg == "n_columns"), c.args[5] if len(c.args) > 5 else None)
                calls.append((node.id, c, ncol))
    if not calls:
        raise AnalysisError("LASFile.read never calls the reference engine")
    sniff_nodes = {}
    for node in cfg.nodes:
        if node.ast is None or node.kind != "stmt":
            continue
        for c in walk_expr_shallow(node.ast):
            if isinstance(c, ast.Call) and any(t.qual == SNIFF for t in r.callees(fr, c)[0]):
                if isinstance(node.ast, ast.Assign):
                    sniff_nodes[node.id] = target_names(node.ast.targets[0])[:1]
    ncvars = {ast.unparse(n) for _, _, n in calls if n is not None}
    if len(ncvars) != 1:
        raise AnalysisError("reference engine is called with different n_columns expressions: %s" % sorted(ncvars))
    ncvar = ncvars.pop()
    # facts: which kind of value does each tracked variable hold: 'sniffed' / 'declared' / 'other'
    tracked = set([ncvar])
    for names in sniff_nodes.values():
        tracked |= set(names)

    def transfer(node, consts, facts, lab):
        f = dict(facts)
        a = node.ast
        if node.kind == "stmt" and isinstance(a, ast.Assign):
            if node.id in sniff_nodes:
                for nm in sniff_nodes[node.id]:
                    f[nm] = "sniffed"
                for nm in target_names(a.targets[0])[1:]:
                    f.pop(nm, None)
            else:
                for t in a.targets:
                    for nm in target_names(t):
                        if isinstance(a.value, ast.Name) and a.value.id in f:
                            f[nm] = f[a.value.id]
                        elif isinstance(a.value, ast.Call) and ast.unparse(a.value).startswith("len(") and "curves" in ast.unparse(a.value):
                            f[nm] = "declared"
                        elif nm in f or nm in tracked:
                            f[nm] = "other"
        return frozenset(f.items())

    seen, prev = explore(cfg, frozenset(), transfer,
                         assume={"%s == 'YES'" % wv: True, "%s != 'YES'" % wv: False,
                                 "len(self.curves) > 0": True, "len(self.curves) == 0": False, "self.curves": True,
                                 "len(self.curves)": True})
    for nid, c, ncol in calls:
        site = "%s#n_columns@%d" % (READ, sorted(x[0] for x in calls).index(nid) + 1)
        bad_state = None
        for (cf, facts) in seen.get(nid, ()):
            if dict(facts).get(ncvar) == "sniffed":
                bad_state = (nid, cf, facts)
                break
        if nid not in seen:
            ctx.ok("DATA.WRAP-COUNT", site, fr, c, "engine call not reachable for a wrapped file", nontrivial=False)
            continue
        if bad_state:
            pth = witness(prev, bad_state)
            tail = [x for x in pth if x in sniff_nodes or x == nid or cfg.nodes[x].kind == "test"][-8:]
            ctx.bad("DATA.WRAP-COUNT", site, fr, c,
                    "for a wrapped file (WRAP == YES, curves declared) the per-line value count sniffed by "
                    "inspect_data_section can reach the reader as n_columns: a file whose wrapped lines all carry the "
                    "same number of values is reshaped to that width", cfg.describe_path(tail))
        else:
            ctx.ok("DATA.WRAP-COUNT", site, fr, c, "under WRAP == YES with declared curves, n_columns is never the sniffed "
                   "per-line count on any path (explicit-state search, %d states at the call)" % len(seen[nid]))
    # sibling agreement: every predicate on the wrap variable is the same predicate of its value
    preds = []
    for sub in walk_shallow(fr.node):
        if isinstance(sub, ast.Compare) and any(isinstance(n, ast.Name) and n.id == wv for n in ast.walk(sub)):
            free = {n.id for n in ast.walk(sub) if isinstance(n, ast.Name)}
            if free == {wv}:
                preds.append(sub)
    tables = {}
    for pr in preds:
        row = []
        for w in ("YES", "NO", "No", "yes", "Yes", "N", "Y", "", "TRUE"):
            try:
                row.append(bool(fold(pr, lambda n, w=w: w if n == wv else (_ for _ in ()).throw(NotConst(n)))))
            except NotConst:
                row.append(None)
        tables[ast.unparse(pr)] = tuple(row)
    distinct = set(tables.values())
    ctx.check(len(distinct) <= 1, "DATA.WRAP-COUNT", READ + "#wrap-predicates", fr, preds[0] if preds else fr.node,
              "all %d tests on the WRAP value decide 'wrapped' identically" % len(preds),
              "the tests on the WRAP value disagree about which values mean 'wrapped' (%s): engine selection and column "
              "count can treat the same file differently" % "; ".join("%s" % k for k in tables))
    ctx.floor("DATA.WRAP-COUNT", 2)


# ------------------------------------------------------------------------------------------------ DATA.SAMPLE-REL

def rule_sample_window(ctx):
    """DATA.SAMPLE-REL: the size of the sample the sniffer looks at is counted from the start of the data section.  A limit test
    that compares a quantity derived from the section's *absolute* line number (the `line_nos` argument) with a constant makes the
    sample - and with it the column count and the run-on-hyphen decision - depend on how many lines precede the section."""
    p = ctx.p
    fs = p.func(SNIFF)
    params = fs.params()
    pos = [x for x in params if "line" in x and x != "line_splitter"]
    if not pos:
        ctx.undecided("DATA.SAMPLE-REL", SNIFF + "#sample-limit", fs, fs.node, "the sniffer takes no line-number argument")
        return
    tainted = set(pos)
    for _ in range(4):
        for sub in walk_shallow(fs.node):
            tg, val = None, None
            if isinstance(sub, ast.Assign) and len(sub.targets) == 1:
                tg, val = sub.targets[0], sub.value
            elif isinstance(sub, ast.AugAssign):
                tg, val = sub.target, sub.value
            elif isinstance(sub, ast.For) and isinstance(sub.iter, ast.Call) and isinstance(sub.iter.func, ast.Name) and sub.iter.func.id == "enumerate":
                start = sub.iter.args[1] if len(sub.iter.args) > 1 else next((k.value for k in sub.iter.keywords if k.arg == "start"), None)
                if start is not None and isinstance(sub.target, ast.Tuple) and sub.target.elts:
                    tg, val = sub.target.elts[0], start
            if tg is None or val is None:
                continue
            if _absolute(val, tainted):
                tainted |= set(target_names(tg))
    n = 0
    for sub in walk_shallow(fs.node):
        if not isinstance(sub, ast.If) or not any(isinstance(x, ast.Break) for st in sub.body + sub.orelse for x in ast.walk(st)):
            continue
        for atom in ast.walk(sub.test):
            if not (isinstance(atom, ast.Compare) and len(atom.ops) == 1 and isinstance(atom.ops[0], (ast.Gt, ast.GtE, ast.Lt, ast.LtE, ast.Eq))):
                continue
            sides = [atom.left, atom.comparators[0]]
            consts = [x for x in sides if isinstance(x, ast.Constant) and isinstance(x.value, (int, float)) and not isinstance(x.value, bool)]
            if len(consts) != 1:
                continue
            other = sides[1] if sides[0] is consts[0] else sides[0]
            n += 1
            site = "%s#sample-limit(%s)" % (SNIFF, unparse(atom, 40))
            if _absolute(other, tainted):
                ctx.bad("DATA.SAMPLE-REL", site, fs, atom, "`%s` compares a line number of the *file* with the sample size %r: how many "
                        "lines of the data section are sampled (column count, run-on hyphen decision) depends on the number of lines "
                        "in front of the section" % (unparse(atom), consts[0].value))
            else:
                ctx.ok("DATA.SAMPLE-REL", site, fs, atom, "the sample limit is tested on a count relative to the section start")
    if n == 0:
        ctx.undecided("DATA.SAMPLE-REL", SNIFF + "#sample-limit", fs, fs.node, "no `<count> >= <constant>` limit test with a break found in the sniffer")
    ctx.floor("DATA.SAMPLE-REL", 1)


def _absolute(e, tainted):
    """does the value of e move with the absolute position of the section?  (a difference of two absolute quantities does not)"""
    if isinstance(e, ast.Name):
        return e.id in tainted
    if isinstance(e, ast.Subscript):
        return _absolute(e.value, tainted)
    if isinstance(e, ast.BinOp) and isinstance(e.op, ast.Sub):
        return _absolute(e.left, tainted) != _absolute(e.right, tainted)
    if isinstance(e, ast.BinOp) and isinstance(e.op, ast.Add):
        return _absolute(e.left, tainted) or _absolute(e.right, tainted)
    if isinstance(e, ast.Call) and isinstance(e.func, ast.Name) and e.func.id in ("int", "min", "max", "abs"):
        return any(_absolute(a, tainted) for a in e.args)
    return False


# ------------------------------------------------------------------------------------------------ DATA.SPLIT-GUARD

def rule_splitter_guard(ctx):
    """DATA.SPLIT-GUARD: a splitter of the table returns items for the empty string (`"".split(",") == [""]`), so no path may hand
    an empty line to the line splitter: every call `<..splitter..>(line)` in the reader is blocked for line == "" by one of the
    tests it is control-dependent on."""
    p = ctx.p
    env = module_env(p, "reader")
    ff, entries, table = _splitter_table(p)
    needed = None
    if table is not None:
        for key, (k, v, fn) in sorted(entries.items()):
            if fn is None or isinstance(fn.node, ast.Lambda):
                continue
            rets = [s_.value for s_ in walk_shallow(fn.node) if isinstance(s_, ast.Return) and s_.value is not None]
            prm = fn.params()
            if len(rets) != 1 or len(prm) != 1:
                continue
            try:
                out = fold(rets[0], lambda n_, prm=prm: "" if n_ == prm[0] else env(n_))
            except NotConst:
                continue
            except Exception:  # noqa - outside the folder
                continue
            if isinstance(out, (list, tuple)) and len(out) > 0:
                needed = key
    if needed is None:
        ctx.ok("DATA.SPLIT-GUARD", "reader.define_line_splitter#empty-line", ff, ff.node,
               "no splitter of the table is known to return items for an empty line: no guard required", nontrivial=False)
        return

    def blocked(t, pol, var):
        if isinstance(t, ast.BoolOp) and ((isinstance(t.op, ast.And) and pol) or (isinstance(t.op, ast.Or) and not pol)):
            return any(blocked(v_, pol, var) for v_ in t.values)
        if isinstance(t, ast.UnaryOp) and isinstance(t.op, ast.Not):
            return blocked(t.operand, not pol, var)
        try:
            val = fold(t, lambda n_: "" if n_ == var else (_ for _ in ()).throw(NotConst(n_)))
        except NotConst:
            return False
        except Exception:  # noqa
            return False
        return bool(val) != pol
    n = 0
    for q, fi in sorted(p.functions.items()):
        if fi.module.name != "reader" or isinstance(fi.node, ast.Lambda):
            continue
        calls = [c for c in walk_shallow(fi.node) if isinstance(c, ast.Call) and len(c.args) == 1 and isinstance(c.args[0], ast.Name)
                 and not c.keywords and "splitter" in (c.func.id if isinstance(c.func, ast.Name) else c.func.attr if isinstance(c.func, ast.Attribute) else "")
                 and "define" not in ast.unparse(c.func)]
        if not calls:
            continue
        cfg = build_cfg(p, fi)
        cd = ControlDependence(cfg)
        for c in calls:
            var = c.args[0].id
            st = c
            while not isinstance(st, ast.stmt):
                st = st._parent
            nids = cfg.nodes_for(st)
            if not nids:
                continue
            n += 1
            site = "%s#splitter-call(%s)" % (q, var)
            ok = False
            for (tn, lab) in cd.transitive(nids[0]):
                if cfg.nodes[tn].kind == "test" and blocked(cfg.nodes[tn].ast, lab.startswith("true"), var):
                    ok = True
            ctx.check(ok, "DATA.SPLIT-GUARD", site, fi, c, "`%s` is not reached with an empty line" % unparse(c),
                      "`%s` can be reached with an empty line (no test on the way excludes %s == \"\"): the %s splitter returns "
                      "an item for it, so a blank line inside a %s-delimited data section adds a phantom value and shifts what follows"
                      % (unparse(c), var, needed, needed))
    ctx.floor("DATA.SPLIT-GUARD", 2)


# ------------------------------------------------------------------------------------------------ DATA.SINGLE-PASS

def rule_single_pass(ctx):
    """DATA.SINGLE-PASS: the reference engine hands out its columns through a generator.  Once an iterator `it = iter(g)` has been
    made over it, every consumer must go through `it`: iterating g itself again (a second `for`, an `islice(g, n, None)`) starts
    from wherever `it` stopped for a generator and from the beginning for an array - the two engines then bind different
    columns to the same curve."""
    p = ctx.p
    engines = {"read_data_section_iterative_normal_engine", "read_data_section_iterative_numpy_engine"}
    n = 0
    for fr in read_family(p):
        srcs = set()
        for a_ in walk_shallow(fr.node):
            if isinstance(a_, ast.Assign) and len(a_.targets) == 1 and isinstance(a_.targets[0], ast.Name) and isinstance(a_.value, ast.Call) \
                    and ast.unparse(a_.value.func).split(".")[-1] in engines:
                srcs.add(a_.targets[0].id)
        if not srcs:
            continue
        iters = {}      # iterator name -> source name
        for a_ in walk_shallow(fr.node):
            if isinstance(a_, ast.Assign) and len(a_.targets) == 1 and isinstance(a_.targets[0], ast.Name) and isinstance(a_.value, ast.Call) \
                    and isinstance(a_.value.func, ast.Name) and a_.value.func.id == "iter" and len(a_.value.args) == 1 \
                    and isinstance(a_.value.args[0], ast.Name) and a_.value.args[0].id in srcs:
                iters[a_.targets[0].id] = a_.value.args[0].id

        def consumed_names(e):
            while isinstance(e, ast.Call) and e.args and ast.unparse(e.func).split(".")[-1] in ("enumerate", "islice", "zip", "list", "tuple", "reversed"):
                e = e.args[0]
            return e.id if isinstance(e, ast.Name) else None
        direct = []
        for sub in walk_shallow(fr.node):
            its = [sub.iter] if isinstance(sub, ast.For) else ([g.iter for g in sub.generators] if isinstance(
                sub, (ast.ListComp, ast.SetComp, ast.GeneratorExp, ast.DictComp)) else [])
            for it in its:
                nm = consumed_names(it)
                if nm in srcs:
                    direct.append((sub, nm))
        n += 1
        site = "%s#columns-consumers" % fr.qual
        both = [(sub, nm) for sub, nm in direct if nm in iters.values()]
        if both:
            ctx.bad("DATA.SINGLE-PASS", site, fr, both[0][0], "`%s` is consumed through the iterator `%s` and iterated directly as well (`%s`): for the "
                    "reference engine's generator the second consumer starts where the iterator stopped, for the fast engine's array "
                    "at the first column - surplus columns are dropped or shifted with one engine only" % (
                        both[0][1], next(k for k, v in iters.items() if v == both[0][1]),
                        unparse(both[0][0].iter if isinstance(both[0][0], ast.For) else both[0][0])))
        else:
            ctx.ok("DATA.SINGLE-PASS", site, fr, fr.node, "the engine's result has one kind of consumer (%d direct loop(s), %d iterator(s))"
                   % (len(direct), len(iters)))
    if n == 0:
        ctx.undecided("DATA.SINGLE-PASS", READ + "#columns-consumers", p.func(READ), p.func(READ).node, "no variable bound to an engine call found")
    ctx.floor("DATA.SINGLE-PASS", 0)


# ------------------------------------------------------------------------------------------------ DATA.TOKENIZER / TRIM

def rule_tokenizer(ctx):
    p = ctx.p
    r = get_resolver(p)
    fs = p.func(SNIFF)
    cfg = build_cfg(p, fs)
    prov = Provenance(cfg)
    sp = [x for x in fs.params() if "split" in x]
    site = SNIFF + "#token-count"
    if not sp:
        ctx.bad("DATA.TOKENIZER", site, fs, fs.node, "the column sniffer takes no line splitter: it cannot count columns "
                "the way the reader splits them (DLM COMMA/TAB files are mis-shaped)")
    else:
        spn = sp[0]
        # the appended count derives from a call of the splitter parameter
        apps = [n for n in cfg.nodes if n.kind == "stmt" and any(
            isinstance(c, ast.Call) and isinstance(c.func, ast.Attribute) and c.func.attr == "append" for c in walk_expr_shallow(n.ast))]
        ok = False
        other = set()
        for n in apps:
            for c in walk_expr_shallow(n.ast):
                if isinstance(c, ast.Call) and isinstance(c.func, ast.Attribute) and c.func.attr == "append" and c.args:
                    atoms = prov.atoms(c.args[0], n.id)
                    cn = {a[1] for a in atoms if a[0] == "callname"}
                    if "len" in cn:
                        if spn in cn:
                            ok = True
                        other |= cn & {"findall", "split"}
        ctx.check(ok and not (other - {spn}), "DATA.TOKENIZER", site, fs, fs.node,
                  "the per-line item count is len(<%s>(line)): the reader's own splitter" % spn,
                  "the per-line item count does not come from the `%s` argument (%s): sniffer and reader tokenise "
                  "differently" % (spn, sorted(other) or "no splitter call"))
        # default when None: the SPACE splitter from the factory
        dflt = [s for s in walk_shallow(fs.node) if isinstance(s, ast.Assign) and any(isinstance(t, ast.Name) and t.id == spn for t in s.targets)]
        for s in dflt:
            okd = isinstance(s.value, ast.Call) and "define_line_splitter" in ast.unparse(s.value.func)
            ctx.check(okd, "DATA.TOKENIZER", SNIFF + "#default-splitter", fs, s,
                      "fallback splitter comes from define_line_splitter",
                      "fallback splitter `%s` is not produced by define_line_splitter" % unparse(s.value))
    # call sites in read(): same splitter object as the reference engine
    fr = host_data(p)
    eng_args, sniff_args = set(), []
    for sub in walk_shallow(fr.node):
        if isinstance(sub, ast.Call):
            tg = r.callees(fr, sub)[0]
            if any(t.qual == NORMAL for t in tg):
                a = next((k.value for k in sub.keywords if k.arg == "line_splitter"), sub.args[7] if len(sub.args) > 7 else None)
                eng_args.add(ast.unparse(a) if a is not None else None)
            if any(t.qual == SNIFF for t in tg):
                a = next((k.value for k in sub.keywords if k.arg == "line_splitter"), sub.args[4] if len(sub.args) > 4 else None)
                sniff_args.append((sub, ast.unparse(a) if a is not None else None))
    for i, (call, a) in enumerate(sniff_args):
        ctx.check(a is not None and {a} == eng_args, "DATA.TOKENIZER", "%s#sniff-call@%d" % (READ, i + 1), fr, call,
                  "inspect_data_section receives the same splitter (`%s`) as the reference engine" % a,
                  "inspect_data_section is called with line_splitter=%s while the reference engine gets %s" % (a, sorted(map(str, eng_args))))
    # the splitter variable comes from define_line_splitter(<DLM steering value>)
    for nm in eng_args:
        if nm is None:
            continue
        defs = [s for s in walk_shallow(fr.node) if isinstance(s, ast.Assign) and any(isinstance(t, ast.Name) and t.id == nm for t in s.targets)]
        ok = defs and all(isinstance(s.value, ast.Call) and "define_line_splitter" in ast.unparse(s.value.func) for s in defs)
        ctx.check(bool(ok), "DATA.TOKENIZER", READ + "#splitter-source", fr, defs[0] if defs else fr.node,
                  "the splitter is define_line_splitter(<~Version DLM>)", "the splitter `%s` is not produced by define_line_splitter" % nm)
    ctx.floor("DATA.TOKENIZER", 3)


def rule_split(ctx):
    """vocabulary / positional part of the splitter table (DATA.SPLIT) without the trimming verdicts"""
    rule_trim(ctx, trim=False)


def _splitter_table(p):
    """(define_line_splitter, {key: (key node, FuncInfo or None)}, table node) - the {delimiter name: splitter} dict, local to
    define_line_splitter or a module-level dict it references; None when there is no such table"""
    ff = p.func("reader.define_line_splitter")

    def is_table(d):
        return isinstance(d, ast.Dict) and d.keys and all(isinstance(k, ast.Constant) and isinstance(k.value, str) for k in d.keys) \
            and all(isinstance(v, (ast.Name, ast.Lambda)) or (isinstance(v, ast.Attribute) and v.attr == "findall") for v in d.values)
    table = None
    for sub in walk_shallow(ff.node):
        if is_table(sub):
            table = sub
    if table is None:
        used = {x.id for x in ast.walk(ff.node) if isinstance(x, ast.Name)}
        for nm, vals in ff.module.globals.items():
            if nm in used and len(vals) == 1 and is_table(vals[0]):
                table = vals[0]
    if table is None:
        return ff, None, None
    out = {}
    for k, v in zip(table.keys, table.values):
        if isinstance(v, ast.Name):
            fn = ff.nested.get(v.id) or ff.module.functions.get(v.id)
        elif isinstance(v, ast.Attribute):
            fn = None       # `<regex>.findall` stored as the splitter: handled by the caller
        else:
            fn = getattr(v, "_lambda_info", None) or next((f for f in p.functions.values() if f.node is v), None)
        out[k.value] = (k, v, fn)
    return ff, out, table


def rule_trim(ctx, trim=True):
    p = ctx.p
    env = module_env(p, "reader")
    ff, entries, table = _splitter_table(p)
    if table is None:
        ctx.undecided("DATA.SPLIT", "reader.define_line_splitter#vocabulary", ff, ff.node,
                      "no {delimiter name: splitter function} table found in or referenced from define_line_splitter")
        return
    # the splitter is chosen by the DLM value exactly as given (read() compares that value exactly when it picks its policies)
    dparam = ff.params()[0]
    NORMS = ("upper", "lower", "casefold", "strip", "lstrip", "rstrip", "title", "capitalize", "startswith")
    # normalisations applied to the DLM value before the table lookup (through locals derived from the parameter)
    derived_ = {dparam}
    for _ in range(3):
        for a_ in walk_shallow(ff.node):
            if isinstance(a_, ast.Assign) and len(a_.targets) == 1 and isinstance(a_.targets[0], ast.Name) \
                    and any(isinstance(x, ast.Name) and x.id in derived_ for x in ast.walk(a_.value)):
                derived_.add(a_.targets[0].id)
    lnorm = sorted({c.func.attr for a_ in walk_shallow(ff.node) if isinstance(a_, ast.Assign) and any(
        isinstance(t, ast.Name) and t.id in derived_ for t in a_.targets) for c in ast.walk(a_.value)
        if isinstance(c, ast.Call) and isinstance(c.func, ast.Attribute) and c.func.attr in NORMS} | {
        c.func.attr for r_ in walk_shallow(ff.node) if isinstance(r_, ast.Return) and r_.value is not None for c in ast.walk(r_.value)
        if isinstance(c, ast.Call) and isinstance(c.func, ast.Attribute) and c.func.attr in NORMS})
    # normalisations applied where read() compares the DLM value with a delimiter name
    rd_fi = host_data(p)
    dl_vars = {s_.targets[0].id for s_ in walk_shallow(rd_fi.node) if isinstance(s_, ast.Assign) and len(s_.targets) == 1
               and isinstance(s_.targets[0], ast.Name) and "DLM" in ast.unparse(s_.value)} | {
        a.id for c in walk_shallow(rd_fi.node) if isinstance(c, ast.Call) and "define_line_splitter" in ast.unparse(c.func)
        for a in c.args if isinstance(a, ast.Name)}
    rnorm = sorted({c.func.attr for t_ in ast.walk(rd_fi.node) if isinstance(t_, ast.Compare)
                    and any(isinstance(x, ast.Name) and x.id in dl_vars for x in ast.walk(t_))
                    and any(isinstance(k, ast.Constant) and k.value in ("COMMA", "TAB", "SPACE") for k in ast.walk(t_))
                    for c in ast.walk(t_) if isinstance(c, ast.Call) and isinstance(c.func, ast.Attribute) and c.func.attr in NORMS})
    ctx.check(lnorm == rnorm, "DATA.SPLIT", "reader.define_line_splitter#lookup", ff, ff.node,
              "the DLM value selects the splitter and the read policies under the same normalisation (%s)" % (lnorm or "none"),
              "the splitter is looked up with the DLM value normalised by %s while LASFile.read compares it with the delimiter names %s: "
              "e.g. `DLM. Comma` is split on commas but still gets the comma-decimal-mark substitution meant for other delimiters"
              % (lnorm or "nothing", ("normalised by %s" % rnorm) if rnorm else "exactly"))
    keys = [k.value for k in table.keys]
    ctx.check(set(keys) == {"SPACE", "COMMA", "TAB"}, "DATA.SPLIT", "reader.define_line_splitter#vocabulary", ff, table,
              "splitter keys == the DLM vocabulary {SPACE, COMMA, TAB}",
              "splitter keys %s differ from the DLM vocabulary {SPACE, COMMA, TAB}" % sorted(keys))
    # local regex constants
    local = {}
    for sub in walk_shallow(ff.node):
        if isinstance(sub, ast.Assign) and len(sub.targets) == 1 and isinstance(sub.targets[0], ast.Name):
            try:
                local[sub.targets[0].id] = fold(sub.value, env)
            except NotConst:
                pass
    for k, v in zip(table.keys, table.values):
        key = k.value
        site = "reader.define_line_splitter#%s" % key
        fn = entries[key][2]
        if fn is None and isinstance(v, ast.Attribute) and v.attr == "findall":
            # the bound method `<regex>.findall` is the splitter: the same as a function returning <regex>.findall(line)
            fn = ff
            rets = [ast.fix_missing_locations(ast.copy_location(ast.Call(func=v, args=[ast.Name(id="line", ctx=ast.Load())], keywords=[]), v))]
        elif fn is None:
            ctx.undecided("DATA.SPLIT", site, ff, v, "splitter %s is not a function defined in lasio/reader.py" % key)
            continue
        else:
            rets = [s.value for s in walk_shallow(fn.node) if isinstance(s, ast.Return)] if not isinstance(fn.node, ast.Lambda) else [fn.node.body]
        if len(rets) != 1:
            # several ways to split one kind of line (a "fast path"): every one of them must satisfy the clauses below; that is
            # decided for the first form that does not
            worst = None
            for cand in rets:
                tr_, why_, pos_ = _tokens_trimmed(cand, local, env)
                merged_ = isinstance(cand, ast.Call) and isinstance(cand.func, ast.Attribute) and cand.func.attr == "findall"
                if (key in ("SPACE", "TAB") and not merged_) or (key == "COMMA" and not pos_):
                    worst = cand
            ret = worst if worst is not None else rets[0]
        else:
            ret = rets[0]
        trimmed, why, positional = _tokens_trimmed(ret, local, env)
        if key in ("SPACE", "TAB"):
            merged = isinstance(ret, ast.Call) and isinstance(ret.func, ast.Attribute) and ret.func.attr == "findall"
            ctx.check(merged, "DATA.SPLIT", site + ":runs", fn, ret,
                      "%s splitting treats a run of delimiters as one separator (regex tokens are non-empty), as the fast "
                      "engine does" % key,
                      "the %s splitter is `%s`: consecutive delimiters yield empty tokens (phantom columns), whereas the fast "
                      "engine treats any run of blanks/tabs as one separator" % (key, unparse(ret)))
            if merged:
                # an empty quoted cell ("" or '') is an item: a cell that is skipped shifts every later value of the line one column left
                try:
                    rgx_ = fold(ret.func.value, lambda n: local[n] if n in local else env(n))
                except (NotConst, KeyError):
                    rgx_ = None
                if isinstance(rgx_, Regex) and ("\"" in rgx_.pattern or "'" in rgx_.pattern):
                    missing = []
                    for q_ in ("\"", "'"):
                        if q_ not in rgx_.pattern:
                            continue
                        try:
                            inc = rx.included(rx.DFA(re.escape(q_ * 2), 0), rx.DFA(rgx_.pattern, rgx_.flags))[0]
                        except Exception:  # noqa - construct outside the DFA builder
                            inc = None
                        if inc is False:
                            missing.append(q_ * 2)
                    ctx.check(not missing, "DATA.SPLIT", site + ":empty-quoted", fn, ret,
                              "an empty quoted cell is one item of the %s splitter" % key,
                              "the %s item pattern /%s/ does not accept the empty quoted cell %s: it is skipped (or its quote pairs up "
                              "with a later one) and the remaining values of the line move one column to the left" % (
                                  key, rgx_.pattern, " or ".join(missing)))
        if key == "COMMA":
            ctx.check(positional, "DATA.SPLIT", site + ":positional", fn, ret,
                      "COMMA splitting is positional: every field, empty ones included, keeps its column",
                      "the COMMA splitter drops or merges fields (`%s`): values after an empty field shift one column left"
                      % unparse(ret))
        if not trim:
            continue
        if trimmed:
            ctx.ok("DATA.TRIM", site, fn, ret, "tokens are whitespace-free (%s)" % why)
        else:
            ctx.bad("DATA.TRIM", site, fn, ret, "the %s splitter returns tokens with their padding blanks (%s): text cells "
                    "of a padded %s-delimited file differ from the unpadded file" % (key, why, key))
    # the default delimiter is a key
    fr = host_sections(p)
    for sub in walk_shallow(fr.node):
        if isinstance(sub, ast.Assign) and len(sub.targets) == 1 and isinstance(sub.targets[0], ast.Name) \
                and "delimiter" in sub.targets[0].id and isinstance(sub.value, ast.Constant):
            ctx.check(sub.value.value in keys, "DATA.SPLIT", READ + "#default-delimiter", fr, sub,
                      "default delimiter %r is a key of the splitter table" % sub.value.value,
                      "default delimiter %r is not a key of the splitter table" % sub.value.value)
    ctx.floor("DATA.SPLIT", 3)
    if trim:
        ctx.floor("DATA.TRIM", 3)


def _tokens_trimmed(ret, local, env):
    """(trimmed?, reason, positional?) for the expression a splitter returns"""
    # <regex>.findall(line): first alternative's token class must exclude all whitespace
    if isinstance(ret, ast.Call) and isinstance(ret.func, ast.Attribute) and ret.func.attr == "findall":
        try:
            rgx = fold(ret.func.value, lambda n: local[n] if n in local else env(n))
        except (NotConst, KeyError):
            raise AnalysisError("cannot fold the regex of `%s`" % unparse(ret))
        if not isinstance(rgx, Regex):
            raise AnalysisError("`%s` is not a compiled regex constant" % unparse(ret.func.value))
        flat = rx.flatten(list(rx.parse(rgx.pattern, rgx.flags)), rgx.flags)
        classes = []

        def visit(items, in_branch=False):
            for el in items:
                if el[0] == "branch":
                    for b in el[1]:
                        visit(b, True)
                elif el[0] == "chars" and (el[3] is None or el[3] > 1):
                    classes.append(el[1])
        visit(flat)
        # unquoted token class = the first repeated class
        if not classes:
            return False, "no token class", True
        tok = classes[0]
        ws = tok & rx.WS
        if ws:
            return False, "unquoted token class contains %s" % sorted(repr(c) for c in ws), True
        return True, "unquoted token class excludes all whitespace", True
    if isinstance(ret, ast.Call) and isinstance(ret.func, ast.Attribute) and ret.func.attr == "split":
        return False, "`%s` keeps the blanks around each field" % unparse(ret), True
    if isinstance(ret, ast.ListComp):
        g = ret.generators[0]
        positional = not g.ifs and len(ret.generators) == 1
        elt = ret.elt
        stripped = isinstance(elt, ast.Call) and isinstance(elt.func, ast.Attribute) and elt.func.attr == "strip" and not elt.args
        return stripped, ("each field is strip()ped" if stripped else "fields are not stripped"), positional
    return False, "unrecognised splitter body `%s`" % unparse(ret), True


# ------------------------------------------------------------------------------------------------ DATA.RESHAPE / ORIENT

def rule_reshape(ctx):
    p = ctx.p
    fe = p.func(NORMAL)
    ncp = [x for x in fe.params() if "column" in x]
    resh = [c for c in walk_shallow(fe.node) if isinstance(c, ast.Call) and (
        (isinstance(c.func, ast.Attribute) and c.func.attr == "reshape"))]
    site = NORMAL + "#reshape"
    problems = []
    if len(resh) != 1:
        problems.append("expected exactly one reshape of the token array, found %d" % len(resh))
    for c in resh:
        shape = None
        if isinstance(c.func.value, ast.Name) and c.func.value.id in ("np", "numpy"):
            shape = c.args[1] if len(c.args) > 1 else None
        else:
            shape = c.args[0] if len(c.args) == 1 else ast.Tuple(elts=list(c.args), ctx=ast.Load())
        if not (isinstance(shape, ast.Tuple) and len(shape.elts) == 2 and ast.unparse(shape.elts[0]) == "-1"
                and ncp and ast.unparse(shape.elts[1]) == ncp[0]):
            problems.append("the flat token array is reshaped to `%s`; it must be (-1, %s): one row per depth step" % (
                unparse(shape) if shape is not None else "?", ncp[0] if ncp else "n_columns"))
        for k in c.keywords:
            if k.arg == "order" and not (isinstance(k.value, ast.Constant) and k.value.value in ("C", None)):
                problems.append("reshape uses order=%s: tokens are laid out column-major, cells are displaced" % unparse(k.value))
    # "there is no data" is a statement about the number of tokens, not about their values: a test that sets the column count to
    # zero must not look at the values (`array.any()` is False for a section of zeros)
    for sub in walk_shallow(fe.node):
        if isinstance(sub, ast.If) and any(isinstance(a_, ast.Assign) and isinstance(a_.value, ast.Constant) and a_.value.value == 0
                                           and not isinstance(a_.value.value, bool)
                                           and any(isinstance(t_, ast.Name) and "col" in t_.id for t_ in a_.targets) for a_ in sub.body):
            byvalue = [c_ for c_ in ast.walk(sub.test) if isinstance(c_, ast.Call) and isinstance(c_.func, ast.Attribute)
                       and c_.func.attr in ("any", "all", "sum", "nonzero", "count_nonzero", "max", "min")]
            if byvalue:
                problems.append("the empty-section test `%s` looks at the values: a data section that holds only zeros is treated as "
                                "empty by the reference engine and raises, while the fast engine reads it" % unparse(sub.test))
    # columns are yielded as array[:, j] for j in range(n)
    yields = [y for y in walk_shallow(fe.node) if isinstance(y, ast.Yield)]
    col_loops = [l for l in walk_shallow(fe.node) if isinstance(l, ast.For) and any(isinstance(y, ast.Yield) for y in ast.walk(l))]
    okcol = False
    for l in col_loops:
        if isinstance(l.iter, ast.Call) and isinstance(l.iter.func, ast.Name) and l.iter.func.id == "range" and len(l.iter.args) == 1 \
                and isinstance(l.target, ast.Name):
            j = l.target.id
            for s in ast.walk(l):
                if isinstance(s, ast.Subscript) and isinstance(s.slice, ast.Tuple) and len(s.slice.elts) == 2 \
                        and isinstance(s.slice.elts[0], ast.Slice) and s.slice.elts[0].lower is None and s.slice.elts[0].upper is None \
                        and s.slice.elts[0].step is None and isinstance(s.slice.elts[1], ast.Name) and s.slice.elts[1].id == j:
                    okcol = True
                elif isinstance(s, ast.Subscript) and isinstance(s.slice, ast.Tuple) and any(isinstance(e, ast.Name) and e.id == j for e in s.slice.elts) \
                        and not isinstance(s.ctx, ast.Store):
                    if not (isinstance(s.slice.elts[0], ast.Slice) and isinstance(s.slice.elts[1], ast.Name)):
                        problems.append("columns are taken as `%s` instead of array[:, j]" % unparse(s))
        else:
            # the rows of the transposed 2-D array, in order: `for [i,] col in [enumerate](array.T)` (array.T bound to a local, [] when
            # there is nothing to hand out) is the same sequence of columns
            it_ = l.iter
            if isinstance(it_, ast.Call) and isinstance(it_.func, ast.Name) and it_.func.id == "enumerate" and len(it_.args) == 1 and not it_.keywords:
                it_ = it_.args[0]
            srcs = [it_]
            if isinstance(it_, ast.Name):
                srcs = [a_.value for a_ in walk_shallow(fe.node) if isinstance(a_, ast.Assign) and any(
                    isinstance(t_, ast.Name) and t_.id == it_.id for t_ in a_.targets)]
            def _transposed(e_):
                return (isinstance(e_, ast.Attribute) and e_.attr == "T" and isinstance(e_.value, ast.Name)) or (
                    isinstance(e_, ast.Call) and ast.unparse(e_.func).split(".")[-1] == "transpose" and len(e_.args) == 1 and not e_.keywords)
            def _nothing(e_):
                return isinstance(e_, (ast.List, ast.Tuple)) and not e_.elts
            if srcs and any(_transposed(e_) for e_ in srcs) and all(_transposed(e_) or _nothing(e_) for e_ in srcs):
                okcol = True
            if not okcol:
                problems.append("columns are not produced for j in range(n) in order (`%s`)" % unparse(l.iter))
    if not okcol and not problems:
        problems.append("columns are not yielded as array[:, j] for j in range(n)")
    ctx.check(not problems, "DATA.RESHAPE", site, fe, resh[0] if resh else fe.node,
              "tokens reshaped row-major to (-1, n_columns) and yielded as array[:, j], j ascending",
              "; ".join(dict.fromkeys(problems)))
    fn = p.func(NUMPY)
    gen = [c for c in walk_shallow(fn.node) if isinstance(c, ast.Call) and isinstance(c.func, ast.Attribute) and c.func.attr == "genfromtxt"]
    if gen:
        kw = {k.arg: k.value for k in gen[0].keywords}
        u = kw.get("unpack")
        unpack_ok = isinstance(u, ast.Constant) and u.value is True
        how = "unpack=True"
        if u is None:
            # the explicit form: the 2-D result (ndmin=2 on the call itself) is transposed on every return
            holder = [a_.targets[0].id for a_ in walk_shallow(fn.node) if isinstance(a_, ast.Assign) and a_.value is gen[0]
                      and len(a_.targets) == 1 and isinstance(a_.targets[0], ast.Name)]
            rets = [r_.value for r_ in walk_shallow(fn.node) if isinstance(r_, ast.Return) and r_.value is not None]
            nd = kw.get("ndmin")

            def transposed(e):
                if isinstance(e, ast.Attribute) and e.attr == "T":
                    e = e.value
                elif isinstance(e, ast.Call) and ast.unparse(e.func).split(".")[-1] == "transpose" and len(e.args) == 1 and not e.keywords:
                    e = e.args[0]
                else:
                    return False
                return (isinstance(e, ast.Name) and e.id in holder) or e is gen[0]
            if rets and all(transposed(e) for e in rets) and isinstance(nd, ast.Constant) and nd.value == 2:
                unpack_ok, how = True, "ndmin=2 result transposed explicitly"
        ctx.check(unpack_ok, "DATA.RESHAPE", NUMPY + "#unpack", fn, gen[0],
                  "fast engine returns columns (%s)" % how, "fast engine neither passes unpack=True nor transposes a result that genfromtxt "
                  "itself made 2-D (ndmin=2): rows are handed out as columns, or a single-column section is turned on its side")
        for bad in ("usecols", "skip_footer", "invalid_raise", "filling_values", "missing_values"):
            if bad in kw and not (bad == "invalid_raise" and isinstance(kw[bad], ast.Constant) and kw[bad].value is True):
                ctx.bad("DATA.RESHAPE", NUMPY + "#" + bad, fn, gen[0], "genfromtxt is given %s=%s: rows or columns are "
                        "silently dropped/filled, unlike the reference engine" % (bad, unparse(kw[bad])))
        lo = kw.get("loose")
        ctx.check(isinstance(lo, ast.Constant) and lo.value is False, "DATA.RESHAPE", NUMPY + "#loose", fn, gen[0],
                  "fast engine passes loose=False (non-numeric cells raise and fall back to the reference engine)",
                  "fast engine does not pass loose=False: non-numeric cells silently become NaN instead of falling back")
    ctx.floor("DATA.RESHAPE", 3)


def rule_orient(ctx):
    p = ctx.p
    fn = p.func(NUMPY)
    gen = [c for c in walk_shallow(fn.node) if isinstance(c, ast.Call) and isinstance(c.func, ast.Attribute) and c.func.attr in ("genfromtxt", "loadtxt")]
    if not gen:
        raise AnalysisError("no genfromtxt call in the fast engine")
    kw = {k.arg: k.value for k in gen[0].keywords}
    nd = kw.get("ndmin")
    site = NUMPY + "#orientation"
    cfg = build_cfg(p, fn)
    cd = ControlDependence(cfg)
    prov = Provenance(cfg)
    resh = [n for n in cfg.nodes if n.kind == "stmt" and any(
        isinstance(c, ast.Call) and isinstance(c.func, ast.Attribute) and c.func.attr in ("reshape", "atleast_2d", "transpose")
        for c in walk_expr_shallow(n.ast))]
    if isinstance(nd, ast.Constant) and nd.value == 2 and not resh:
        ctx.ok("DATA.ORIENT", site, fn, gen[0], "the fast engine's result is 2-D by construction (ndmin=2), no orientation guess")
    else:
        problems = []
        lp = fn.params()[1]
        if not resh and not (isinstance(nd, ast.Constant) and nd.value == 2):
            problems.append("a single row, a single column or a single cell comes back 1-D/0-D and is not re-oriented")
        for n in resh:
            tests = [(cfg.nodes[tn].ast, tn) for (tn, lab) in cd.transitive(n.id) if cfg.nodes[tn].kind == "test"]
            for t, tn in tests:
                atoms = prov.atoms(t, tn)
                if ("param", lp) in atoms:
                    problems.append("the row-vs-column orientation of a 1-D result is chosen by `%s`, which derives from "
                                    "the section's physical line numbers (blank/comment lines count): one data row plus a "
                                    "blank line comes back transposed" % unparse(t))
        ctx.check(not problems, "DATA.ORIENT", site, fn, gen[0],
                  "orientation of 1-D results is decided from data-derived quantities only",
                  "; ".join(dict.fromkeys(problems)))
    ctx.floor("DATA.ORIENT", 1)


def rule_wrap_tokens(ctx):
    p = ctx.p
    fw = p.func("writer.write")
    fam = write_family(p)
    tw = [c for f in fam for c in walk_shallow(f.node) if isinstance(c, ast.Call) and "TextWrapper" in ast.unparse(c.func)]
    site = "writer.write#textwrapper"
    if not tw:
        # the module-level function form: textwrap.wrap(text, width=.., break_long_words=False, ..) takes the same options
        tw = [c for f in fam for c in walk_shallow(f.node) if isinstance(c, ast.Call) and ast.unparse(c.func) in ("textwrap.wrap", "textwrap.fill")]
        for c in tw:
            c_ = ast.Call(func=c.func, args=list(c.args[1:]), keywords=list(c.keywords))       # drop the text argument
            ast.copy_location(c_, c)
            tw[tw.index(c)] = c_
    if not tw:
        # no TextWrapper: wrapping done otherwise - check there is a wrap call at all
        wr = [c for f in fam for c in walk_shallow(f.node) if isinstance(c, ast.Call) and isinstance(c.func, ast.Attribute) and c.func.attr in ("wrap", "fill")]
        ctx.check(False if not wr else True, "WR.WRAP-TOKENS", site, fw, fw.node, "wrapping present",
                  "writer.write no longer wraps the data lines of a WRAP=YES file")
        ctx.floor("WR.WRAP-TOKENS", 1)
        return
    for c in tw:
        kw = {k.arg: k.value for k in c.keywords}
        problems = []
        for name in ("break_long_words", "break_on_hyphens"):
            v = kw.get(name)
            if not (isinstance(v, ast.Constant) and v.value is False):
                problems.append("%s is not False: a value longer than the width (or containing '-') is split into two "
                                "tokens that read back as two values" % name)
        w = kw.get("width", c.args[0] if c.args else None)
        dw = [x for f in fam for x in f.params() if "data_width" in x]
        if w is None or (dw and ast.unparse(w) not in dw):
            problems.append("width is `%s`, not the data_width option" % (unparse(w) if w is not None else None))
        for name in ("drop_whitespace", "replace_whitespace", "expand_tabs", "max_lines", "placeholder"):
            if name in kw and name in ("max_lines", "placeholder"):
                problems.append("%s= truncates wrapped rows" % name)
        ctx.check(not problems, "WR.WRAP-TOKENS", site, fw, c,
                  "TextWrapper(width=data_width, break_long_words=False, break_on_hyphens=False): lines break only at blanks",
                  "; ".join(problems))
    # wrapped lines come from twrapper.wrap(<the whole depth step>)
    ctx.floor("WR.WRAP-TOKENS", 1)


def rule_null_flat(ctx):
    """NULL.FLAT: the list of numeric null values handed to the reference engine (applied to the flat token array, i.e.
    to every column including the index) is exactly what get_substitutions returned - the header NULL never enters it"""
    p = ctx.p
    r = get_resolver(p)
    fr = host_data(p)
    cfg = build_cfg(p, fr)
    prov = Provenance(cfg)
    nullvars = _null_var_defs(fr)
    # the variable passed as value_null_subs
    names = set()
    calls = []
    for node in cfg.nodes:
        if node.ast is None or node.kind != "stmt":
            continue
        for c in walk_expr_shallow(node.ast):
            if isinstance(c, ast.Call) and any(t.qual == NORMAL for t in r.callees(fr, c)[0]):
                a = next((k.value for k in c.keywords if k.arg == "value_null_subs"), c.args[3] if len(c.args) > 3 else None)
                calls.append((node.id, c, a))
                if isinstance(a, ast.Name):
                    names.add(a.id)
    site = READ + "#value-null-subs"
    problems = []
    for nid, c, a in calls:
        if a is None:
            problems.append("the reference engine is called without the numeric null list")
            continue
        atoms = prov.atoms(a, nid)
        if not any(x[0] == "callname" and x[1] == "get_substitutions" for x in atoms):
            problems.append("value_null_subs does not come from get_substitutions")
        for x in atoms:
            if x[0] == "attrname" and x[1] == "NULL":
                problems.append("the ~Well NULL value flows into value_null_subs")
    for sub in walk_shallow(fr.node):
        if isinstance(sub, ast.Call) and isinstance(sub.func, ast.Attribute) and sub.func.attr in ("append", "extend", "insert") \
                and isinstance(sub.func.value, ast.Name) and sub.func.value.id in names:
            problems.append("`%s` adds to the numeric null list in read()" % unparse(sub))
        if isinstance(sub, (ast.Assign, ast.AugAssign)):
            targets = sub.targets if isinstance(sub, ast.Assign) else [sub.target]
            for t in targets:
                if isinstance(t, ast.Name) and t.id in names:
                    v = sub.value
                    if not (isinstance(v, ast.Call) and "get_substitutions" in ast.unparse(v.func)):
                        vnames = {n.id for n in ast.walk(v) if isinstance(n, ast.Name)}
                        if vnames & nullvars or isinstance(sub, ast.AugAssign) or vnames - names:
                            problems.append("`%s` changes the numeric null list in read()" % unparse(sub))
    ctx.check(not problems, "NULL.FLAT", site, fr, calls[0][1] if calls else fr.node,
              "the numeric null list applied to the flat token array is get_substitutions' result, untouched; the header NULL "
              "is only applied per column, behind the index guard",
              "; ".join(dict.fromkeys(problems)) + ": values equal to NULL are then replaced in every column, the index included, "
              "by the reference engine only")
    ctx.floor("NULL.FLAT", 1)


READ_SUBS_DOC = {
    "comma-decimal-mark": [(r"(\d),(\d)", r"\1.\2")],
    "run-on(-)": [(r"(\d)-(\d)", r"\1 -\2")],
    "run-on(.)": [(r"-?\d*\.\d*\.\d*|NaN[\.-]\d+", " NaN NaN ")],
}
READ_POLICIES_DOC = {
    "default": ["comma-decimal-mark", "run-on(-)", "run-on(.)"],
}


def rule_read_subs(ctx):
    """DATA.READ-SUBS: the documented read substitutions (applied to every data line by the reference engine and the
    sniffer) have the documented language and replacement, compared structurally"""
    p = ctx.p
    env = module_env(p, "defaults")
    dmod = p.module("defaults")
    fi = p.func("defaults.get_default_items")
    try:
        subs = env("READ_SUBS")
        pols = env("READ_POLICIES")
    except NotConst as e:
        raise AnalysisError("cannot fold defaults.READ_SUBS / READ_POLICIES: %s" % e)
    for key, want in READ_SUBS_DOC.items():
        site = "defaults.READ_SUBS#%s" % key
        got = subs.get(key)
        problems = []
        if got is None or len(got) != len(want):
            problems.append("entry is %r" % (got,))
        else:
            for (gp, gr), (wp, wr) in zip(got, want):
                pat = gp.pattern if isinstance(gp, Regex) else gp
                flags = gp.flags if isinstance(gp, Regex) else 0
                try:
                    gt = rx.parse(pat, flags)
                    gc = rx.canonical(rx.flatten(list(gt), flags), {v: k for k, v in gt.state.groupdict.items()})
                    wt = rx.parse(wp)
                    wc = rx.canonical(rx.flatten(list(wt)), {})
                except Exception as e:  # noqa
                    raise AnalysisError("cannot parse read substitution %r: %s" % (pat, e))
                if gc != wc:
                    problems.append("pattern %r is not the documented %r (e.g. a wider class before the '-' also splits the "
                                    "exponent of 2.5e-03, so lasio cannot re-read its own %%e output)" % (pat, wp))
                if gr != wr:
                    problems.append("replacement %r is not the documented %r" % (gr, wr))
        ctx.check(not problems, "DATA.READ-SUBS", site, fi, dmod.globals["READ_SUBS"][0],
                  "read substitution %s has the documented pattern and replacement" % key, "%s: %s" % (key, "; ".join(problems)))
    for key, want in READ_POLICIES_DOC.items():
        ctx.check(pols.get(key) == want, "DATA.READ-SUBS", "defaults.READ_POLICIES#%s" % key, fi, dmod.globals["READ_POLICIES"][0],
                  "read policy %r applies %s" % (key, want), "read policy %r is %r, documented %r" % (key, pols.get(key), want))
    ctx.floor("DATA.READ-SUBS", 4)


def rule_space_tokens(ctx):
    """DATA.TRIM restricted to the default SPACE splitter (used for C02: blank- or tab-separated numbers)"""
    p = ctx.p
    ff = p.func("reader.define_line_splitter")
    env = module_env(p, "reader")
    local = {}
    for sub in walk_shallow(ff.node):
        if isinstance(sub, ast.Assign) and len(sub.targets) == 1 and isinstance(sub.targets[0], ast.Name):
            try:
                local[sub.targets[0].id] = fold(sub.value, env)
            except NotConst:
                pass
    ff, entries, table = _splitter_table(p)
    if table is None or "SPACE" not in entries or entries["SPACE"][2] is None:
        ctx.undecided("DATA.SPACE-TOKENS", "reader.define_line_splitter#SPACE", ff, ff.node, "no splitter table / SPACE entry found")
        return
    for _one in (1,):
        fn = entries["SPACE"][2]
        rets = [s_.value for s_ in walk_shallow(fn.node) if isinstance(s_, ast.Return)] if not isinstance(fn.node, ast.Lambda) else [fn.node.body]
        trimmed, why, positional = _tokens_trimmed(rets[0], local, env)
        ctx.check(trimmed, "DATA.SPACE-TOKENS", "reader.define_line_splitter#SPACE", fn, rets[0],
                  "the default splitter separates on every kind of whitespace (tabs included), as the fast engine does",
                  "the default (SPACE) splitter no longer separates on all whitespace (%s): tab-separated data is read by the fast "
                  "engine but not by the reference engine" % why)
    ctx.floor("DATA.SPACE-TOKENS", 1)


def rule_data_format(ctx):
    """WR.DATA-FORMAT: a finite sample is written as `fmt % n` of the sample itself (no rounding / thresholding first);
    only the data rows are wrapped - the ~A title line is written as one line"""
    p = ctx.p
    fw = p.func("writer.write")
    fmtf = None
    for q, fi in sorted(p.functions.items()):
        if fi.module.name == "writer" and not isinstance(fi.node, ast.Lambda) and any(
                isinstance(c, ast.Call) and isinstance(c.func, ast.Attribute) and c.func.attr == "isnan" for c in walk_shallow(fi.node)):
            fmtf = fi
    if fmtf is None:
        raise AnalysisError("cannot find the data-cell formatter (isnan test) in lasio/writer.py")
    n = [x_ for x_ in fmtf.params() if not (fmtf.cls is not None and x_ in ("self", "cls"))][0]
    problems = []
    for sub in walk_shallow(fmtf.node):
        if isinstance(sub, (ast.Assign, ast.AugAssign)):
            targets = sub.targets if isinstance(sub, ast.Assign) else [sub.target]
            if any(isinstance(t, ast.Name) and t.id == n for t in targets):
                problems.append("the sample is rewritten before formatting (`%s`): values are altered beyond the precision of the "
                                "chosen format" % unparse(sub))
        if isinstance(sub, ast.Call) and isinstance(sub.func, ast.Name) and sub.func.id in ("round", "abs", "int", "float") and sub.args \
                and isinstance(sub.args[0], ast.Name) and sub.args[0].id == n:
            if not isinstance(getattr(sub, "_parent", None), ast.Expr):
                problems.append("`%s` is applied to the sample in the cell formatter" % unparse(sub))
    # the formatted text is padded, never cut: no slice of (a name holding) the formatted / padded text
    textnames = set()
    for sub in walk_shallow(fmtf.node):
        if isinstance(sub, ast.Assign) and len(sub.targets) == 1 and isinstance(sub.targets[0], ast.Name):
            v = sub.value
            if (isinstance(v, ast.BinOp) and isinstance(v.op, ast.Mod)) or (
                    isinstance(v, ast.Call) and isinstance(v.func, ast.Attribute) and v.func.attr in ("rjust", "ljust", "center", "format")) or (
                    isinstance(v, ast.Call) and isinstance(v.func, ast.Name) and v.func.id == "str"):
                textnames.add(sub.targets[0].id)
    for sub in walk_shallow(fmtf.node):
        if isinstance(sub, ast.Subscript) and isinstance(sub.slice, ast.Slice) and isinstance(sub.ctx, ast.Load):
            b = sub.value
            cut = (isinstance(b, ast.Name) and b.id in textnames) or (
                isinstance(b, ast.Call) and isinstance(b.func, ast.Attribute) and b.func.attr in ("rjust", "ljust", "center", "format")) or (
                isinstance(b, ast.BinOp) and isinstance(b.op, ast.Mod))
            if cut:
                problems.append("the formatted sample is cut with `%s`: a value wider than its field loses digits in the data section "
                                "(while STRT/STOP/STEP keep the full value)" % unparse(sub))
        if isinstance(sub, ast.Call) and ast.unparse(sub.func).split(".")[-1] in ("shorten", "truncate"):
            problems.append("the formatted sample is shortened with `%s`" % unparse(sub))
    # every data cell goes through this formatter: no bulk writer on a side path
    for f_ in write_family(p):
        for c_ in walk_shallow(f_.node):
            if isinstance(c_, ast.Call) and ast.unparse(c_.func).split(".")[-1] in ("savetxt", "tofile", "to_csv", "array2string", "writelines"):
                problems.append("`%s` writes data rows without the cell formatter: NULL/NaN and the per-column formats are rendered "
                                "differently on that path (e.g. the NULL marker through fmt instead of str(NULL))" % unparse(c_)[:60])
    # the separator in front of a value is text of its own: the field is padded to the numeric width, and the spacer is
    # concatenated in front - a width that is computed (`width + len(spacing)`) lets a wide value swallow its separator
    for f_ in write_family(p):
        for c_ in walk_shallow(f_.node):
            if isinstance(c_, ast.Call) and isinstance(c_.func, ast.Attribute) and c_.func.attr in ("rjust", "ljust", "center") and c_.args \
                    and isinstance(c_.args[0], ast.BinOp) and any(isinstance(x_, ast.Call) and isinstance(x_.func, ast.Name) and x_.func.id == "len"
                                                                  for x_ in ast.walk(c_.args[0])):
                problems.append("`%s` pads to a width computed from the length of another text: the spacer is no longer a separate "
                                "separator, so a value wider than the numeric field is glued to the previous value" % unparse(c_)[:70])
    fmts = [b for b in walk_shallow(fmtf.node) if isinstance(b, ast.BinOp) and isinstance(b.op, ast.Mod)]
    if not any(isinstance(b.right, ast.Name) and b.right.id == n and (isinstance(b.left, ast.Name) or (
            isinstance(b.left, ast.Attribute) and isinstance(b.left.value, ast.Name))) for b in fmts):      # `fmt % n` / `spec.fmt % n`
        problems.append("a finite sample is not written as `<fmt> % <sample>`")
    ctx.check(not problems, "WR.DATA-FORMAT", fmtf.qual + "#cell", fmtf, fmtf.node,
              "a finite sample is formatted as fmt % sample, unmodified", "; ".join(dict.fromkeys(problems)))
    # wrapping applies to the data rows only
    host_fns = [fi for q, fi in sorted(p.functions.items()) if fi.module.name == "writer" and not isinstance(fi.node, ast.Lambda)]
    wraps = []
    for fi in host_fns:
        for c in walk_shallow(fi.node):
            if isinstance(c, ast.Call) and isinstance(c.func, ast.Attribute) and c.func.attr in ("wrap", "fill"):
                wraps.append((fi, c))
    problems = []
    for fi, c in wraps:
        lp = enclosing(c, (ast.For,))
        arg = c.args[0] if c.args else None
        if lp is None or not (isinstance(lp.iter, ast.Call) and "range" in ast.unparse(lp.iter.func)):
            problems.append("`%s` wraps text outside the loop over the data rows (e.g. the ~A title line with the curve "
                            "mnemonics: its continuation lines do not start with '~' and are read as data)" % unparse(c))
    ctx.check(bool(wraps) and not problems, "WR.DATA-FORMAT", "writer#wrap-rows-only", fw, wraps[0][1] if wraps else fw.node,
              "only the per-depth-step data rows are wrapped", "; ".join(problems) or "no wrapping of data rows found")
    ctx.floor("WR.DATA-FORMAT", 2)


def rule_wrap_consistent(ctx):
    """WR.WRAP-CONSISTENT: whether the data rows are physically wrapped is decided by the same `wrap` value that the WRAP
    header item states (the reader chooses its engine and its reshape from that item)"""
    p = ctx.p
    fw = p.func("writer.write")
    fam = write_family(p)
    if "wrap" not in fw.params():
        ctx.undecided("WR.WRAP-CONSISTENT", "writer.write#wrap", fw, fw.node, "writer.write has no `wrap` parameter")
        return
    n = 0
    # 1. the branch that wraps
    for f in fam:
        for c in walk_shallow(f.node):
            if isinstance(c, ast.Call) and isinstance(c.func, ast.Attribute) and c.func.attr in ("wrap", "fill") and c.args:
                recv = ast.unparse(c.func.value)
                if "wrapper" not in recv.lower() and "textwrap" not in recv:
                    continue
                n += 1
                guards = []
                cur, child = getattr(c, "_parent", None), c
                while cur is not None and cur is not f.node:
                    if isinstance(cur, ast.If):
                        guards.append((cur.test, child in cur.body))
                    child, cur = cur, getattr(cur, "_parent", None)
                norm = []
                for t_, pol_ in guards:
                    while isinstance(t_, ast.UnaryOp) and isinstance(t_.op, ast.Not):
                        t_, pol_ = t_.operand, not pol_
                    norm.append((t_, pol_))
                guards = norm
                ok = len(guards) == 1 and guards[0][1] and isinstance(guards[0][0], ast.Name) and "wrap" in guards[0][0].id
                ctx.check(ok, "WR.WRAP-CONSISTENT", "writer.write#wrap-branch", f, c,
                          "rows are wrapped exactly when `wrap` is set (the value the WRAP item is written from)",
                          "rows are wrapped under %s, not under the `wrap` option alone: the file's WRAP item and its physical layout "
                          "can disagree, and the reader then reshapes the data with the wrong engine"
                          % ([("" if pol else "not ") + unparse(t) for t, pol in guards] or "no condition"))
    # 2. WRAP item stores follow the option
    for s_ in walk_shallow(fw.node):
        if isinstance(s_, ast.Assign) and len(s_.targets) == 1 and isinstance(s_.targets[0], ast.Subscript) \
                and isinstance(s_.targets[0].slice, ast.Constant) and s_.targets[0].slice.value == "WRAP" and isinstance(s_.value, ast.Call):
            vals = [a.value for a in s_.value.args if isinstance(a, ast.Constant)] + [k.value.value for k in s_.value.keywords if isinstance(k.value, ast.Constant)]
            state = "YES" if "YES" in vals else ("NO" if "NO" in vals else None)
            # `las.version["WRAP"] = deepcopy(TABLE[wrap])`: TABLE a module-level {True: HeaderItem(.. "YES" ..), False: .. "NO" ..}
            tsub = next((x for x in ast.walk(s_.value) if isinstance(x, ast.Subscript) and isinstance(x.slice, ast.Name) and x.slice.id == "wrap"
                         and isinstance(x.value, (ast.Name, ast.Dict))), None)
            if state is None and tsub is not None:
                tab = tsub.value
                if isinstance(tab, ast.Name):
                    gv = fw.module.globals.get(tab.id, [])
                    tab = gv[0] if len(gv) == 1 else None
                mapping = {}
                if isinstance(tab, ast.Dict):
                    for k_, v_ in zip(tab.keys, tab.values):
                        cs = [a.value for a in ast.walk(v_) if isinstance(a, ast.Constant) and a.value in ("YES", "NO")]
                        if isinstance(k_, ast.Constant) and isinstance(k_.value, bool) and len(cs) == 1:
                            mapping[k_.value] = cs[0]
                n += 1
                if mapping:
                    ctx.check(mapping == {True: "YES", False: "NO"}, "WR.WRAP-CONSISTENT", "writer.write#WRAP-item(table)", fw, s_,
                              "the WRAP item comes from a table that maps wrap=True to YES and wrap=False to NO",
                              "the WRAP item table maps %s: the header item and the physical layout disagree" % mapping)
                else:
                    ctx.undecided("WR.WRAP-CONSISTENT", "writer.write#WRAP-item(table)", fw, s_, "the WRAP item is taken from `%s`, which is "
                                  "not a literal {True: .., False: ..} table of items" % unparse(tsub))
                continue
            iff = enclosing(s_, (ast.If,))
            t = iff.test if iff is not None else None
            want = None
            if isinstance(t, ast.Compare) and isinstance(t.left, ast.Name) and t.left.id == "wrap" and len(t.ops) == 1 \
                    and isinstance(t.ops[0], (ast.Is, ast.Eq)) and isinstance(t.comparators[0], ast.Constant):
                want = {True: "YES", False: "NO"}.get(t.comparators[0].value)
            elif isinstance(t, ast.Name) and t.id == "wrap":
                want = "YES"
            n += 1
            ctx.check(state is not None and state == want, "WR.WRAP-CONSISTENT", "writer.write#WRAP-item(%s)" % state, fw, s_,
                      "WRAP item %s is stored under `%s`" % (state, unparse(t) if t is not None else None),
                      "the WRAP item is set to %s under `%s`" % (state, unparse(t) if t is not None else "no condition"))
    # 3. wrap=None takes the value from the header item
    for s_ in walk_shallow(fw.node):
        if isinstance(s_, ast.Assign) and len(s_.targets) == 1 and isinstance(s_.targets[0], ast.Name) and s_.targets[0].id == "wrap":
            n += 1
            txt = ast.unparse(s_.value)
            ok = isinstance(s_.value, ast.Compare) and "WRAP" in txt and "'YES'" in txt and isinstance(s_.value.ops[0], ast.Eq)
            # ... read the way the reader reads it: the reader compares the WRAP value with "YES" exactly, so a normalisation here
            # (upper/strip/...) makes the writer wrap a file whose header the reader takes for unwrapped
            norms = sorted({c.func.attr for c in ast.walk(s_.value) if isinstance(c, ast.Call) and isinstance(c.func, ast.Attribute)
                            and c.func.attr in ("upper", "lower", "casefold", "strip", "lstrip", "rstrip", "startswith", "title", "capitalize")})
            if ok and norms:
                rd_fi = host_data(p)
                rwv = _wrap_var(rd_fi)
                rnorms = sorted({c.func.attr for t_ in ast.walk(rd_fi.node) if isinstance(t_, ast.Compare)
                                 and any(isinstance(x, ast.Name) and x.id == rwv for x in ast.walk(t_))
                                 for c in ast.walk(t_) if isinstance(c, ast.Call) and isinstance(c.func, ast.Attribute)}) if rwv else []
                ctx.check(norms == rnorms, "WR.WRAP-CONSISTENT", "writer.write#wrap-default:normalisation", fw, s_,
                          "writer and reader read the WRAP value with the same normalisation (%s)" % (norms or "none"),
                          "the writer decides wrap=None from the WRAP value normalised with %s, the reader compares it with \"YES\" %s: for "
                          "`WRAP. Yes` the data is written wrapped under a header the reader takes for unwrapped" % (norms, rnorms or "exactly"))
            ctx.check(ok, "WR.WRAP-CONSISTENT", "writer.write#wrap-default", fw, s_, "wrap=None means: as the WRAP item says (== 'YES')",
                      "`%s` does not derive the default from WRAP == 'YES'" % unparse(s_))
    if n == 0:
        ctx.undecided("WR.WRAP-CONSISTENT", "writer.write#wrap", fw, fw.node, "no wrapping branch / WRAP store found in a recognised form")
    # 3. the section that is written is a deep copy of las.version: a WRAP item stored on las.version *after* the copy was taken
    # must be stored on the copy as well (same block), or the file says the old WRAP above data laid out for the new one
    copies = [a_ for a_ in walk_shallow(fw.node) if isinstance(a_, ast.Assign) and len(a_.targets) == 1 and isinstance(a_.targets[0], ast.Name)
              and isinstance(a_.value, ast.Call) and ast.unparse(a_.value.func).split(".")[-1] == "deepcopy" and a_.value.args
              and ast.unparse(a_.value.args[0]).endswith(".version")]
    if len(copies) == 1:
        cp = copies[0]
        cname = cp.targets[0].id

        def wrap_store(st_, base_pred):
            if not (isinstance(st_, ast.Assign) and len(st_.targets) == 1):
                return False
            t_ = st_.targets[0]
            key = (t_.slice.value if isinstance(t_, ast.Subscript) and isinstance(t_.slice, ast.Constant) else t_.attr if isinstance(t_, ast.Attribute) else None)
            base = t_.value if isinstance(t_, (ast.Subscript, ast.Attribute)) else None
            return key == "WRAP" and base is not None and base_pred(base)
        for st_ in walk_shallow(fw.node):
            if wrap_store(st_, lambda b_: ast.unparse(b_).endswith(".version")) and ordn(st_) > ordn(cp):
                holder = None
                for fld in ("body", "orelse", "finalbody"):
                    blk = getattr(st_._parent, fld, None)
                    if isinstance(blk, list) and any(x is st_ for x in blk):
                        holder = blk
                mate = holder is not None and any(wrap_store(x, lambda b_: isinstance(b_, ast.Name) and b_.id == cname)
                                                 and ast.unparse(x.value) == ast.unparse(st_.value) for x in holder)
                n += 1
                ctx.check(mate, "WR.WRAP-CONSISTENT", "writer.write#wrap-on-written-copy(%s)" % unparse(st_.value, 30), fw, st_,
                          "the WRAP item stored on las.version after the copy was taken is stored on the written copy too",
                          "`%s` comes after `%s` and the copy does not receive the same item: the written ~Version keeps the old WRAP "
                          "value above data that is laid out for the new one" % (unparse(st_), unparse(cp)))
    ctx.floor("WR.WRAP-CONSISTENT", 0)


GENFROMTXT_DENY = {"delimiter", "comments", "usecols", "missing_values", "filling_values", "converters", "skip_footer", "autostrip",
                   "excludelist", "deletechars", "replace_space", "case_sensitive", "usemask", "invalid_raise"}


def rule_fast_tokens(ctx):
    """DATA.FAST-TOKENS: the fast engine tokenises like the reference engine's default splitter (runs of whitespace, every
    token kept, '#'-free data): genfromtxt/loadtxt is called without the options that change which tokens or rows exist"""
    p = ctx.p
    fn = p.func("reader.read_data_section_iterative_numpy_engine")
    calls = [c for c in walk_shallow(fn.node) if isinstance(c, ast.Call) and isinstance(c.func, ast.Attribute) and c.func.attr in ("genfromtxt", "loadtxt")]
    if not calls:
        ctx.undecided("DATA.FAST-TOKENS", fn.qual + "#call", fn, fn.node, "no genfromtxt/loadtxt call in the fast engine")
        return
    for c in calls:
        bad = []
        for k in c.keywords:
            if k.arg in GENFROMTXT_DENY and not (isinstance(k.value, ast.Constant) and k.value.value is None):
                if k.arg == "invalid_raise" and isinstance(k.value, ast.Constant) and k.value.value is True:
                    continue
                bad.append("%s=%s" % (k.arg, unparse(k.value)))
            if k.arg is None:
                bad.append("**%s" % unparse(k.value))
        ctx.check(not bad, "DATA.FAST-TOKENS", fn.qual + "#call", fn, c,
                  "the fast engine splits on runs of whitespace and keeps every row and token (no delimiter/usecols/missing-value/"
                  "invalid_raise options)",
                  "the fast engine is called with %s: its tokens or rows differ from the reference engine's (e.g. delimiter='\\t' turns "
                  "a leading/trailing tab into an extra NaN column)" % ", ".join(bad))
    ctx.floor("DATA.FAST-TOKENS", 1)


def rule_options_readonly(ctx):
    """WR.OPTIONS-READONLY: the presentation options of writer.write that its nested helpers read (fmt, column_fmt, spacer,
    widths ...) keep the caller's value for the whole call: they are not re-bound inside a loop (the nested helpers see the
    variable, not a snapshot - a loop that reuses the name `fmt` changes the default format of every later column)"""
    p = ctx.p
    fw = p.func("writer.write")
    params = set(fw.params())
    captured = set()
    first_def = {}
    for nm, nf in fw.nested.items():
        if isinstance(nf.node, ast.Lambda):
            body_nodes = ast.walk(nf.node.body)
            own = {a.arg for a in nf.node.args.args}
        else:
            body_nodes = [x for st in nf.node.body for x in ast.walk(st)]     # defaults are evaluated once, at definition time
            own = set(nf.params()) | {t.id for x in ast.walk(nf.node) if isinstance(x, ast.Assign) for t in x.targets if isinstance(t, ast.Name)}
        for x in body_nodes:
            if isinstance(x, ast.Name) and isinstance(x.ctx, ast.Load) and x.id in params and x.id not in own:
                captured.add(x.id)
                first_def[x.id] = min(first_def.get(x.id, 10 ** 9), ordn(nf.node))
    n = 0
    for nm in sorted(captured):
        n += 1
        rebinds = []
        for sub in walk_shallow(fw.node):
            tg = []
            if isinstance(sub, (ast.Assign, ast.AugAssign)):
                tg = sub.targets if isinstance(sub, ast.Assign) else [sub.target]
            elif isinstance(sub, ast.For):
                tg = [sub.target]
            for t in tg:
                for x in ast.walk(t):
                    if isinstance(x, ast.Name) and x.id == nm and isinstance(x.ctx, ast.Store):
                        in_loop = isinstance(sub, ast.For) or enclosing(sub, (ast.For, ast.While)) is not None
                        # deriving a default before the helpers exist is fine; what matters is a re-binding the helpers can observe
                        if in_loop and ordn(sub) > first_def.get(nm, 10 ** 9):
                            rebinds.append(sub)
        ctx.check(not rebinds, "WR.OPTIONS-READONLY", "writer.write#option(%s)" % nm, fw, rebinds[0] if rebinds else fw.node,
                  "option `%s` (read by nested helpers) is not re-bound inside a loop" % nm,
                  "`%s` re-binds the option `%s` inside a loop while nested helpers read it as the caller's setting: after the loop "
                  "they see the last value (e.g. the last column's format becomes the default format of every column)"
                  % (unparse(rebinds[0])[:70] if rebinds else "", nm))
    if n == 0:
        ctx.undecided("WR.OPTIONS-READONLY", "writer.write#options", fw, fw.node, "no nested helper of writer.write reads an option")
    ctx.floor("WR.OPTIONS-READONLY", 0)


def rule_engine_select(ctx):
    """DATA.ENGINE-SELECT: a file that declares WRAP YES is read by the reference (normal) engine: the fast engine takes every
    physical line for a row, so a wrapped file whose lines happen to be equally long would be read with lines as rows.
    The switch to engine = "normal" is controlled by a disjunction that contains `<WRAP value> == "YES"`."""
    p = ctx.p
    fr = host_data(p)
    # a steering flag kept as a boolean must be used as one: `flag == "YES"` on a variable that only ever holds True/False is
    # always false (the leftover of a string -> boolean refactoring), and whatever it guarded never happens
    bdefs = {}
    for a_ in walk_shallow(fr.node):
        if isinstance(a_, ast.Assign) and len(a_.targets) == 1 and isinstance(a_.targets[0], ast.Name):
            v_ = a_.value
            is_bool = (isinstance(v_, ast.Constant) and isinstance(v_.value, bool)) or isinstance(v_, (ast.Compare, ast.BoolOp)) or (
                isinstance(v_, ast.UnaryOp) and isinstance(v_.op, ast.Not))
            bdefs.setdefault(a_.targets[0].id, []).append(is_bool and not (isinstance(v_, ast.BoolOp) and not all(
                isinstance(x, (ast.Compare, ast.Constant)) or (isinstance(x, ast.UnaryOp) and isinstance(x.op, ast.Not)) for x in v_.values)))
    bools = {k for k, v in bdefs.items() if v and all(v)} - set(fr.params())
    for c_ in walk_shallow(fr.node):
        if isinstance(c_, ast.Compare) and len(c_.ops) == 1 and isinstance(c_.ops[0], (ast.Eq, ast.NotEq)) and isinstance(c_.left, ast.Name) \
                and c_.left.id in bools and isinstance(c_.comparators[0], ast.Constant) and isinstance(c_.comparators[0].value, str):
            ctx.bad("DATA.ENGINE-SELECT", READ + "#flag-type", fr, c_, "`%s` compares the boolean `%s` with a string: it is always %s, so what it "
                    "guards (the switch to the reference engine for a wrapped file, the declared column count) never takes effect"
                    % (unparse(c_), c_.left.id, "False" if isinstance(c_.ops[0], ast.Eq) else "True"))
    wv = _wrap_var(fr)
    site = READ + "#engine-for-wrapped"
    if wv is None:
        ctx.undecided("DATA.ENGINE-SELECT", site, fr, fr.node, "the ~Version WRAP value is not held in a plain variable")
        return
    sets = [s_ for s_ in walk_shallow(fr.node) if isinstance(s_, ast.Assign) and any(isinstance(t, ast.Name) and t.id == "engine" for t in s_.targets)
            and isinstance(s_.value, ast.Constant) and s_.value.value == "normal"]
    if not sets:
        ctx.undecided("DATA.ENGINE-SELECT", site, fr, fr.node, "no `engine = \"normal\"` switch in the data-section code")
        return
    ok = False
    for s_ in sets:
        cur = getattr(s_, "_parent", None)
        while cur is not None and cur is not fr.node:
            if isinstance(cur, ast.If):
                t = cur.test

                def operands(e):
                    # operands of the and/or structure of the test (a negation hides its operand)
                    if isinstance(e, ast.BoolOp):
                        out_ = []
                        for v in e.values:
                            out_ += operands(v)
                        return out_
                    return [e]
                for c in operands(t):
                    if isinstance(c, ast.Compare) and len(c.ops) == 1 and isinstance(c.ops[0], ast.Eq):
                        sides = [c.left, c.comparators[0]]
                        if any(isinstance(x, ast.Name) and x.id == wv for x in sides) and any(
                                isinstance(x, ast.Constant) and x.value == "YES" for x in sides):
                            ok = True
            cur = getattr(cur, "_parent", None)
    if not ok:
        # the switch is there but not literally under `<wrap> == "YES"` (a boolean local, an inverted guard ...): decide by
        # exploring read() for a WRAP YES file under the default options - the fast engine's call must be unreachable
        from sa.explore import tv
        r_ = get_resolver(p)
        cfg_ = build_cfg(p, fr)
        fast = [n_.id for n_ in cfg_.nodes if n_.ast is not None and n_.kind in ("stmt", "test") and any(
            isinstance(c_, ast.Call) and any(t_.qual == "reader.read_data_section_iterative_numpy_engine" for t_ in r_.callees(fr, c_)[0])
            for c_ in walk_expr_shallow(n_.ast))]
        consts0 = {k_: v_ for k_, v_ in (("engine", "numpy"), ("null_policy", "strict"), ("dtypes", "auto"),
                                         ("use_normal_engine_for_wrapped", True), ("ignore_data", False)) if k_ in fr.params()}
        assume = {"%s == 'YES'" % wv: True, "%s != 'YES'" % wv: False}
        # boolean locals with one definition that folds under these assumptions
        defs_ = {}
        for a_ in walk_shallow(fr.node):
            if isinstance(a_, ast.Assign) and len(a_.targets) == 1 and isinstance(a_.targets[0], ast.Name):
                defs_.setdefault(a_.targets[0].id, []).append(a_.value)
        for nm_, vs_ in defs_.items():
            if len(vs_) == 1 and isinstance(vs_[0], (ast.BoolOp, ast.Compare, ast.UnaryOp)) and nm_ not in consts0:
                v_ = tv(vs_[0], consts0, assume)
                if v_ is not None:
                    assume[nm_] = v_
        if fast and len(consts0) >= 4:
            seen_, prev_ = explore(cfg_, frozenset(), lambda node, consts, facts, lab: facts, assume=assume, init_consts=consts0)
            reach = [nid for nid in fast if nid in seen_]
            ok = not reach
    ctx.check(ok, "DATA.ENGINE-SELECT", site, fr, sets[0], "WRAP == YES forces the reference engine",
              "the switch to the reference engine no longer depends on `%s == \"YES\"`: a wrapped file whose physical lines all hold the "
              "same number of values is read by the fast engine with every line as a row (wrong curve lengths, extra curves)" % wv)
    ctx.floor("DATA.ENGINE-SELECT", 1)


def rule_tokens_kept(ctx):
    """DATA.TOKENS-KEPT: the reference engine yields every token of every content line: the loop that yields the items iterates
    over the splitter's result for the line (directly or through one local), and nothing empties or filters that list"""
    p = ctx.p
    fe = p.func("reader.read_data_section_iterative_normal_engine")
    gens = [nf for nm, nf in fe.nested.items() if not isinstance(nf.node, ast.Lambda) and any(isinstance(y, ast.Yield) for y in ast.walk(nf.node))]
    called = {c.func.id for c in ast.walk(fe.node) if isinstance(c, ast.Call) and isinstance(c.func, ast.Name)}
    gens += [mf for nm, mf in fe.module.functions.items() if nm in called and any(isinstance(y, ast.Yield) for y in ast.walk(mf.node))]
    if not gens:
        ctx.undecided("DATA.TOKENS-KEPT", fe.qual + "#tokens", fe, fe.node, "no token generator found in the reference engine")
        return
    g = gens[0]
    site = g.qual + "#tokens"
    yl = None
    for lp in [x for x in ast.walk(g.node) if isinstance(x, ast.For)]:
        if any(isinstance(y, ast.Yield) for st in lp.body for y in ast.walk(st)) and not any(
                isinstance(x, ast.For) and any(isinstance(y, ast.Yield) for y in ast.walk(x)) for st in lp.body for x in ast.walk(st)):
            yl = lp
    if yl is None:
        ctx.undecided("DATA.TOKENS-KEPT", site, g, g.node, "no loop that yields the items of a line")
        return

    def has_split(e):
        return any(isinstance(c, ast.Call) and "splitter" in ast.unparse(c.func) for c in ast.walk(e))
    problems = []
    src = yl.iter
    if isinstance(src, ast.Name):
        defs = [a for a in ast.walk(g.node) if isinstance(a, (ast.Assign, ast.AugAssign)) and any(
            isinstance(t, ast.Name) and t.id == src.id for t in (a.targets if isinstance(a, ast.Assign) else [a.target]))]
        good = [a for a in defs if isinstance(a, ast.Assign) and has_split(a.value)]
        other = [a for a in defs if a not in good]
        if not good:
            problems.append("the yielded items `%s` do not come from the line splitter" % src.id)
        for a in other:
            problems.append("`%s` replaces the tokens of a line (under some condition): those tokens are never yielded, so the "
                            "same values wrapped differently give a different result" % unparse(a)[:60])
    elif not has_split(src):
        problems.append("the yield loop iterates `%s`, not the splitter's tokens" % unparse(src)[:60])
    else:
        for c in ast.walk(src):
            if isinstance(c, ast.comprehension) and c.ifs:
                problems.append("tokens are filtered (`if %s`) before they are yielded" % unparse(c.ifs[0]))
    ctx.check(not problems, "DATA.TOKENS-KEPT", site, g, yl, "every token of a content line is yielded", "; ".join(problems))
    ctx.floor("DATA.TOKENS-KEPT", 1)


def rule_subs_source(ctx):
    """DATA.SUBS-SOURCE: the sniffer's recommendation about the hyphen substitutions (every sampled line contains a '-': drop
    the run-on(-) substitutions, or dates such as 2018-05-22 are split) is obtained for every data section that the reference
    engine reads: the variable compared with `regexp_subs` when the recommendation is accepted is, on every path, a result of
    inspect_data_section (never a default such as the unmodified regexp_subs)"""
    p = ctx.p
    r = get_resolver(p)
    # what the sniffer withdraws: the substitutions of the run-on keys it lists, never the whole READ_SUBS table (comma decimal
    # marks and the other policies stay in force when every line contains a hyphen)
    fs_ = p.func(SNIFF)
    aliases = {"READ_SUBS"}
    for a_ in walk_shallow(fs_.node):
        if isinstance(a_, ast.Assign) and len(a_.targets) == 1 and isinstance(a_.targets[0], ast.Name) \
                and ast.unparse(a_.value).split(".")[-1] == "READ_SUBS":
            aliases.add(a_.targets[0].id)

    def whole_table(e):
        while isinstance(e, ast.Call) and isinstance(e.func, ast.Attribute) and e.func.attr in ("keys", "items", "values") and not e.args:
            e = e.func.value
        return (isinstance(e, ast.Name) and e.id in aliases) or (isinstance(e, ast.Attribute) and e.attr == "READ_SUBS")
    over_all = []
    for sub in ast.walk(fs_.node):
        its = [sub.iter] if isinstance(sub, ast.For) else ([g.iter for g in sub.generators] if isinstance(
            sub, (ast.ListComp, ast.SetComp, ast.GeneratorExp, ast.DictComp)) else [])
        over_all += [it for it in its if whole_table(it)]
    ctx.check(not over_all, "DATA.SUBS-SOURCE", SNIFF + "#withdrawn-set", fs_, over_all[0] if over_all else fs_.node,
              "the sniffer withdraws only the substitutions of the keys it lists (it never iterates over the whole READ_SUBS table)",
              "the sniffer collects the substitutions to withdraw by iterating over `%s`, i.e. over every read policy: when each sampled "
              "line contains a hyphen the comma-decimal-mark substitution is withdrawn too and such values stay text (no NULL, no number)"
              % (unparse(over_all[0]) if over_all else ""))
    fr = host_data(p)
    cfg = build_cfg(p, fr)
    rd = ReachingDefs(cfg)
    site = READ + "#hyphen-recommendation"
    # names that receive the sniffer's second result somewhere
    recnames = set()
    for a_ in walk_shallow(fr.node):
        if isinstance(a_, ast.Assign) and isinstance(a_.value, ast.Call) and any(t.qual == SNIFF for t in r.callees(fr, a_.value)[0]):
            for t_ in a_.targets:
                if isinstance(t_, ast.Tuple) and len(t_.elts) == 2 and isinstance(t_.elts[1], ast.Name):
                    recnames.add(t_.elts[1].id)
    tests = [n for n in cfg.nodes if n.kind == "test" and n.ast is not None and any(
        isinstance(c, ast.Compare) and isinstance(c.ops[0], (ast.NotEq, ast.Eq)) and any(
            isinstance(x, ast.Name) and x.id in recnames for x in ast.walk(c)) for c in ast.walk(n.ast))]
    if not tests:
        ctx.undecided("DATA.SUBS-SOURCE", site, fr, fr.node, "no test of the sniffer's recommended substitutions found")
        return
    problems = []
    for tn in tests:
        for c in ast.walk(tn.ast):
            if not (isinstance(c, ast.Compare) and isinstance(c.ops[0], (ast.NotEq, ast.Eq))):
                continue
            per_operand = []
            for x in ast.walk(c):
                if isinstance(x, ast.Name) and x.id in recnames:
                    bad = []
                    for dn in rd.reaching(x.id, tn.id):
                        nd = cfg.nodes[dn]
                        a = nd.ast
                        ok = nd.kind == "stmt" and isinstance(a, ast.Assign) and isinstance(a.value, ast.Call) and any(
                            t.qual == SNIFF for t in r.callees(fr, a.value)[0]) and any(
                            isinstance(t_, ast.Tuple) and len(t_.elts) == 2 and isinstance(t_.elts[1], ast.Name) and t_.elts[1].id == x.id
                            for t_ in a.targets)
                        if not ok:
                            bad.append("`%s` can hold `%s` when the recommendation is examined: for such files the sniffer is not asked, "
                                       "so the hyphen substitutions stay in force and e.g. dates are split into extra columns"
                                       % (x.id, nd.text(60) if hasattr(nd, "text") else "?"))
                    per_operand.append(bad)
            # one side of the comparison is the recommendation (always the sniffer's result); the other is the list in force
            if per_operand and not any(not b for b in per_operand):
                problems += min(per_operand, key=len)
    ctx.check(not problems, "DATA.SUBS-SOURCE", site, fr, tests[0].ast, "the recommendation examined is always the sniffer's result",
              "; ".join(dict.fromkeys(problems)))
    ctx.floor("DATA.SUBS-SOURCE", 1)


def rule_subs_agree(ctx):
    """DATA.SUBS-AGREE: the reference engine splits the lines with the substitution list the sniffer last counted the columns
    with (a count taken with the hyphen substitutions removed and a read with them in force - or the other way round - disagree
    on run-on values such as `101.50-102.50`, and the reshape silently displaces cells).  Explicit-state search over value
    numbers: a plain copy keeps the number, the sniffer's second result is rec(<number of its argument>) with rec(rec(v)) =
    rec(v) (the recommendation of a recommended list is that list), any other assignment makes a new number."""
    p = ctx.p
    r = get_resolver(p)
    fr = host_data(p)
    cfg = build_cfg(p, fr)

    def subs_arg(call, fi):
        params = [x for x in fi.params() if x != "self"]
        nm = next((x for x in params if "regexp" in x or x == "subs"), None)
        if nm is None:
            return None
        i = params.index(nm)
        return next((k.value for k in call.keywords if k.arg == nm), call.args[i] if len(call.args) > i and not any(
            isinstance(a, ast.Starred) for a in call.args[:i + 1]) else None)
    sniffs, engines = {}, {}
    for node in cfg.nodes:
        if node.ast is None or node.kind not in ("stmt", "test"):
            continue
        for c in walk_expr_shallow(node.ast):
            if isinstance(c, ast.Call):
                for t in r.callees(fr, c)[0]:
                    if t.qual == SNIFF:
                        sniffs[node.id] = (c, subs_arg(c, t))
                    elif t.qual == NORMAL:
                        engines[node.id] = (c, subs_arg(c, t))
    site0 = READ + "#subs-sniffed-vs-read"
    if not sniffs or not engines:
        ctx.undecided("DATA.SUBS-AGREE", site0, fr, fr.node, "no call of the sniffer / reference engine in %s" % fr.qual)
        return
    if not all(isinstance(a, ast.Name) for _, a in list(sniffs.values()) + list(engines.values())):
        ctx.undecided("DATA.SUBS-AGREE", site0, fr, fr.node, "a substitution argument of the sniffer / reference engine is not a plain name")
        return
    # names connected to the arguments through plain copies
    tracked = {a.id for _, a in list(sniffs.values()) + list(engines.values())}
    copies = [(st.targets[0].id, st.value.id) for st in walk_shallow(fr.node) if isinstance(st, ast.Assign) and len(st.targets) == 1
              and isinstance(st.targets[0], ast.Name) and isinstance(st.value, ast.Name)]
    for st in walk_shallow(fr.node):
        if isinstance(st, ast.Assign) and isinstance(st.value, ast.Call) and any(t.qual == SNIFF for t in r.callees(fr, st.value)[0]):
            for t_ in st.targets:
                if isinstance(t_, ast.Tuple) and len(t_.elts) == 2 and isinstance(t_.elts[1], ast.Name):
                    tracked.add(t_.elts[1].id)
    changed = True
    while changed:
        changed = False
        for x, y in copies:
            if (x in tracked) != (y in tracked):
                tracked |= {x, y}
                changed = True

    def rec(v):
        return v if v[0] == "rec" else ("rec", v)

    def transfer(node, consts, facts, lab):
        f = dict(facts)

        def val(nm):
            return f.get(nm, ("init", nm))
        a = node.ast
        if node.id in sniffs:
            f["$sniffed"] = val(sniffs[node.id][1].id)
        if is_exc(lab):
            return frozenset(f.items())
        if node.kind == "stmt" and isinstance(a, ast.Assign):
            if node.id in sniffs and isinstance(a.value, ast.Call):
                for t_ in a.targets:
                    if isinstance(t_, ast.Tuple) and len(t_.elts) == 2 and isinstance(t_.elts[1], ast.Name):
                        f[t_.elts[1].id] = rec(f["$sniffed"])
                    for nm in target_names(t_):
                        if nm in tracked and not (isinstance(t_, ast.Tuple) and len(t_.elts) == 2 and t_.elts[1] is not None
                                                   and isinstance(t_.elts[1], ast.Name) and t_.elts[1].id == nm):
                            f[nm] = ("def", node.id)
            else:
                for t_ in a.targets:
                    for nm in target_names(t_):
                        if nm not in tracked:
                            continue
                        if isinstance(t_, ast.Name) and isinstance(a.value, ast.Name):
                            f[nm] = val(a.value.id)
                        else:
                            f[nm] = ("def", node.id)
        else:
            for nm in node_defs(node):
                if nm in tracked:
                    f[nm] = ("def", node.id)
        return frozenset(f.items())
    from sa.cfg import is_exc_label as is_exc
    # plain worklist over (node, value numbers): constants of other variables do not matter here
    from collections import deque
    st0 = (cfg.entry, frozenset())
    prev = {st0: None}
    seen = {}
    dq = deque([st0])
    while dq:
        st = dq.popleft()
        nid, facts = st
        seen.setdefault(nid, set()).add((None, facts))
        for t, lab in cfg.succ[nid]:
            nst = (t, transfer(cfg.nodes[nid], None, facts, lab))
            if nst not in prev:
                prev[nst] = st
                dq.append(nst)
    for k, nid in enumerate(sorted(engines)):
        ecall, earg = engines[nid]
        site = "%s@%d" % (site0, k + 1)
        bad = None
        n_states = 0
        for (cf, facts) in seen.get(nid, ()):
            f = dict(facts)
            if "$sniffed" not in f:
                continue
            n_states += 1
            if f.get(earg.id, ("init", earg.id)) != f["$sniffed"]:
                bad = (nid, cf, facts)
                break
        if nid not in seen or (not n_states and bad is None):
            ctx.ok("DATA.SUBS-AGREE", site, fr, ecall, "engine call not reached after a column count", nontrivial=False)
            continue
        pth = None
        if bad:
            full = []
            cur = (bad[0], bad[2])
            while cur is not None:
                full.append(cur[0])
                cur = prev[cur]
            full.reverse()
            pth = cfg.describe_path([x for x in full if x in sniffs or x == nid or (cfg.nodes[x].kind == "stmt" and any(
                nm in tracked for nm in node_defs(cfg.nodes[x])))][-8:])
        ctx.check(bad is None, "DATA.SUBS-AGREE", site, fr, ecall,
                  "on every path the reference engine reads with the substitution list of the last column count (%d states at the call)" % n_states,
                  "the list `%s` handed to the reference engine is not the one inspect_data_section last counted the columns with: the "
                  "column count and the tokens read disagree for run-on values, cells are displaced without an error when the totals "
                  "happen to divide" % earg.id, pth)
    ctx.floor("DATA.SUBS-AGREE", 1)


def rule_engine_args_agree(ctx):
    """DATA.ENGINE-ARGS (sibling call sites): LASFile.read calls the reference engine from more than one place (directly, and as
    the fall-back when the fast engine refuses the section).  Every call site hands it the same arguments - an option that reaches
    one call site only (a keyword dropped from the fall-back after a signature change) makes the result depend on which engine
    happened to read the section."""
    p = ctx.p
    r = get_resolver(p)
    fr = host_data(p)
    calls = [c for c in walk_shallow(fr.node) if isinstance(c, ast.Call) and any(t.qual == NORMAL for t in r.callees(fr, c)[0])]
    site = READ + "#reference-engine-call-sites"
    if len(calls) < 2:
        ctx.undecided("DATA.ENGINE-ARGS", site, fr, fr.node, "%d call site(s) of the reference engine in %s" % (len(calls), fr.qual))
        return
    def shape(c):
        return (tuple(ast.unparse(a) for a in c.args), tuple(sorted((k.arg or "**", ast.unparse(k.value)) for k in c.keywords)))
    shapes = {}
    for c in calls:
        shapes.setdefault(shape(c), []).append(c)
    if len(shapes) == 1:
        ctx.ok("DATA.ENGINE-ARGS", site, fr, calls[0], "all %d call sites of the reference engine pass the same arguments" % len(calls))
    else:
        keys = list(shapes)
        kw = [dict(k[1]) for k in keys]
        diff = sorted(set().union(*[set(d.items()) for d in kw]) - set.intersection(*[set(d.items()) for d in kw]))
        pos = [k[0] for k in keys]
        ctx.bad("DATA.ENGINE-ARGS", site, fr, shapes[keys[1]][0], "the call sites of the reference engine disagree (%s): a section read through "
                "the fall-back path is treated differently from one read by the reference engine directly" % (
                    ", ".join("%s=%s" % d for d in diff) or "positional %s" % (pos,)))
    ctx.floor("DATA.ENGINE-ARGS", 1)


def rule_sniff_pure(ctx):
    """DATA.ARGS-READONLY: the sniffer and the two data engines modify none of the objects they are handed apart from the file
    position.  LASFile.read() passes the same substitution lists first to the sniffer (column count) and then to the engine
    (tokens); a callee that edits such a list in place makes the count and the tokens disagree for exactly the inputs the
    edit concerns (the array is then reshaped into displaced, shorter curves)."""
    from sa.effects import get_effects, fmt_path
    p = ctx.p
    ea = get_effects(p)
    n = 0
    for q in ("reader.inspect_data_section", "reader.read_data_section_iterative_normal_engine",
              "reader.read_data_section_iterative_numpy_engine"):
        fi = p.func(q)
        n += 1
        bad = [e for e in ea.summary(fi) if e.path[0][0] == "param" and e.path[0][1] not in ("file_obj", "self")]
        ctx.check(not bad, "DATA.ARGS-READONLY", q + "#params", fi, bad[0].node if bad else fi.node,
                  "%s leaves the lists and options it is given unchanged" % fi.name,
                  bad and ("%s modifies its argument in place (%s %s at `%s`): read() hands the same object to the sniffer and to "
                           "the engine, so the column count and the tokens are no longer computed under the same substitutions"
                           % (fi.name, bad[0].kind, fmt_path(bad[0].path), unparse(bad[0].node)[:60])))
    ctx.floor("DATA.ARGS-READONLY", 3)
