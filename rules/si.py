"""Rule groups SI (C15, C13) and PK (C17): SectionItems / HeaderItem contracts in lasio/las_items.py.

SI.ACCESSORS     sibling cross-check: __contains__, __getitem__, __delitem__, set_item relate a key to an item only
                 through self.mnemonic_compare(key, item.mnemonic), scanning self in order, leaving at the first match;
                 __getattr__/__setattr__/get/set_item_value reach them; integer/slice fall-through to list, KeyError
SI.COMPARE       mnemonic_compare is equality, case-folded on both sides exactly when the section is case-normalised
SI.GET-PURE      get(): without add nothing is modified; with add exactly one append; the default object is never
                 aliased or modified
SI.DEL-ONE       __delitem__ removes exactly the matched index and returns
SI.SETVALUE-ONLY assigning a non-item writes only .value of the looked-up item; __setitem__ dispatches on item type
SI.SUFFIX-AFTER-INSERT / SI.SUFFIX-ALGO / SI.SESSION-ONLY / SI.UNKNOWN  (C13)
PK.STATE / PK.REBUILD / PK.INDEPENDENT  (C17)
"""
import ast

from sa.astutil import ordn

from sa import AnalysisError
from sa.astutil import unparse, parents, in_block, enclosing
from sa.cfg import build_cfg, EXC
from sa.dataflow import Provenance, ControlDependence, target_names
from sa.effects import get_effects, fmt_path, is_fresh
from sa.loader import walk_shallow, walk_expr_shallow
from sa.resolve import get_resolver

SI = "las_items.SectionItems"
HI = "las_items.HeaderItem"


def _is_super_call(call, name=None):
    f = call.func
    if not (isinstance(f, ast.Attribute) and isinstance(f.value, ast.Call) and isinstance(f.value.func, ast.Name)
            and f.value.func.id == "super"):
        return False
    return name is None or f.attr == name


def _self_loops(fi):
    """for-loops over self / enumerate(self): [(loop, elemvar, indexvar, iterexpr_ok)]"""
    out = []
    for sub in walk_shallow(fi.node):
        if isinstance(sub, ast.For):
            it = sub.iter
            elem = idx = None
            ordered = True
            if isinstance(it, ast.Name) and it.id == "self" and isinstance(sub.target, ast.Name):
                elem = sub.target.id
            elif (isinstance(it, ast.Call) and isinstance(it.func, ast.Name) and it.func.id == "enumerate" and it.args
                  and isinstance(sub.target, ast.Tuple) and len(sub.target.elts) == 2
                  and all(isinstance(e, ast.Name) for e in sub.target.elts)):
                inner = it.args[0]
                if isinstance(inner, ast.Name) and inner.id == "self":
                    idx, elem = sub.target.elts[0].id, sub.target.elts[1].id
                    if len(it.args) > 1 or it.keywords:
                        ordered = False
                elif "self" in {n.id for n in ast.walk(inner) if isinstance(n, ast.Name)}:
                    idx, elem = sub.target.elts[0].id, sub.target.elts[1].id
                    ordered = False
            elif "self" in {n.id for n in ast.walk(it) if isinstance(n, ast.Name)} and isinstance(sub.target, ast.Name):
                # reversed(self), sorted(self), self[::-1], self.values() ...
                elem = sub.target.id
                ordered = isinstance(it, ast.Call) and isinstance(it.func, ast.Attribute) and it.func.attr in (
                    "values", "itervalues") and isinstance(it.func.value, ast.Name) and it.func.value.id == "self"
            if elem:
                out.append((sub, elem, idx, ordered))
    return out


def _relations(fi, key, elems):
    """every expression relating the key parameter to (an attribute of) an element of self"""
    rel = []
    for sub in walk_shallow(fi.node):
        if isinstance(sub, ast.Call) and isinstance(sub.func, ast.Attribute) and sub.func.attr == "mnemonic_compare":
            args = [ast.unparse(a) for a in sub.args]
            rel.append(("compare", sub, args))
        elif isinstance(sub, ast.Compare):
            names = {n.id for n in ast.walk(sub) if isinstance(n, ast.Name)}
            if key in names and names & elems:
                rel.append(("raw", sub, [ast.unparse(sub)]))
        elif isinstance(sub, ast.Call) and isinstance(sub.func, ast.Attribute) and sub.func.attr in (
                "index", "count", "startswith", "endswith", "find", "__eq__", "__contains__"):
            names = {n.id for a in sub.args for n in ast.walk(a) if isinstance(n, ast.Name)}
            recv_names = {n.id for n in ast.walk(sub.func.value) if isinstance(n, ast.Name)}
            if key in names and ("self" in recv_names or recv_names & elems):
                rel.append(("raw", sub, [ast.unparse(sub)]))
    return rel


def _delegated_lookup(p, cls, fi, key):
    """the accessor's own body has no lookup; a nested function or a private method of the class that it calls holds the
    mnemonic_compare loop -> (helper, relations inside it, names standing for the key there, element names there)"""
    cands = []
    for nm, nf in fi.nested.items():
        if not isinstance(nf.node, ast.Lambda):
            cands.append((nf, True))
    for c in walk_shallow(fi.node):
        if isinstance(c, ast.Call) and isinstance(c.func, ast.Attribute) and isinstance(c.func.value, ast.Name) \
                and c.func.value.id == "self" and c.func.attr.startswith("_") and not c.func.attr.startswith("__"):
            m = cls.find_method(c.func.attr)
            if m is not None and m is not fi:
                cands.append((m, False))
    for hf, nested in cands:
        hparams = hf.params()
        if nested:
            hkey = {key, key + ".mnemonic"}
            loops = _self_loops(fi)
            helems = set(hparams) | {e for (_, e, _, _) in loops}
        else:
            hk = hparams[1] if len(hparams) > 1 else None
            hkey = {hk, "%s.mnemonic" % hk} if hk else set()
            helems = {e for (_, e, _, _) in _self_loops(hf)}
        rels = _relations(hf, key if nested else (hparams[1] if len(hparams) > 1 else key), helems)
        if any(r[0] == "compare" for r in rels):
            return hf, rels, hkey, helems
    return None


ACCESSORS = {
    "__contains__": {"action": "return-true"},
    "__getitem__": {"action": "return-elem"},
    "__delitem__": {"action": "super-del"},
    "set_item": {"action": "super-set"},
}


def _range_test_problems(cls, fi, key, mname):
    problems = []
    if mname in ("__getitem__", "__delitem__"):
        # positions are the list's business: a hand-written range test on the integer key must be exactly -n <= key < n
        scope_ = [(fi, key)]
        for call_ in walk_shallow(fi.node):
            # a private helper of the class that is handed the key (`self._position(key)`)
            if isinstance(call_, ast.Call) and isinstance(call_.func, ast.Attribute) and isinstance(call_.func.value, ast.Name) \
                    and call_.func.value.id == "self" and call_.func.attr.startswith("_") and not call_.func.attr.startswith("__") \
                    and len(call_.args) == 1 and isinstance(call_.args[0], ast.Name) and call_.args[0].id == key:
                hm = cls.find_method(call_.func.attr)
                if hm is not None and len(hm.params()) == 2:
                    scope_.append((hm, hm.params()[1]))
        for c_, key_ in [(c_, k_) for f_, k_ in scope_ for c_ in walk_shallow(f_.node)]:
            key__outer = key
            key = key_
            if isinstance(c_, ast.Compare) and any(isinstance(x, ast.Name) and x.id == key for x in [c_.left] + c_.comparators) \
                    and any("len(" in ast.unparse(x) or (isinstance(x, ast.Name) and x.id in ("size", "n", "length")) or isinstance(x, ast.UnaryOp)
                            for x in [c_.left] + c_.comparators) and all(isinstance(o, (ast.Lt, ast.LtE, ast.Gt, ast.GtE)) for o in c_.ops):
                txt = ast.unparse(c_)
                exact = (len(c_.ops) == 2 and isinstance(c_.ops[0], ast.LtE) and isinstance(c_.ops[1], ast.Lt)
                         and isinstance(c_.left, ast.UnaryOp) and isinstance(c_.left.op, ast.USub)
                         and ast.unparse(c_.left.operand) == ast.unparse(c_.comparators[1]) and isinstance(c_.comparators[0], ast.Name)
                         and c_.comparators[0].id == key)
                if not exact:
                    problems.append((c_, "the range test `%s` on an integer key is not the list's own `-len <= key < len`: a position the "
                                         "list accepts (such as -len(s)) is rejected, or one it rejects is accepted" % txt))
            key = key__outer
    return problems


def rule_accessors(ctx):
    p = ctx.p
    cls = p.cls(SI)
    for mname, spec in ACCESSORS.items():
        fi = p.func(SI + "." + mname)
        params = fi.params()
        if len(params) < 2:
            raise AnalysisError("%s has no key parameter" % fi.qual)
        key = params[1]
        loops = _self_loops(fi)
        elems = {e for (_, e, _, _) in loops}
        site = "%s#lookup" % fi.qual
        if not loops:
            # first match taken with next(<generator expression over self>, None): the relation between key and item is checked,
            # the first-match / action shape is not modelled in this form
            gens = [g for g in ast.walk(fi.node) if isinstance(g, (ast.GeneratorExp, ast.ListComp)) and len(g.generators) == 1
                    and "self" in {n_.id for n_ in ast.walk(g.generators[0].iter) if isinstance(n_, ast.Name)}
                    and any(isinstance(c_, ast.Call) and isinstance(c_.func, ast.Attribute) and c_.func.attr == "mnemonic_compare"
                            for i_ in g.generators[0].ifs for c_ in ast.walk(i_))]
            if gens:
                gprob = list(_range_test_problems(cls, fi, key, mname))
                for g in gens:
                    gel = set(target_names(g.generators[0].target))
                    for c_ in [c_ for i_ in g.generators[0].ifs for c_ in ast.walk(i_) if isinstance(c_, ast.Call)
                               and isinstance(c_.func, ast.Attribute) and c_.func.attr == "mnemonic_compare"]:
                        args = [ast.unparse(a_) for a_ in c_.args]
                        okc = len(args) == 2 and any(a_ in (key, key + ".mnemonic") and any(b_ == e_ + ".mnemonic" for e_ in gel)
                                                     for a_, b_ in ((args[0], args[1]), (args[1], args[0])))
                        if not okc:
                            gprob.append((c_, "compares %s: the lookup must match the key against item.mnemonic (the session mnemonic) only"
                                          % ", ".join(args)))
                    if not isinstance(g.generators[0].iter, ast.Name) and not (isinstance(g.generators[0].iter, ast.Call) and isinstance(
                            g.generators[0].iter.func, ast.Name) and g.generators[0].iter.func.id == "enumerate" and len(g.generators[0].iter.args) == 1
                            and not g.generators[0].iter.keywords):
                        gprob.append((g, "the lookup does not scan self front to back (%s)" % unparse(g.generators[0].iter)))
                # the position found may be 0: it is tested with `is None`, never for truthiness
                for a_ in walk_shallow(fi.node):
                    if isinstance(a_, ast.Assign) and len(a_.targets) == 1 and isinstance(a_.targets[0], ast.Name) and isinstance(a_.value, ast.Call) \
                            and isinstance(a_.value.func, ast.Name) and a_.value.func.id == "next" and any(g in ast.walk(a_.value) for g in gens):
                        pv = a_.targets[0].id
                        yields_index = any(isinstance(g.elt, ast.Name) and isinstance(g.generators[0].target, ast.Tuple)
                                           and g.generators[0].target.elts and isinstance(g.generators[0].target.elts[0], ast.Name)
                                           and g.elt.id == g.generators[0].target.elts[0].id for g in gens)
                        for t_ in [x.test for x in walk_shallow(fi.node) if isinstance(x, (ast.If, ast.While, ast.IfExp))]:
                            for c_ in (t_.values if isinstance(t_, ast.BoolOp) else [t_]):
                                inner = c_.operand if isinstance(c_, ast.UnaryOp) and isinstance(c_.op, ast.Not) else c_
                                if isinstance(inner, ast.Name) and inner.id == pv and yields_index:
                                    gprob.append((t_, "`%s` tests the position found for truthiness: position 0 (the first item) counts as "
                                                      "'not found'" % unparse(t_)))
                if gprob:
                    for node_, msg_ in gprob:
                        ctx.bad("SI.ACCESSORS", site, fi, node_, "%s: %s" % (mname, msg_))
                else:
                    ctx.undecided("SI.ACCESSORS", site, fi, fi.node, "%s takes its first match with next(<generator over self>): the key is "
                                  "matched with mnemonic_compare against item.mnemonic; action and fall-through shape are not decided "
                                  "in this form" % mname)
                continue
        rels = _relations(fi, key, elems)
        cmp_rels = [r for r in rels if r[0] == "compare"]
        problems = list(_range_test_problems(cls, fi, key, mname))
        # census of key<->item relations
        for kind, node, args in rels:
            if kind == "raw":
                # `testitem is item` in __contains__ is an identity fallback, not a lookup by name
                if (mname == "__contains__" and isinstance(node, ast.Compare) and len(node.ops) == 1
                        and isinstance(node.ops[0], ast.Is)):
                    continue
                problems.append((node, "relates the key to an item with `%s` instead of self.mnemonic_compare(key, "
                                       "item.mnemonic): this accessor no longer agrees with its siblings" % args[0]))
            else:
                ok = False
                if len(args) == 2:
                    for a, b in ((args[0], args[1]), (args[1], args[0])):
                        if a in (key, key + ".mnemonic") and any(b == e + ".mnemonic" for e in elems):
                            ok = True
                if not ok:
                    problems.append((node, "compares %s: the lookup must match the key against item.mnemonic "
                                           "(the session mnemonic) only" % ", ".join(args)))
        delegated = None
        if not cmp_rels and not any(in_block(r[1], [l[0]]) for r in rels for l in loops):
            delegated = _delegated_lookup(p, cls, fi, key)
        if delegated is not None:
            hf, hrels, hkey, helems = delegated
            for kind, node, args in hrels:
                if kind == "raw":
                    if isinstance(node, ast.Compare) and len(node.ops) == 1 and isinstance(node.ops[0], ast.Is):
                        continue
                    problems.append((node, "the lookup helper %s relates the key to an item with `%s` instead of "
                                           "self.mnemonic_compare(key, item.mnemonic)" % (hf.qual, args[0])))
                else:
                    okc = False
                    if len(args) == 2:
                        for a, b in ((args[0], args[1]), (args[1], args[0])):
                            if a in hkey and any(b == e + ".mnemonic" for e in helems):
                                okc = True
                    if not okc:
                        problems.append((node, "the lookup helper %s compares %s: the lookup must match the key against "
                                               "item.mnemonic only" % (hf.qual, ", ".join(args))))
            if problems:
                for node, msg in problems:
                    ctx.bad("SI.ACCESSORS", site, fi, node, "%s: %s" % (mname, msg))
            else:
                ctx.undecided("SI.ACCESSORS", site, fi, fi.node, "%s delegates its lookup to %s (which matches with mnemonic_compare "
                              "against item.mnemonic); first-match / action / fall-through shape not decided in this form"
                              % (mname, hf.qual))
            continue
        if not cmp_rels:
            problems.append((fi.node, "no self.mnemonic_compare(key, item.mnemonic) lookup found"))
        # exactly one lookup loop, iterating self in order
        lookup_loops = []
        for (loop, elem, idx, ordered) in loops:
            if any(in_block(r[1], [loop]) for r in rels):
                lookup_loops.append((loop, elem, idx, ordered))
        if len(lookup_loops) > 1:
            problems.append((lookup_loops[1][0], "%d separate lookup loops: the first match of one need not be the "
                                                 "first match of the other accessors" % len(lookup_loops)))
        for (loop, elem, idx, ordered) in lookup_loops:
            if not ordered:
                problems.append((loop, "lookup does not scan self front to back (%s)" % unparse(loop.iter)))
        # leave at first match + action
        cfg = build_cfg(p, fi)
        for (loop, elem, idx, ordered) in lookup_loops[:1]:
            head = cfg.nodes_for(loop)
            for kind, node, args in cmp_rels:
                if not in_block(node, [loop]):
                    continue
                iff = enclosing(node, (ast.If,))
                if iff is None or not in_block(iff, [loop]):
                    problems.append((node, "comparison result is not tested by an if inside the loop"))
                    continue
                tnodes = cfg.nodes_for(iff)
                for tn in tnodes:
                    for (succ, lab) in cfg.succ[tn]:
                        if lab == "true":
                            back = cfg.find_path(succ, head, skip_labels=EXC) if succ not in head else [succ]
                            if back:
                                problems.append((iff, "after a match the loop continues (no return/break): a later "
                                                      "item can be acted on as well"))
                act = spec["action"]
                body_calls = [c for s in iff.body for c in ast.walk(s) if isinstance(c, ast.Call)]
                rets = [s for st in iff.body for s in ast.walk(st) if isinstance(s, ast.Return)]
                if act == "return-true":
                    if not any(isinstance(r_.value, ast.Constant) and r_.value.value is True for r_ in rets):
                        problems.append((iff, "a match does not return True"))
                elif act == "return-elem":
                    if not any(isinstance(r_.value, ast.Name) and r_.value.id == elem for r_ in rets):
                        problems.append((iff, "a match does not return the matched item `%s`" % elem))
                elif act == "super-del":
                    dels = [c for c in body_calls if _is_super_call(c, "__delitem__")]
                    if len(dels) != 1 or not (dels[0].args and isinstance(dels[0].args[0], ast.Name) and dels[0].args[0].id == idx):
                        problems.append((iff, "a match must delete exactly the matched position `%s` through list.__delitem__" % idx))
                elif act == "super-set":
                    sets = [c for c in body_calls if _is_super_call(c, "__setitem__")]
                    if len(sets) != 1 or not (sets[0].args and isinstance(sets[0].args[0], ast.Name) and sets[0].args[0].id == idx):
                        problems.append((iff, "a match must replace exactly the matched position `%s` through list.__setitem__" % idx))
        # fall-through
        if mname in ("__getitem__", "__delitem__"):
            raises = [s for s in walk_shallow(fi.node) if isinstance(s, ast.Raise) and s.exc is not None
                      and "KeyError" in ast.unparse(s.exc)]
            if not raises:
                problems.append((fi.node, "a missing key no longer raises KeyError"))
            else:
                # the raise must be reachable without any deletion/return of an item: i.e. not dominated by extra lookups
                pass
            cd = ControlDependence(cfg)
            idx_names = {idx for (_, _, idx, _) in loops if idx}
            for c in [c for c in walk_shallow(fi.node) if isinstance(c, ast.Call) and _is_super_call(c, mname)]:
                if c.args and isinstance(c.args[0], ast.Name) and c.args[0].id == key:
                    nids = cfg.node_of_expr(c)
                    guarded = False
                    for nid in nids:
                        for (tn, lab) in cd.transitive(nid):
                            t = cfg.nodes[tn].ast
                            want_true = True
                            if isinstance(t, ast.UnaryOp) and isinstance(t.op, ast.Not):
                                t, want_true = t.operand, False
                            if (cfg.nodes[tn].kind == "test" and isinstance(t, ast.Call) and isinstance(t.func, ast.Name)
                                    and t.func.id == "isinstance" and t.args and isinstance(t.args[0], ast.Name)
                                    and t.args[0].id == key and lab.startswith("true") == want_true):
                                guarded = True
                    if not guarded:
                        problems.append((c, "list.%s(key) is not confined to integer/slice keys" % mname))
                elif c.args and not (isinstance(c.args[0], ast.Name) and c.args[0].id in idx_names):
                    # a positional fall-through on something computed from the key (int(key), key + 0 ...): strings that look
                    # like numbers become positions
                    arg = c.args[0]
                    if isinstance(arg, ast.Name):
                        dfs = [s_.value for s_ in walk_shallow(fi.node) if isinstance(s_, ast.Assign) and any(
                            isinstance(t, ast.Name) and t.id == arg.id for t in s_.targets)]
                    else:
                        dfs = [arg]
                    if any(isinstance(x, ast.Name) and x.id == key for d in dfs for x in ast.walk(d)):
                        problems.append((c, "list.%s is called with `%s`, a position computed from the key: a missing string key such "
                                            "as '1' is silently treated as an index (and `in`/get() disagree with item access)"
                                         % (mname, unparse(dfs[0]))))
        if mname == "__contains__":
            rets = [s for s in walk_shallow(fi.node) if isinstance(s, ast.Return)]
            if not any(isinstance(r_.value, ast.Constant) and r_.value.value is False for r_ in rets):
                problems.append((fi.node, "no `return False` for a key that matches nothing"))
        if mname == "set_item":
            apps = [c for c in walk_shallow(fi.node) if isinstance(c, ast.Call) and isinstance(c.func, ast.Attribute)
                    and c.func.attr == "append"]
            if not apps:
                problems.append((fi.node, "a key that matches nothing no longer appends the new item"))
        if problems:
            seen = set()
            for node, msg in problems:
                if msg in seen:
                    continue
                seen.add(msg)
                ctx.bad("SI.ACCESSORS", site, fi, node, "%s: %s" % (mname, msg))
        else:
            ctx.ok("SI.ACCESSORS", site, fi, fi.node, "%s scans self in order, matches with mnemonic_compare(%s, item.mnemonic), "
                   "acts on the first match only, falls through as documented" % (mname, key))
    # derived accessors reach the primary ones
    derived = {
        "__getattr__": ("in-self", "self[key]"),
        "__setattr__": ("in-self", "self[key]="),
        "get": ("in-self", "self[key]"),
        "set_item_value": (None, "self[key]"),
    }
    for mname, (memb, acc) in derived.items():
        fi = p.func(SI + "." + mname)
        key = fi.params()[1]
        site = "%s#delegates" % fi.qual
        problems = []
        has_in = any(isinstance(s, ast.Compare) and len(s.ops) == 1 and isinstance(s.ops[0], ast.In)
                     and isinstance(s.left, ast.Name) and s.left.id == key
                     and isinstance(s.comparators[0], ast.Name) and s.comparators[0].id == "self"
                     for s in walk_shallow(fi.node))
        subs = [s for s in walk_shallow(fi.node) if isinstance(s, ast.Subscript) and isinstance(s.value, ast.Name)
                and s.value.id == "self" and isinstance(s.slice, ast.Name) and s.slice.id == key]
        if memb and not has_in:
            problems.append("membership is not decided by `%s in self`" % key)
        if acc == "self[key]=":
            if not any(isinstance(s.ctx, ast.Store) for s in subs):
                problems.append("does not assign through self[%s] = ..." % key)
        elif not any(isinstance(s.ctx, ast.Load) for s in subs):
            problems.append("does not fetch the item through self[%s]" % key)
        if mname == "get":
            # add=True appends exactly one item and only for a key that is missing: every append in get() is on the not-in-self side
            # of the membership test
            cfg_g = build_cfg(p, fi)
            cd_g = ControlDependence(cfg_g)
            for nd in cfg_g.nodes:
                if nd.ast is None or nd.kind != "stmt":
                    continue
                for c_ in walk_expr_shallow(nd.ast):
                    if isinstance(c_, ast.Call) and isinstance(c_.func, ast.Attribute) and c_.func.attr in ("append", "insert", "extend") \
                            and isinstance(c_.func.value, ast.Name) and c_.func.value.id == "self":
                        under = False
                        for (tn, lab) in cd_g.transitive(nd.id):
                            t_ = cfg_g.nodes[tn].ast
                            if cfg_g.nodes[tn].kind != "test":
                                continue
                            pol = lab.startswith("true")
                            while isinstance(t_, ast.UnaryOp) and isinstance(t_.op, ast.Not):
                                t_, pol = t_.operand, not pol
                            if isinstance(t_, ast.Compare) and len(t_.ops) == 1 and isinstance(t_.left, ast.Name) and t_.left.id == key \
                                    and isinstance(t_.comparators[0], ast.Name) and t_.comparators[0].id == "self":
                                if (isinstance(t_.ops[0], ast.In) and not pol) or (isinstance(t_.ops[0], ast.NotIn) and pol):
                                    under = True
                        if not under:
                            problems.append("`%s` is not confined to a key that is missing (`%s not in self`): get(k, add=True) on an existing "
                                            "key appends the item a second time, the suffixes are renumbered and `k in s` turns false" % (
                                                unparse(c_), key))
        # the delegation must not be restricted by further tests on the key (other than the list of plain attributes)
        if mname in ("__getattr__",):
            for s_ in walk_shallow(fi.node):
                if isinstance(s_, ast.If):
                    for atom in (s_.test.values if isinstance(s_.test, ast.BoolOp) else [s_.test]):
                        names = {n.id for n in ast.walk(atom) if isinstance(n, ast.Name)}
                        if key in names:
                            txt = ast.unparse(atom)
                            ok_atom = (txt in ("%s in self" % key,) or
                                       (isinstance(atom, ast.Compare) and isinstance(atom.ops[0], ast.NotIn) and isinstance(atom.comparators[0], ast.Name)) or
                                       (isinstance(atom, ast.UnaryOp) and isinstance(atom.operand, ast.Compare) and isinstance(atom.operand.ops[0], ast.In)
                                        and isinstance(atom.operand.comparators[0], ast.Name) and atom.operand.comparators[0].id != "self"))
                            if not ok_atom and isinstance(atom, ast.Compare) and isinstance(atom.ops[0], ast.NotIn) \
                                    and isinstance(atom.comparators[0], (ast.Tuple, ast.List, ast.Set)):
                                # a literal list of the section's own plain attributes (not mnemonics)
                                census = _attr_census(p, p.cls(SI))
                                ok_atom = all(isinstance(e, ast.Constant) and e.value in census for e in atom.comparators[0].elts)
                            if not ok_atom:
                                problems.append("attribute access is additionally restricted by `%s`: for such keys getattr() raises "
                                                "although the key is in the section" % txt)
        # no private scan of its own
        own = _relations(fi, key, {e for (_, e, _, _) in _self_loops(fi)})
        if own:
            problems.append("contains its own key comparison `%s` instead of delegating" % own[0][2][0])
        ctx.check(not problems, "SI.ACCESSORS", site, fi, fi.node,
                  "%s decides membership with `in self` and fetches with self[key]" % mname,
                  "%s: %s" % (mname, "; ".join(problems)))
    ctx.floor("SI.ACCESSORS", 8)


def rule_compare(ctx):
    p = ctx.p
    fi = p.func(SI + ".mnemonic_compare")
    params = fi.params()
    a, b = params[1], params[2]
    site = fi.qual + "#equality"
    problems = []
    rets_true = []
    cfg = build_cfg(p, fi)
    cd = ControlDependence(cfg)
    for node in cfg.nodes:
        if node.kind == "stmt" and isinstance(node.ast, ast.Return):
            v = node.ast.value
            if isinstance(v, ast.Call) and isinstance(v.func, ast.Name) and v.func.id == "bool" and len(v.args) == 1 and not v.keywords:
                v = v.args[0]      # bool(a == b)
                node.ast._unwrapped = v
            if isinstance(v, ast.Constant) and v.value is True:
                rets_true.append(node)
            elif isinstance(v, ast.Constant) and v.value is False:
                pass
            elif isinstance(v, ast.Compare):
                rets_true.append(node)
            else:
                problems.append("returns `%s`" % unparse(v) if v is not None else "returns None")
    branches = {"folded": 0, "plain": 0}
    for node in rets_true:
        tests = [(cfg.nodes[tn].ast, lab) for (tn, lab) in cd.transitive(node.id) if cfg.nodes[tn].kind == "test"]
        rv = getattr(node.ast, "_unwrapped", node.ast.value)
        if isinstance(rv, ast.Compare):
            tests.append((rv, "true"))
        eqs = []
        tr = None
        for t, lab in tests:
            if isinstance(t, ast.Attribute) and t.attr == "mnemonic_transforms":
                tr = lab.startswith("true")
            elif isinstance(t, ast.UnaryOp) and isinstance(t.op, ast.Not) and isinstance(t.operand, ast.Attribute) and t.operand.attr == "mnemonic_transforms":
                tr = not lab.startswith("true")
            elif isinstance(t, ast.Compare) and len(t.ops) == 1:
                eqs.append((t, lab))
        if tr is None:
            problems.append("a True result is not conditioned on self.mnemonic_transforms")
            continue
        if len(eqs) != 1 or not isinstance(eqs[0][0].ops[0], ast.Eq) or not eqs[0][1].startswith("true"):
            problems.append("a True result is not decided by exactly one == test")
            continue
        l, r_ = eqs[0][0].left, eqs[0][0].comparators[0]

        def shape(e):
            if isinstance(e, ast.Name):
                return (e.id, None)
            if (isinstance(e, ast.Call) and isinstance(e.func, ast.Attribute) and not e.args
                    and isinstance(e.func.value, ast.Name)):
                return (e.func.value.id, e.func.attr)
            return (None, None)
        sl, sr = shape(l), shape(r_)
        if {sl[0], sr[0]} != {a, b}:
            problems.append("compares %s with %s, not its two arguments" % (unparse(l), unparse(r_)))
            continue
        if tr:
            if sl[1] != sr[1] or sl[1] not in ("upper", "lower", "casefold"):
                problems.append("case-normalised branch applies %s / %s: both sides need the same case mapping"
                                % (sl[1], sr[1]))
            branches["folded"] += 1
        else:
            if sl[1] is not None or sr[1] is not None:
                problems.append("exact branch transforms an operand (%s / %s)" % (sl[1], sr[1]))
            branches["plain"] += 1
    if not branches["folded"] or not branches["plain"]:
        problems.append("expected one case-folded and one exact equality branch, found %s" % branches)
    for sub in walk_shallow(fi.node):
        if isinstance(sub, (ast.Assign, ast.AugAssign, ast.AnnAssign)):
            targets = sub.targets if isinstance(sub, ast.Assign) else [sub.target]
            for t in targets:
                if set(target_names(t)) & {a, b}:
                    problems.append("the arguments are rewritten before the comparison (`%s`): e.g. str() coercion makes the "
                                    "integer position 1 equal to the mnemonic '1', so positional access returns the wrong item"
                                    % unparse(sub))
        if isinstance(sub, ast.Call) and isinstance(sub.func, ast.Name) and sub.func.id in ("str", "repr", "format") and sub.args \
                and isinstance(sub.args[0], ast.Name) and sub.args[0].id in (a, b):
            problems.append("an argument is coerced with %s(): integer keys then match digit-string mnemonics" % sub.func.id)
    ctx.check(not problems, "SI.COMPARE", site, fi, fi.node,
              "mnemonic_compare is == on both arguments, case-folded on both sides exactly when mnemonic_transforms",
              "mnemonic_compare: " + "; ".join(problems))
    ctx.floor("SI.COMPARE", 1)


def rule_get_pure(ctx):
    p = ctx.p
    ea = get_effects(p)
    fi = p.func(SI + ".get")
    cfg = build_cfg(p, fi)
    cd = ControlDependence(cfg)
    params = fi.params()
    addp = "add" if "add" in params else None
    if addp is None:
        raise AnalysisError("SectionItems.get has no `add` parameter")
    defp = "default" if "default" in params else params[2]
    effs = ea.summary(fi)
    n_self = 0
    for e in effs:
        root = e.path[0]
        site = "%s#%s:%s" % (fi.qual, e.kind, fmt_path(e.path))
        if root == ("param", "self"):
            if e.fi is not fi:
                continue   # consequences of the append itself (suffix renumbering) - covered by the append instance
            n_self += 1
            nids = cfg.node_of_expr(e.node)
            guarded = bool(nids)
            for nid in nids:
                g = False
                for (tn, lab) in cd.transitive(nid):
                    t = cfg.nodes[tn].ast
                    if cfg.nodes[tn].kind == "test" and isinstance(t, ast.Name) and t.id == addp and lab.startswith("true"):
                        g = True
                    if (cfg.nodes[tn].kind == "test" and isinstance(t, ast.Compare) and isinstance(t.left, ast.Name)
                            and t.left.id == addp and lab.startswith("true") and isinstance(t.comparators[0], ast.Constant)
                            and t.comparators[0].value is True):
                        g = True
                guarded = guarded and g
            is_append = (isinstance(e.node, ast.Call) and isinstance(e.node.func, ast.Attribute)
                         and e.node.func.attr == "append")
            if not guarded:
                ctx.bad("SI.GET-PURE", site, fi, e.node, "get() modifies the section (%s %s) on a path not confined to "
                        "add=True" % (e.kind, fmt_path(e.path)))
            elif not is_append:
                ctx.bad("SI.GET-PURE", site, fi, e.node, "with add=True get() must only append one item; found %s"
                        % unparse(e.node))
            else:
                ctx.ok("SI.GET-PURE", site, fi, e.node, "the only modification of self is one append, under `if %s`" % addp)
        elif root[0] == "param":
            ctx.bad("SI.GET-PURE", site, e.fi, e.node, "get() modifies its argument %s (%s): the object passed as "
                    "default (possibly an item of this very section) is changed" % (fmt_path(e.path), e.kind))
        elif root[0] == "global":
            ctx.bad("SI.GET-PURE", site, e.fi, e.node, "get() modifies module state %s" % fmt_path(e.path))
    if n_self == 0:
        ctx.bad("SI.GET-PURE", fi.qual + "#append", fi, fi.node, "get(add=True) never appends the new item")
    if n_self > 1:
        ctx.bad("SI.GET-PURE", fi.qual + "#append-count", fi, fi.node, "get() contains %d modifications of the section; "
                "exactly one append is expected" % n_self)
    # the append is the commit point: nothing that can raise follows it, so a get(add=True) that fails leaves the section as it was
    # (a half-built item left behind makes `key in section` true for an item get() never returned)
    for c in walk_shallow(fi.node):
        if isinstance(c, ast.Call) and isinstance(c.func, ast.Attribute) and c.func.attr == "append" \
                and isinstance(c.func.value, ast.Name) and c.func.value.id == "self":
            for a in cfg.node_of_expr(c) or []:
                for nid in cfg.reachable(a, skip_labels=EXC):
                    st = cfg.nodes[nid].ast
                    if st is None or nid == a or isinstance(st, (ast.Return, ast.Pass)) or cfg.nodes[nid].kind in ("join", "exit", "entry"):
                        continue
                    if isinstance(st, ast.Expr) and isinstance(st.value, ast.Call) and ast.unparse(st.value.func).startswith(("logger.", "logging.")):
                        continue
                    if isinstance(st, ast.Expr) and isinstance(st.value, ast.Constant):
                        continue
                    if cfg.nodes[nid].kind == "test" and isinstance(st, (ast.Name, ast.Constant)):
                        continue
                    ctx.bad("SI.GET-PURE", fi.qual + "#commit-last", fi, st,
                            "get() goes on with `%s` after the new item was appended: if that raises, the failed get() leaves a "
                            "half-built item in the section, which membership and later lookups then report" % unparse(st)[:80])
                    break
    # what is returned / appended never aliases the default object
    rps = ea.return_paths(fi)
    alias = [x for x in rps if x[0] == ("param", defp)]
    ctx.check(not alias, "SI.GET-PURE", fi.qual + "#fresh-item", fi, fi.node,
              "the item returned for a missing key is newly built (or the existing section item), never the default object",
              "get() returns the object passed as `%s` itself: appending/renaming it aliases or modifies an existing item" % defp)
    ctx.floor("SI.GET-PURE", 2)


def rule_setvalue_only(ctx):
    p = ctx.p
    ea = get_effects(p)
    fi = p.func(SI + ".set_item_value")
    effs = [e for e in ea.local_effects(fi)]
    key = fi.params()[1]
    want = (("param", "self"), ("elem", "*"), ("attr", "value"))
    bad = [e for e in effs if e.path != want]
    ctx.check(bool(effs) and not bad, "SI.SETVALUE-ONLY", fi.qual + "#effects", fi, fi.node,
              "set_item_value writes only self[key].value",
              "set_item_value must write only the .value of the looked-up item; it writes %s"
              % ([fmt_path(e.path) for e in effs] or "nothing"))
    # __setitem__ dispatch
    fs = p.func(SI + ".__setitem__")
    cfg = build_cfg(p, fs)
    cd = ControlDependence(cfg)
    newp = fs.params()[2]
    calls = {}
    for sub in walk_shallow(fs.node):
        if isinstance(sub, ast.Call) and isinstance(sub.func, ast.Attribute) and sub.func.attr in ("set_item", "set_item_value"):
            calls[sub.func.attr] = sub
    problems = []
    for name, pol in (("set_item", "true"), ("set_item_value", "false")):
        if name not in calls:
            problems.append("no call of %s" % name)
            continue
        ok = False
        for nid in cfg.node_of_expr(calls[name]):
            for (tn, lab) in cd.transitive(nid):
                t = cfg.nodes[tn].ast
                if (cfg.nodes[tn].kind == "test" and isinstance(t, ast.Call) and isinstance(t.func, ast.Name)
                        and t.func.id == "isinstance" and len(t.args) == 2 and isinstance(t.args[0], ast.Name)
                        and t.args[0].id == newp and "HeaderItem" in ast.unparse(t.args[1]) and lab.startswith(pol)):
                    ok = True
        if not ok:
            problems.append("%s is not selected by isinstance(%s, HeaderItem) being %s" % (name, newp, pol))
    ctx.check(not problems, "SI.SETVALUE-ONLY", fs.qual + "#dispatch", fs, fs.node,
              "__setitem__ replaces the item for HeaderItem/CurveItem values and sets .value otherwise",
              "__setitem__: " + "; ".join(problems))
    ctx.floor("SI.SETVALUE-ONLY", 2)


# ============================================================================================ C13

PLACERS = ("append", "insert", "__setitem__", "extend", "__iadd__")


def rule_suffix_after_insert(ctx):
    p = ctx.p
    cls = p.cls(SI)
    n = 0
    for mname, fi in sorted(cls.methods.items()):
        if isinstance(fi.node, ast.Lambda):
            continue
        cfg = build_cfg(p, fi)
        placers = []
        renumber = []
        for node in cfg.nodes:
            if node.ast is None or node.kind not in ("stmt", "test"):
                continue
            for sub in walk_expr_shallow(node.ast):
                if isinstance(sub, ast.Call) and _is_super_call(sub) and sub.func.attr in PLACERS:
                    placers.append((node.id, sub))
                if isinstance(sub, ast.Call) and isinstance(sub.func, ast.Attribute) and sub.func.attr == "assign_duplicate_suffixes":
                    renumber.append(node.id)
                # delegation to append/insert of self counts as renumbering (they are checked themselves)
                if (isinstance(sub, ast.Call) and isinstance(sub.func, ast.Attribute) and sub.func.attr in ("append", "insert")
                        and isinstance(sub.func.value, ast.Name) and sub.func.value.id == "self"):
                    renumber.append(node.id)
        for nid, call in placers:
            n += 1
            site = "%s#%s" % (fi.qual, call.func.attr)
            pth = cfg.find_path(nid, [cfg.exit], avoid=renumber, skip_labels=EXC)
            if pth:
                ctx.bad("SI.SUFFIX-AFTER-INSERT", site, fi, call,
                        "%s places an item with list.%s and can return without re-assigning duplicate suffixes: two "
                        "items may end up with the same session mnemonic" % (fi.qual, call.func.attr),
                        cfg.describe_path(pth))
            else:
                # the renumbering call must be unconditional w.r.t. data: argument is the new item's useful mnemonic or nothing
                ctx.ok("SI.SUFFIX-AFTER-INSERT", site, fi, call, "every path from list.%s to a normal return passes "
                       "assign_duplicate_suffixes" % call.func.attr)
    # renumbering is called with the placed item's useful mnemonic (or without argument)
    for mname in ("append", "insert", "set_item"):
        fi = p.func(SI + "." + mname)
        newp = fi.params()[-1]
        for sub in walk_shallow(fi.node):
            if isinstance(sub, ast.Call) and isinstance(sub.func, ast.Attribute) and sub.func.attr == "assign_duplicate_suffixes":
                n += 1
                site = "%s#renumber-arg" % fi.qual
                ok = (not sub.args and not sub.keywords) or (
                    len(sub.args) == 1 and ast.unparse(sub.args[0]) in (newp + ".useful_mnemonic",))
                ctx.check(ok, "SI.SUFFIX-AFTER-INSERT", site, fi, sub,
                          "renumbering is requested for the new item's useful mnemonic",
                          "assign_duplicate_suffixes is called with `%s`; it must be given the new item's "
                          "useful_mnemonic (or nothing)" % (unparse(sub.args[0]) if sub.args else "?"))
                # and must not be conditional on anything
                cfg = build_cfg(p, fi)
                cd = ControlDependence(cfg)
                conds = set()
                for nid in cfg.node_of_expr(sub):
                    for (tn, lab) in cd.transitive(nid):
                        if cfg.nodes[tn].kind == "test":
                            t = cfg.nodes[tn].ast
                            # set_item: being under the key-match test is inherent
                            if mname == "set_item" and any(isinstance(c, ast.Call) and isinstance(c.func, ast.Attribute)
                                                           and c.func.attr == "mnemonic_compare" for c in ast.walk(t)):
                                continue
                            # ... also when the match was remembered in a variable (`position = next(<matches>, None)`)
                            tn_ = {x.id for x in ast.walk(t) if isinstance(x, ast.Name)}
                            if mname == "set_item" and any(isinstance(a_, ast.Assign) and any(isinstance(t_, ast.Name) and t_.id in tn_ for t_ in a_.targets)
                                                           and any(isinstance(c, ast.Call) and isinstance(c.func, ast.Attribute)
                                                                   and c.func.attr == "mnemonic_compare" for c in ast.walk(a_.value))
                                                           for a_ in walk_shallow(fi.node)):
                                continue
                            conds.add(unparse(t))
                ctx.check(not conds, "SI.SUFFIX-AFTER-INSERT", "%s#renumber-unconditional" % fi.qual, fi, sub,
                          "renumbering after %s is unconditional" % mname,
                          "renumbering after %s happens only if %s: items placed otherwise keep stale or missing "
                          "suffixes" % (mname, " and ".join(sorted(conds))))
    # LASFile.set_data renames curves in place: must renumber afterwards
    fi = p.func("las.LASFile.set_data")
    cfg = build_cfg(p, fi)
    ren = []
    stores = []
    for node in cfg.nodes:
        if node.ast is None or node.kind != "stmt":
            continue
        if isinstance(node.ast, ast.Assign):
            for t in node.ast.targets:
                if isinstance(t, ast.Attribute) and t.attr == "mnemonic":
                    stores.append(node.id)
        for sub in walk_expr_shallow(node.ast):
            if isinstance(sub, ast.Call) and isinstance(sub.func, ast.Attribute) and sub.func.attr == "assign_duplicate_suffixes":
                if not sub.args and not sub.keywords:
                    ren.append(node.id)
    for nid in stores:
        n += 1
        pth = cfg.find_path(nid, [cfg.exit], avoid=ren, skip_labels=EXC)
        ctx.check(pth is None, "SI.SUFFIX-AFTER-INSERT", "las.LASFile.set_data#rename", fi, cfg.nodes[nid].ast,
                  "after renaming curves every path re-assigns all duplicate suffixes (no-argument call)",
                  "set_data renames curves and can return without a full assign_duplicate_suffixes(): renamed duplicates "
                  "(and several blank names) keep colliding session mnemonics",
                  cfg.describe_path(pth) if pth else None)
    ctx.floor("SI.SUFFIX-AFTER-INSERT", 5)


def rule_suffix_algo(ctx):
    p = ctx.p
    fi = p.func(SI + ".assign_duplicate_suffixes")
    tm = fi.params()[1]
    site = fi.qual
    problems = []
    loops = _self_loops(fi)
    elems = {e for (_, e, _, _) in loops}
    for sub in walk_shallow(fi.node):
        if isinstance(sub, (ast.ListComp, ast.GeneratorExp)):
            for g in sub.generators:
                if "self" in {n.id for n in ast.walk(g.iter) if isinstance(n, ast.Name)}:
                    elems |= set(target_names(g.target))
    # flat form: `names = [tm]` / `names = {i.useful_mnemonic for i in self}`; `for m in names:` - m is the mnemonic under test
    tms = {tm}
    flat_all = False
    for lp_ in [x for x in walk_shallow(fi.node) if isinstance(x, ast.For) and isinstance(x.target, ast.Name) and isinstance(x.iter, ast.Name)]:
        srcs = [a_.value for a_ in walk_shallow(fi.node) if isinstance(a_, ast.Assign) and any(isinstance(t_, ast.Name) and t_.id == lp_.iter.id for t_ in a_.targets)]
        one = [v for v in srcs if isinstance(v, (ast.List, ast.Tuple)) and len(v.elts) == 1 and isinstance(v.elts[0], ast.Name) and v.elts[0].id == tm]
        every = [v for v in srcs if isinstance(v, (ast.SetComp, ast.ListComp)) and "useful_mnemonic" in ast.unparse(v.elt)
                 and any("self" in {n.id for n in ast.walk(g.iter) if isinstance(n, ast.Name)} for g in v.generators)]
        if srcs and len(one) + len(every) == len(srcs) and one:
            tms.add(lp_.target.id)
            flat_all = bool(every)
    # 1. the only use of the test mnemonic in a comparison is mnemonic_compare(item.useful_mnemonic, test_mnemonic)
    cmp_ok = 0
    for sub in walk_shallow(fi.node):
        if isinstance(sub, ast.Call) and isinstance(sub.func, ast.Attribute) and sub.func.attr == "mnemonic_compare":
            args = [ast.unparse(a) for a in sub.args]
            if len(args) == 2 and (set(args) & tms) and any(a == e + ".useful_mnemonic" for a in args for e in elems):
                cmp_ok += 1
            else:
                problems.append((sub, "duplicates are detected with mnemonic_compare(%s); it must compare "
                                      "item.useful_mnemonic with the mnemonic under test" % ", ".join(args)))
        elif isinstance(sub, ast.Compare):
            names = {n.id for n in ast.walk(sub) if isinstance(n, ast.Name)}
            if (tms & names) and not (len(sub.ops) == 1 and isinstance(sub.ops[0], (ast.Is, ast.IsNot))):
                problems.append((sub, "`%s` compares the mnemonic under test directly, bypassing mnemonic_compare (case "
                                      "variants in a case-normalised section are missed)" % unparse(sub)))
        elif isinstance(sub, ast.Call) and isinstance(sub.func, ast.Attribute) and sub.func.attr in ("count", "index"):
            if any(isinstance(n, ast.Name) and n.id in tms for a in sub.args for n in ast.walk(a)):
                problems.append((sub, "`%s` counts exact matches of the mnemonic under test, bypassing mnemonic_compare"
                                 % unparse(sub)))
    if cmp_ok != 1:
        problems.append((fi.node, "expected exactly one mnemonic_compare(item.useful_mnemonic, %s) scan, found %d" % (tm, cmp_ok)))
    # 2. the all-mnemonics branch recurses over every useful mnemonic
    rec = [s for s in walk_shallow(fi.node) if isinstance(s, ast.Call) and isinstance(s.func, ast.Attribute)
           and s.func.attr == "assign_duplicate_suffixes"]
    if not rec and flat_all:
        pass      # flat form: the no-argument case loops over the useful mnemonics of all items itself
    elif not rec:
        problems.append((fi.node, "the no-argument form no longer renumbers every mnemonic"))
    else:
        lp = enclosing(rec[0], (ast.For,))
        if lp is None or "useful_mnemonic" not in ast.unparse(lp.iter):
            problems.append((rec[0], "the no-argument form must iterate over the useful mnemonics of all items"))
    # 3. numbering: only if more than one; suffix ":%d" % (position in match order + 1) via set_session_mnemonic_only
    setters = [s for s in walk_shallow(fi.node) if isinstance(s, ast.Call) and isinstance(s.func, ast.Attribute)
               and s.func.attr == "set_session_mnemonic_only"]
    if len(setters) != 1:
        problems.append((fi.node, "expected exactly one set_session_mnemonic_only(...) call, found %d" % len(setters)))
    else:
        st = setters[0]
        arg = st.args[0] if st.args else None
        lp = enclosing(st, (ast.For,))
        txt = ast.unparse(arg) if arg is not None else ""
        if lp is None or not (isinstance(lp.iter, ast.Call) and isinstance(lp.iter.func, ast.Name) and lp.iter.func.id == "enumerate"):
            problems.append((st, "suffix numbers must come from enumerate() over the matching positions"))
        else:
            ivar = lp.target.elts[0].id if isinstance(lp.target, ast.Tuple) and isinstance(lp.target.elts[0], ast.Name) else None
            start = 0
            sarg = lp.iter.args[1] if len(lp.iter.args) > 1 else next((k.value for k in lp.iter.keywords if k.arg == "start"), None)
            if sarg is not None:
                start = sarg.value if isinstance(sarg, ast.Constant) and isinstance(sarg.value, int) else None
            # the number used = ivar + c ; need start + c == 1
            offs = None
            if arg is not None:
                for b in ast.walk(arg):
                    if isinstance(b, ast.BinOp) and isinstance(b.op, ast.Add):
                        l, r_ = b.left, b.right
                        if isinstance(l, ast.Name) and l.id == ivar and isinstance(r_, ast.Constant) and isinstance(r_.value, int):
                            offs = r_.value
                        if isinstance(r_, ast.Name) and r_.id == ivar and isinstance(l, ast.Constant) and isinstance(l.value, int):
                            offs = l.value
                if offs is None and any(isinstance(n_, ast.Name) and n_.id == ivar for n_ in ast.walk(arg)):
                    offs = 0
            consts = [c.value for c in ast.walk(arg) if isinstance(c, ast.Constant)] if arg is not None else []
            if start is None or offs is None or start + offs != 1:
                problems.append((st, "suffix must be the 1-based position among the matching items (enumerate start %s, offset %s)"
                                 % (start, offs)))
            if not any(isinstance(c, str) and c.startswith(":") and "%" in c for c in consts) and ":{" not in txt:
                problems.append((st, "suffix format is not ':<n>' (%s)" % txt))
            if "useful_mnemonic" not in txt:
                problems.append((st, "the suffixed name must be built from item.useful_mnemonic"))
        # every matching item is renamed: inside the numbering loop nothing skips an item (no continue / break / extra condition)
        if lp is not None:
            for x in ast.walk(lp):
                if isinstance(x, (ast.Continue, ast.Break)):
                    problems.append((x, "the numbering loop skips items (`%s`): an item that keeps an old ':n' suffix can end up with the "
                                        "same session name as a newly numbered one" % type(x).__name__.lower()))
            cur_ = st
            for par in parents(st):
                if par is lp:
                    break
                if isinstance(par, (ast.If, ast.Try, ast.While)):
                    problems.append((par, "inside the numbering loop the renaming is conditional on `%s`: some duplicates keep stale names"
                                     % (unparse(par.test) if hasattr(par, "test") else type(par).__name__)))
                cur_ = par
        guard = None
        cur = st
        for par in parents(st):
            if isinstance(par, ast.If) and in_block(cur, par.body):
                t = par.test
                if (isinstance(t, ast.Compare) and len(t.ops) == 1 and isinstance(t.left, ast.Call)
                        and isinstance(t.left.func, ast.Name) and t.left.func.id == "len"):
                    op, c = t.ops[0], t.comparators[0]
                    if isinstance(c, ast.Constant):
                        if (isinstance(op, ast.Gt) and c.value == 1) or (isinstance(op, ast.GtE) and c.value == 2):
                            guard = "ok"
                        else:
                            guard = unparse(t)
            if isinstance(par, ast.FunctionDef):
                break
            cur = par
        if guard is None:
            problems.append((st, "renumbering is not guarded by `more than one match` (unique names must stay untouched)"))
        elif guard != "ok":
            problems.append((st, "renumbering guard `%s` is not `len(matches) > 1`" % guard))
    # 4. early exits before the scan
    cfg = build_cfg(p, fi)
    for node in cfg.nodes:
        if node.kind == "stmt" and isinstance(node.ast, ast.Return):
            # a guard-clause `return` that ends the "check all mnemonics" branch (after the recursive loop) is the if/else in
            # another spelling
            par = getattr(node.ast, "_parent", None)
            ok_guard = False
            if isinstance(par, ast.If) and node.ast in par.body and par.body[-1] is node.ast and getattr(par, "_parent", None) is fi.node:
                t = par.test
                is_none = isinstance(t, ast.Compare) and len(t.ops) == 1 and isinstance(t.ops[0], ast.Is) and isinstance(t.comparators[0], ast.Constant) \
                    and t.comparators[0].value is None and isinstance(t.left, ast.Name) and t.left.id in fi.params()
                recurses = any(isinstance(c, ast.Call) and isinstance(c.func, ast.Attribute) and c.func.attr == fi.name
                               for st_ in par.body[:-1] for c in ast.walk(st_))
                ok_guard = is_none and recurses and (node.ast.value is None)
            if not ok_guard:
                problems.append((node.ast, "early return inside assign_duplicate_suffixes: some duplicates are left "
                                           "un-numbered"))
    if problems:
        seen = set()
        for node, msg in problems:
            if msg not in seen:
                seen.add(msg)
                ctx.bad("SI.SUFFIX-ALGO", site + "#" + type(node).__name__, fi, node, msg)
    else:
        ctx.ok("SI.SUFFIX-ALGO", site, fi, fi.node, "matches by mnemonic_compare on useful_mnemonic, numbers :1..:n in "
               "section order through set_session_mnemonic_only, only when more than one item matches")
    ctx.floor("SI.SUFFIX-ALGO", 1)


def rule_session_only(ctx):
    """Disambiguation never touches the original mnemonic; renames in LASFile use original names."""
    p = ctx.p
    ea = get_effects(p)
    cls = p.cls(SI)
    n = 0
    for mname, fi in sorted(cls.methods.items()):
        for e in ea.local_effects(fi):
            if e.path[-1] == ("attr", "original_mnemonic"):
                n += 1
                ctx.bad("SI.SESSION-ONLY", "%s#original" % fi.qual, fi, e.node,
                        "%s assigns item.mnemonic/original_mnemonic: disambiguation must only use "
                        "set_session_mnemonic_only, the name from the file must survive" % fi.qual)
    # syntactic census as well: `<item>.mnemonic = ...` inside a SectionItems method goes through the rename hook of HeaderItem
    for mname, fi in sorted(cls.methods.items()):
        for sub in walk_shallow(fi.node):
            if isinstance(sub, (ast.Assign, ast.AugAssign)):
                for t in (sub.targets if isinstance(sub, ast.Assign) else [sub.target]):
                    if isinstance(t, ast.Attribute) and t.attr in ("mnemonic", "original_mnemonic") and not (
                            isinstance(t.value, ast.Name) and t.value.id == "self"):
                        n += 1
                        ctx.bad("SI.SESSION-ONLY", "%s#rename-store" % fi.qual, fi, sub, "`%s` in %s assigns an item's .mnemonic: that is the "
                                "user-rename path, it overwrites original_mnemonic (a blank becomes 'unknown', a session suffix becomes part "
                                "of the name that is written)" % (unparse(sub)[:60], fi.qual))
    n += 1
    ctx.ok("SI.SESSION-ONLY", SI + "#no-original-store", cls.methods["append"], cls.node,
           "no SectionItems method stores to an item's .mnemonic/.original_mnemonic (census over %d methods)" % len(cls.methods))
    # HeaderItem: session setter writes only the session name; __setattr__('mnemonic') renames the original
    fi = p.func(HI + ".set_session_mnemonic_only")
    effs = ea.local_effects(fi)
    ok = len(effs) == 1 and effs[0].path == (("param", "self"), ("attr", "mnemonic"))
    ctx.check(ok, "SI.SESSION-ONLY", fi.qual + "#effects", fi, fi.node,
              "set_session_mnemonic_only writes the session name only (bypassing the rename hook)",
              "set_session_mnemonic_only must write only self.mnemonic through the base __setattr__; it writes %s"
              % [fmt_path(e.path) for e in effs])
    fi = p.func(HI + ".__setattr__")
    txt = ast.unparse(fi.node)
    has_orig = any(isinstance(s, ast.Assign) and any(isinstance(t, ast.Attribute) and t.attr == "original_mnemonic" for t in s.targets)
                   for s in walk_shallow(fi.node))
    sess = [s for s in walk_shallow(fi.node) if isinstance(s, ast.Call) and isinstance(s.func, ast.Attribute)
            and s.func.attr == "set_session_mnemonic_only"]
    ok = has_orig and len(sess) == 1 and sess[0].args and "useful_mnemonic" in ast.unparse(sess[0].args[0])
    ctx.check(ok, "SI.SESSION-ONLY", fi.qual + "#rename", fi, fi.node,
              "assigning .mnemonic renames the original and resets the session name to the useful mnemonic",
              "HeaderItem.__setattr__('mnemonic') must store original_mnemonic and reset the session name from "
              "useful_mnemonic")
    fi = p.func(HI + ".__init__")
    first = fi.params()[1]
    orig = [s for s in walk_shallow(fi.node) if isinstance(s, ast.Assign) and any(
        isinstance(t, ast.Attribute) and t.attr == "original_mnemonic" for t in s.targets)]
    ok = len(orig) == 1 and isinstance(orig[0].value, ast.Name) and orig[0].value.id == first
    sess = [s for s in walk_shallow(fi.node) if isinstance(s, ast.Call) and isinstance(s.func, ast.Attribute)
            and s.func.attr == "set_session_mnemonic_only"]
    ok = ok and len(sess) == 1 and "useful_mnemonic" in ast.unparse(sess[0])
    ctx.check(ok, "SI.SESSION-ONLY", fi.qual + "#init", fi, fi.node,
              "the constructor keeps its first argument verbatim as original_mnemonic and derives the session name",
              "HeaderItem.__init__ must store its mnemonic argument unchanged as original_mnemonic and set the session "
              "name from useful_mnemonic")
    # LASFile.set_data: default names are the original mnemonics
    fi = p.func("las.LASFile.set_data")
    cfg = build_cfg(p, fi)
    prov = Provenance(cfg)
    for node in cfg.nodes:
        a = node.ast
        if node.kind == "stmt" and isinstance(a, ast.Assign) and any(isinstance(t, ast.Attribute) and t.attr == "mnemonic" for t in a.targets):
            atoms = prov.atoms(a.value, node.id)
            attrs = {x[1] for x in atoms if x[0] == "attrname"}
            ok = "original_mnemonic" in attrs and "mnemonic" not in attrs and "useful_mnemonic" not in attrs
            ctx.check(ok, "SI.SESSION-ONLY", "las.LASFile.set_data#default-names", fi, a,
                      "curves are renamed from the caller's names or their own original mnemonics",
                      "set_data renames curves with names derived from %s: a session name (suffix/UNKNOWN) would be "
                      "written back as the original mnemonic" % sorted(attrs & {"mnemonic", "useful_mnemonic"} or attrs))
    ctx.floor("SI.SESSION-ONLY", 5)


def rule_unknown(ctx):
    p = ctx.p
    fi = p.func(HI + ".useful_mnemonic")
    site = fi.qual
    problems = []
    rets = [s for s in walk_shallow(fi.node) if isinstance(s, ast.Return)]
    consts = [r_.value.value for r_ in rets if isinstance(r_.value, ast.Constant)]
    others = [ast.unparse(r_.value) for r_ in rets if r_.value is not None and not isinstance(r_.value, ast.Constant)]
    if consts != ["UNKNOWN"]:
        problems.append("blank mnemonics must appear as 'UNKNOWN' (returns %s)" % consts)
    if others != ["self.original_mnemonic"]:
        problems.append("non-blank mnemonics must be returned unchanged (returns %s)" % others)
    cfg = build_cfg(p, fi)
    cd = ControlDependence(cfg)
    for node in cfg.nodes:
        if node.kind == "stmt" and isinstance(node.ast, ast.Return) and isinstance(node.ast.value, ast.Constant):
            tests = [(cfg.nodes[tn].ast, lab) for (tn, lab) in cd.transitive(node.id) if cfg.nodes[tn].kind == "test"]
            ok = False
            for t, lab in tests:
                if (isinstance(t, ast.Compare) and len(t.ops) == 1 and isinstance(t.ops[0], ast.Eq) and lab.startswith("true")
                        and isinstance(t.comparators[0], ast.Constant) and t.comparators[0].value == ""
                        and ast.unparse(t.left) in ("self.original_mnemonic.strip()",)):
                    ok = True
                if (isinstance(t, ast.UnaryOp) and isinstance(t.op, ast.Not) and lab.startswith("true")
                        and ast.unparse(t.operand) == "self.original_mnemonic.strip()"):
                    ok = True
            if not ok:
                problems.append("'UNKNOWN' is not returned exactly when original_mnemonic.strip() is empty")
    fs = p.func(HI + ".useful_mnemonic.setter")
    if not any(isinstance(s, ast.Raise) for s in walk_shallow(fs.node)):
        problems.append("the useful_mnemonic setter no longer raises")
    ctx.check(not problems, "SI.UNKNOWN", site, fi, fi.node,
              "useful_mnemonic is 'UNKNOWN' iff the original is blank, else the original; it has no state of its own",
              "useful_mnemonic: " + "; ".join(problems))
    ctx.floor("SI.UNKNOWN", 1)


# ============================================================================================ C17

PICKLE_HOOKS = ("__reduce__", "__reduce_ex__", "__getstate__", "__setstate__", "__getnewargs__", "__getnewargs_ex__",
                "__copy__", "__deepcopy__")


def _attr_census(p, cls):
    """attributes an instance of cls can hold: self.X = ..., super().__setattr__('X', ...)"""
    out = set()
    for c in cls.mro():
        for m in c.methods.values():
            if isinstance(m.node, ast.Lambda):
                continue
            for sub in walk_shallow(m.node):
                if isinstance(sub, (ast.Assign, ast.AugAssign, ast.AnnAssign)):
                    targets = sub.targets if isinstance(sub, ast.Assign) else [sub.target]
                    for t in targets:
                        for tt in (t.elts if isinstance(t, ast.Tuple) else [t]):
                            if isinstance(tt, ast.Attribute) and isinstance(tt.value, ast.Name) and tt.value.id == "self":
                                out.add(tt.attr)
                elif isinstance(sub, ast.Call) and isinstance(sub.func, ast.Attribute) and sub.func.attr == "__setattr__" and sub.args:
                    if isinstance(sub.args[0], ast.Constant) and isinstance(sub.args[0].value, str):
                        out.add(sub.args[0].value)
    return out


def rule_pk_state(ctx):
    p = ctx.p
    cls = p.cls(HI)
    fi = cls.find_method("__reduce__")
    site = HI + ".__reduce__"
    if fi is None:
        ctx.bad("PK.STATE", site, cls.methods["__init__"], cls.node, "HeaderItem defines no __reduce__: the OrderedDict "
                "default does not carry the attribute state of an item")
        ctx.floor("PK.STATE", 1)
        return
    init = cls.find_method("__init__")
    iparams = init.params()[1:]
    census = _attr_census(p, cls)
    for sub in p.classes.values():
        if cls in sub.mro():
            census |= _attr_census(p, sub)
    rets = [s for s in walk_shallow(fi.node) if isinstance(s, ast.Return)]
    problems = []
    cfg = build_cfg(p, fi)
    prov = Provenance(cfg)
    carried = set()
    if not rets:
        problems.append("no return")
    for rt in rets:
        v = rt.value
        if not isinstance(v, ast.Tuple) or len(v.elts) < 2:
            problems.append("__reduce__ must return (callable, args[, state]); returns `%s`" % unparse(v))
            continue
        if ast.unparse(v.elts[0]) not in ("self.__class__", "type(self)"):
            problems.append("the reconstructor must be the item's own class (so CurveItem stays a CurveItem)")
        args = v.elts[1]
        nid = cfg.nodes_for(rt)[0]
        if not isinstance(args, ast.Tuple):
            problems.append("constructor arguments are not a literal tuple")
            continue
        for i, a in enumerate(args.elts):
            if i >= len(iparams):
                problems.append("more arguments than the constructor takes")
                break
            want = "original_mnemonic" if i == 0 else iparams[i]
            attrs = {x[1] for x in prov.atoms(a, nid) if x[0] == "attrname"}
            conv = {x[1] for x in prov.atoms(a, nid) if x[0] == "callname"} & {"item", "tolist", "float", "int", "str", "round", "astype", "asarray", "array"}
            if conv and iparams[i] != "data":
                problems.append("constructor argument %d (%s) passes through %s: the copy holds a converted value (np.float32(36.4).item() "
                                "is 36.400001525878906), so str(value) and write() differ from the original" % (i, iparams[i], sorted(conv)))
            if want not in attrs or (i == 0 and ("mnemonic" in attrs or "useful_mnemonic" in attrs)):
                problems.append("constructor argument %d (%s) is built from %s; it must be self.%s%s" % (
                    i, iparams[i], sorted(attrs) or unparse(a), want,
                    " - the session name (suffix, UNKNOWN) would become the original mnemonic of the copy" if i == 0 else ""))
            else:
                carried.add(want)
        # session name: third element (state) must be an unconditional dict carrying self.mnemonic
        if len(v.elts) >= 3:
            st = v.elts[2]
            atoms = prov.atoms(st, nid)
            attrs = {x[1] for x in atoms if x[0] == "attrname"}
            consts = {x[1] for x in atoms if x[0] == "const"}
            if None in consts or isinstance(st, ast.Constant):
                problems.append("the pickle state can be None on some path: the session mnemonic (':n' suffix, UNKNOWN:n) "
                                "is then not restored")
            elif "mnemonic" not in attrs:
                problems.append("the pickle state does not carry self.mnemonic (session name)")
            else:
                carried.add("mnemonic")
            # the state describes the item as it is now: nothing remembered from an earlier load is merged over it
            for sub in walk_shallow(fi.node):
                if isinstance(sub, ast.Call) and isinstance(sub.func, ast.Attribute) and sub.func.attr in ("update", "setdefault") \
                        and isinstance(st, ast.Name) and isinstance(sub.func.value, ast.Name) and sub.func.value.id == st.id:
                    problems.append("the pickle state is overwritten by `%s`: values remembered from an earlier load replace the item's "
                                    "current session mnemonic in second-generation copies" % unparse(sub))
                if isinstance(sub, ast.Dict) and any(k is None for k in sub.keys) and sub is st:
                    problems.append("the pickle state merges another mapping (`%s`) over the current attributes" % unparse(sub))
        else:
            # acceptable alternative: the container re-establishes session names (PK.REBUILD); an item alone cannot
            problems.append("no state element: the session mnemonic of a single copied item is lost")
    missing = census - carried - {"_OrderedDict__root", "_OrderedDict__map"}
    if carried and missing:
        problems.append("attributes %s are held by an item but not carried by __reduce__" % sorted(missing))
    ss = cls.find_method("__setstate__")
    if "mnemonic" in carried:
        if ss is None:
            problems.append("state is produced but there is no __setstate__ to consume it")
        else:
            calls = [s for s in walk_shallow(ss.node) if isinstance(s, ast.Call) and isinstance(s.func, ast.Attribute)
                     and s.func.attr == "set_session_mnemonic_only"]
            stores = [s for s in walk_shallow(ss.node) if isinstance(s, ast.Assign) and any(
                isinstance(t, ast.Attribute) and t.attr == "mnemonic" for t in s.targets)]
            if stores:
                problems.append("__setstate__ assigns self.mnemonic (the rename hook): the original mnemonic of the copy "
                                "is overwritten by the session name")
            elif len(calls) != 1:
                problems.append("__setstate__ must restore the session name through set_session_mnemonic_only")
            else:
                scfg = build_cfg(p, ss)
                scd = ControlDependence(scfg)
                for nid in scfg.node_of_expr(calls[0]):
                    if any(scfg.nodes[tn].kind == "test" for (tn, lab) in scd.transitive(nid)):
                        problems.append("__setstate__ restores the session name only conditionally")
    ctx.check(not problems, "PK.STATE", site, fi, fi.node,
              "__reduce__ rebuilds from original_mnemonic, unit, value, descr, data and always carries the session "
              "mnemonic as state; census of item attributes %s all carried" % sorted(census),
              "HeaderItem.__reduce__: " + "; ".join(dict.fromkeys(problems)))
    ctx.floor("PK.STATE", 1)


def rule_pk_rebuild(ctx):
    """Every lasio class that customises pickling/copying carries its whole attribute census."""
    p = ctx.p
    n = 0
    for q, cls in sorted(p.classes.items()):
        if cls.module.name not in ("las", "las_items"):
            continue
        hooks = {h: cls.methods[h] for h in PICKLE_HOOKS if h in cls.methods}
        site = "%s#pickle-hooks" % q
        n += 1
        if q == HI:
            ctx.ok("PK.REBUILD", site, cls.methods["__init__"], cls.node, "HeaderItem hooks are decided by PK.STATE",
                   nontrivial=False)
            continue
        if not hooks:
            ctx.ok("PK.REBUILD", site, next(iter(cls.methods.values())) if cls.methods else None, cls.node,
                   "%s defines no pickling/copy hook: the default protocol carries __dict__ (attributes %s) and, for the "
                   "list subclass, re-appends the items" % (cls.name, sorted(_attr_census(p, cls))))
            continue
        census = _attr_census(p, cls)
        for h, fi in hooks.items():
            problems = []
            txt = ast.unparse(fi.node)
            if h in ("__reduce__", "__reduce_ex__"):
                for rt in [s for s in walk_shallow(fi.node) if isinstance(s, ast.Return)]:
                    v = rt.value
                    if isinstance(v, ast.Tuple) and len(v.elts) < 3 and census:
                        problems.append("returns %d-tuple without a state element: instance attributes %s are dropped "
                                        "from copies" % (len(v.elts), sorted(census)))
                    elif isinstance(v, ast.Tuple) and len(v.elts) >= 3:
                        st = ast.unparse(v.elts[2])
                        miss = [a for a in census if a not in st and "__dict__" not in st]
                        if miss:
                            problems.append("state element does not mention %s" % miss)
            if h == "__getstate__":
                for sub in walk_shallow(fi.node):
                    if isinstance(sub, ast.Call) and isinstance(sub.func, ast.Attribute) and sub.func.attr in ("pop", "popitem", "clear"):
                        problems.append("`%s` drops part of the instance state from pickles/copies" % unparse(sub))
                    if isinstance(sub, ast.Delete):
                        problems.append("`%s` drops part of the instance state from pickles/copies" % unparse(sub))
                    if isinstance(sub, ast.DictComp) and sub.generators and sub.generators[0].ifs:
                        problems.append("state is filtered (`%s`)" % unparse(sub))
                rets = [s for s in walk_shallow(fi.node) if isinstance(s, ast.Return) and isinstance(s.value, ast.Dict)]
                for rt in rets:
                    keys = {k.value for k in rt.value.keys if isinstance(k, ast.Constant)}
                    miss = census - keys
                    if miss and not any(k is None for k in rt.value.keys):
                        problems.append("state dict lacks %s" % sorted(miss))
            if h in ("__copy__", "__deepcopy__"):
                if any(isinstance(s, ast.Return) and isinstance(s.value, ast.Name) and s.value.id == "self"
                       for s in walk_shallow(fi.node)):
                    problems.append("returns self: the 'copy' shares all state with the original")
                miss = [a for a in census if a not in txt and "__dict__" not in txt]
                if miss:
                    problems.append("does not carry the instance attribute(s) %s over to the copy (neither named nor through __dict__): "
                                    "e.g. a copied section forgets that it compares mnemonics case-insensitively" % miss)
            ctx.check(not problems, "PK.REBUILD", "%s.%s" % (q, h), fi, fi.node,
                      "%s.%s keeps the whole attribute census %s" % (cls.name, h, sorted(census)),
                      "%s.%s: %s" % (cls.name, h, "; ".join(problems)))
    ctx.floor("PK.REBUILD", 4)


def rule_pk_ctor(ctx):
    """PK.CTOR: reconstruction goes through the constructors, so they must store each argument unchanged
    (no dtype conversion, no normalisation) - otherwise a copy differs from its original"""
    p = ctx.p
    for cq in (HI, "las_items.CurveItem"):
        cls = p.cls(cq)
        fi = cls.methods.get("__init__")
        if fi is None:
            continue
        params = fi.params()[1:]
        problems = []
        for sub in walk_shallow(fi.node):
            if isinstance(sub, ast.Assign) and len(sub.targets) == 1 and isinstance(sub.targets[0], ast.Attribute) \
                    and isinstance(sub.targets[0].value, ast.Name) and sub.targets[0].value.id == "self":
                attr = sub.targets[0].attr
                v = sub.value
                if attr in ("unit", "value", "descr", "original_mnemonic"):
                    want = "mnemonic" if attr == "original_mnemonic" else attr
                    if not (isinstance(v, ast.Name) and v.id == want):
                        problems.append("self.%s is stored as `%s`, not the `%s` argument unchanged" % (attr, unparse(v), want))
                if attr == "data":
                    ok = (isinstance(v, ast.Name) and v.id == "data") or (
                        isinstance(v, ast.Call) and ast.unparse(v.func).endswith("asarray") and len(v.args) == 1 and not v.keywords
                        and isinstance(v.args[0], ast.Name) and v.args[0].id == "data")
                    if not ok and isinstance(v, ast.Call) and ast.unparse(v.func).endswith("asarray") and len(v.args) == 1 and not v.keywords \
                            and isinstance(v.args[0], ast.IfExp):
                        # np.asarray([] if data is None else data): the default is substituted, a given array is passed unchanged
                        ie = v.args[0]
                        branches = [ie.body, ie.orelse]
                        ok = any(isinstance(b, ast.Name) and b.id == "data" for b in branches) and any(
                            isinstance(b, (ast.List, ast.Tuple)) and not b.elts for b in branches) and "data" in ast.unparse(ie.test) \
                            and "None" in ast.unparse(ie.test)
                    if not ok:
                        problems.append("self.data is stored as `%s`: a dtype conversion in the constructor changes the array of "
                                        "every pickled/deep-copied curve (e.g. numeric strings or integers become float64)" % unparse(v))
            if isinstance(sub, ast.Try) and any("data" in ast.unparse(x) for x in sub.body):
                problems.append("the data argument is converted tentatively inside try/except in the constructor")
        ctx.check(not problems, "PK.CTOR", cq + ".__init__#verbatim", fi, fi.node,
                  "%s.__init__ stores its arguments unchanged (data through a plain np.asarray)" % cls.name,
                  "; ".join(dict.fromkeys(problems)))
    ctx.floor("PK.CTOR", 2)


def rule_pk_independent(ctx):
    """PK.INDEPENDENT: a __copy__/__deepcopy__ override must copy what it holds (default deepcopy does)"""
    p = ctx.p
    n = 0
    for q, cls in sorted(p.classes.items()):
        if cls.module.name not in ("las", "las_items"):
            continue
        for h in ("__deepcopy__", "__copy__"):
            fi = cls.methods.get(h)
            n += 1
            site = "%s.%s" % (q, h)
            if fi is None:
                ctx.ok("PK.INDEPENDENT", site, next(iter(cls.methods.values())) if cls.methods else None, cls.node,
                       "%s does not override %s: the generic protocol copies every field" % (cls.name, h), nontrivial=(h == "__deepcopy__"))
                continue
            if h == "__copy__":
                continue
            calls = [ast.unparse(c.func) for c in walk_shallow(fi.node) if isinstance(c, ast.Call)]
            deep = any(x.endswith("deepcopy") for x in calls)
            for sub in walk_shallow(fi.node):
                if isinstance(sub, ast.Assign) and any(isinstance(t, ast.Attribute) and t.attr == "__dict__" for t in sub.targets) \
                        and isinstance(sub.value, ast.Attribute) and sub.value.attr == "__dict__":
                    deep = False
                    calls.append("<copy>.__dict__ = self.__dict__ (the two objects share one attribute dict)")
                if isinstance(sub, ast.Call) and isinstance(sub.func, ast.Attribute) and sub.func.attr == "update" and sub.args \
                        and isinstance(sub.args[0], ast.Attribute) and sub.args[0].attr == "__dict__" \
                        and ast.unparse(sub.func.value).endswith("__dict__") and False:
                    pass
            # every path to a value-return passes through the statement that carries the instance state over: an early exit that
            # returns a constructor-fresh object (say, for an empty section) resets the state the constructor does not take
            # (SectionItems.mnemonic_transforms: the copy of a read file's empty section becomes case-sensitive)
            if deep:
                cfg = build_cfg(p, fi)
                carriers = set()
                for nd in cfg.nodes:
                    if nd.ast is not None and not isinstance(nd.ast, ast.Return) and any(
                            isinstance(c, ast.Call) and ast.unparse(c.func).endswith("deepcopy") and any(
                                isinstance(a, ast.Attribute) and a.attr == "__dict__" or isinstance(a, ast.Call) and ast.unparse(a.func) == "vars"
                                for x in c.args for a in ast.walk(x))
                            for c in (ast.walk(nd.ast) if isinstance(nd.ast, (ast.Assign, ast.Expr, ast.AugAssign)) else ())):
                        carriers.add(nd.id)
                if carriers:
                    for r_ in walk_shallow(fi.node):
                        memo_names = set(fi.params()[1:2])
                        if isinstance(r_, ast.Return) and r_.value is not None and not (isinstance(r_.value, ast.Constant) and r_.value.value is None) \
                                and not any(isinstance(m_, ast.Name) and m_.id in memo_names for m_ in ast.walk(r_.value)):     # `return memo[id(self)]`
                            rn = cfg.nodes_for(r_)
                            pth = rn and cfg.find_path(cfg.entry, rn, avoid=carriers, skip_labels=EXC)
                            if pth:
                                ctx.bad("PK.INDEPENDENT", site + ":early-return", fi, r_,
                                        "%s.__deepcopy__ can return `%s` without carrying the instance state over (path: %s): state the "
                                        "constructor does not take (mnemonic_transforms of a section that was read from a file, ...) is "
                                        "reset in the copy, which then answers lookups differently from the original"
                                        % (cls.name, unparse(r_.value), cfg.describe_path(pth)))
            # no shallow copy on the way: `copy.copy(item)` as a fallback (say, when the deep copy of one item raises) hands the
            # copy an item that shares its data array and value with the original
            scope = [fi] + [cls.methods[c.func.attr] for c in walk_shallow(fi.node)
                            if isinstance(c, ast.Call) and isinstance(c.func, ast.Attribute) and isinstance(c.func.value, ast.Name)
                            and c.func.value.id in ("self", "cls", cls.name) and c.func.attr in cls.methods]
            for g in scope:
                for c in walk_shallow(g.node):
                    if isinstance(c, ast.Call) and ast.unparse(c.func) in ("copy.copy", "copy_module.copy", "_copy.copy"):
                        ctx.bad("PK.INDEPENDENT", site + ":shallow", g, c,
                                "%s.__deepcopy__ can take a shallow copy (`%s` in %s): the copied object shares its data array / value "
                                "with the original, so editing one changes the other" % (cls.name, unparse(c), g.name))
            ctx.check(deep, "PK.INDEPENDENT", site, fi, fi.node,
                      "%s.__deepcopy__ deep-copies its fields" % cls.name,
                      "%s.__deepcopy__ builds the copy without deep-copying its fields (calls: %s): np.asarray in the constructor "
                      "does not copy an ndarray, so the copy shares the curve array with the original and editing one changes "
                      "the other" % (cls.name, sorted(set(calls))))
    ctx.floor("PK.INDEPENDENT", 4)


def rule_pk_list_restore(ctx):
    """PK.LIST-RESTORE: SectionItems is a list subclass whose append()/insert() re-assign duplicate suffixes.  The generic
    copy protocols re-insert the items of a list subclass through fixed methods of the *copy* - copy._reconstruct through
    y.append(item) (deepcopy), the unpickler through extend(items) (protocol >= 2; protocols 0/1 call list.__init__) -
    so a hook on that path renumbers session mnemonics that the copy must keep (RHO:2, RHO:3 -> RHO:1, RHO:2)."""
    p = ctx.p
    r = get_resolver(p)
    cls = p.cls(SI)
    if not any(b.split(".")[-1] == "list" for b in cls.base_names):
        ctx.undecided("PK.LIST-RESTORE", SI + "#restore", None, cls.node, "SectionItems is no longer a list subclass")
        return

    def hooked(mname):
        fi = cls.methods.get(mname)
        if fi is None:
            return None
        clos = r.closure([fi])
        if any(f.qual.endswith(".assign_duplicate_suffixes") or f.qual.endswith(".set_session_mnemonic_only") for f in clos.values()):
            return fi
        # a loop over self.append / self.insert re-enters the hooks
        return None
    red = cls.methods.get("__reduce__") or cls.methods.get("__reduce_ex__")
    # deepcopy path
    ap = hooked("append")
    dc = cls.methods.get("__deepcopy__")
    site = SI + "#deepcopy-path"
    if ap is None:
        ctx.ok("PK.LIST-RESTORE", site, cls.methods.get("append") or next(iter(cls.methods.values())), cls.node,
               "append() carries no renumbering hook: the generic deepcopy re-appends the items unchanged")
    elif dc is None and red is None:
        ctx.bad("PK.LIST-RESTORE", site, ap, ap.node, "copy.deepcopy rebuilds a SectionItems through its append(), which calls "
                "assign_duplicate_suffixes: session mnemonics that are not numbered 1..n (after a deletion) or that were set "
                "explicitly are renumbered in the copy; define __deepcopy__ (or __reduce__) that restores the items without the hook")
    elif dc is not None:
        clos = r.closure([dc])
        via = [f.qual for f in clos.values() if f.cls is cls and f.name in ("append", "insert", "extend", "assign_duplicate_suffixes", "set_item", "__setitem__")]
        direct = [unparse(c) for c in walk_shallow(dc.node) if isinstance(c, ast.Call) and isinstance(c.func, ast.Attribute)
                  and c.func.attr in ("append", "insert", "extend", "assign_duplicate_suffixes") and not (
                      isinstance(c.func.value, ast.Name) and c.func.value.id == "list") and not _is_super_call(c, None)]
        lookups = [unparse(x) for x in walk_shallow(dc.node) if isinstance(x, ast.Subscript) and isinstance(x.ctx, ast.Load)
                   and isinstance(x.value, ast.Name) and x.value.id == "self"]
        lookups += [unparse(x) for x in walk_shallow(dc.node) if isinstance(x, (ast.For, ast.comprehension)) and isinstance(x.iter, ast.Call)
                    and isinstance(x.iter.func, ast.Attribute) and x.iter.func.attr in ("keys", "values", "items", "iterkeys", "dictview")
                    and isinstance(x.iter.func.value, ast.Name) and x.iter.func.value.id == "self"]
        # the instance state copied from the original must survive: a constructor call after the state was restored resets it
        restores = [ordn(x) for x in walk_shallow(dc.node) if isinstance(x, ast.Call) and isinstance(x.func, ast.Attribute)
                    and x.func.attr == "update" and ast.unparse(x.func.value).endswith("__dict__")]
        restores += [ordn(x) for x in walk_shallow(dc.node) if isinstance(x, ast.Assign) and any(
            isinstance(t, ast.Attribute) and t.attr == "__dict__" for t in x.targets)]
        inits = [x for x in walk_shallow(dc.node) if isinstance(x, ast.Call) and isinstance(x.func, ast.Attribute) and x.func.attr == "__init__"]
        late = [x for x in inits if restores and ordn(x) > min(restores)]
        if late:
            ctx.bad("PK.LIST-RESTORE", site + ":state-order", dc, late[0], "`%s` runs after the instance state was copied: __init__ resets "
                    "mnemonic_transforms, so the copy of a case-normalised section compares mnemonics exactly (write() then appends a "
                    "second VERS item instead of replacing the existing one)" % unparse(late[0])[:80])
        if lookups:
            ctx.bad("PK.LIST-RESTORE", site + ":enumeration", dc, dc.node, "__deepcopy__ enumerates the section through %s: a lookup by session "
                    "mnemonic returns the first match, so when two items answer to one name the copy holds the first twice and loses "
                    "the other; the items must be taken from `for item in self`" % lookups[0])
        ctx.check(not via and not direct, "PK.LIST-RESTORE", site, dc, dc.node,
                  "__deepcopy__ restores the items through list.extend/super(): no duplicate-suffix hook runs on the copy",
                  "__deepcopy__ fills the copy through %s: the renumbering hook runs on the copy" % (direct or via))
    else:
        ctx.ok("PK.LIST-RESTORE", site, red, red.node, "reconstruction is defined by %s" % red.name)
    # pickle path
    ex = hooked("extend") or hooked("__iadd__")
    site = SI + "#pickle-path"
    if ex is not None and red is None:
        ctx.bad("PK.LIST-RESTORE", site, ex, ex.node, "the unpickler (protocol >= 2) refills a list subclass through extend() before "
                "the instance state is restored; SectionItems.%s re-assigns duplicate suffixes (with mnemonic_transforms not yet "
                "set), so an unpickled section is renumbered" % ex.name)
    else:
        # an extend() override that loops over self.append is hooked through append
        exf = cls.methods.get("extend")
        loops = exf is not None and any(isinstance(c, ast.Call) and isinstance(c.func, ast.Attribute) and c.func.attr in ("append", "insert")
                                        and isinstance(c.func.value, ast.Name) and c.func.value.id == "self" for c in walk_shallow(exf.node))
        if loops and ap is not None and red is None:
            ctx.bad("PK.LIST-RESTORE", site, exf, exf.node, "SectionItems.extend() re-enters the hooked append(): the unpickler (protocol "
                    ">= 2) refills the section through extend() before its state is restored, so an unpickled section is renumbered")
        else:
            ctx.ok("PK.LIST-RESTORE", site, exf or next(iter(cls.methods.values())), cls.node,
                   "the unpickler refills the section through list.extend (not overridden with a hook) or a custom __reduce__")
    ctx.floor("PK.LIST-RESTORE", 2)


READ_ACCESSORS = ("__getitem__", "__contains__", "__getattr__", "keys", "values", "items", "iterkeys", "itervalues", "iteritems",
                  "dictview", "__str__", "mnemonic_compare")


def rule_read_pure(ctx):
    """SI.READ-PURE: the read accessors of a section (item / slice / attribute access, membership, keys/values/items,
    dictview, str) never rename an item: nothing they reach calls assign_duplicate_suffixes or
    set_session_mnemonic_only - also not on a new section built from the same item objects (a slice shares its items with
    the parent, so renumbering the slice renumbers the parent)"""
    p = ctx.p
    r = get_resolver(p)
    cls = p.cls(SI)
    n = 0
    for m in READ_ACCESSORS:
        fi = cls.methods.get(m)
        if fi is None:
            continue
        n += 1
        clos = r.closure([fi])
        hooks = sorted(q for q, f in clos.items() if f.name in ("assign_duplicate_suffixes", "set_session_mnemonic_only") and f is not fi)
        site = "%s#no-rename" % fi.qual
        if hooks:
            # the call that leads there
            via = None
            for c in walk_shallow(fi.node):
                if isinstance(c, ast.Call):
                    tg = r.callees(fi, c)[0]
                    if any(t.qual in hooks or any(h in r.closure([t]) for h in hooks) for t in tg):
                        via = c
                        break
            ctx.bad("SI.READ-PURE", site, fi, via or fi.node, "%s reaches %s%s: reading a section re-assigns ':n' suffixes of item objects "
                    "that also belong to the section being read (e.g. a slice built with append() renumbers the parent's duplicates)"
                    % (m, ", ".join(hooks), (" through `%s`" % unparse(via)) if via is not None else ""))
        else:
            ctx.ok("SI.READ-PURE", site, fi, fi.node, "%s reaches no renaming hook" % m, nontrivial=m in ("__getitem__", "__contains__", "__getattr__"))
    ctx.floor("SI.READ-PURE", 5)


def rule_list_primitives(ctx):
    """SI.LIST-PRIMITIVES: who may touch the list underneath a section.  Only methods of SectionItems itself place or remove
    items with the plain list primitives (list.append(section, x), list.insert, list.extend, list.__setitem__, super() calls);
    everywhere else items go through the SectionItems API, which keeps the session mnemonics unique."""
    p = ctx.p
    n = 0
    hits = []
    for q, fi in sorted(p.functions.items()):
        if isinstance(fi.node, ast.Lambda):
            continue
        inside = fi.cls is not None and fi.cls.name == "SectionItems"
        for c in walk_shallow(fi.node):
            if isinstance(c, ast.Call) and isinstance(c.func, ast.Attribute) and isinstance(c.func.value, ast.Name) and c.func.value.id == "list" \
                    and c.func.attr in ("append", "insert", "extend", "__setitem__", "__delitem__", "__iadd__", "remove", "pop", "sort", "reverse"):
                if not inside:
                    hits.append((fi, c))
    n_mod = 0
    for mod in ("reader", "las", "writer", "excel"):
        fis = [f for f in p.functions.values() if f.module.name == mod]
        bad = [(f, c) for (f, c) in hits if f.module.name == mod]
        n_mod += 1
        site = "%s#list-primitives" % mod
        if bad:
            f, c = bad[0]
            ctx.bad("SI.LIST-PRIMITIVES", site, f, c, "`%s` in %s places an item with a plain list primitive, bypassing SectionItems: "
                    "duplicate and blank mnemonics are not (or only conditionally) given their ':n' suffixes" % (unparse(c), f.qual))
        else:
            ctx.ok("SI.LIST-PRIMITIVES", site, fis[0] if fis else None, 0, "lasio/%s.py never applies list.* primitives to a section" % mod,
                   nontrivial=mod in ("reader", "las"))
    # by-value primitives: HeaderItem/CurveItem are (empty) OrderedDicts, so every item == every other item; list.remove(x),
    # list.index(x), list.count(x) on a section therefore address the FIRST item, whatever x is
    byval = []
    for q, fi in sorted(p.functions.items()):
        if isinstance(fi.node, ast.Lambda):
            continue
        inside = fi.cls is not None and fi.cls.name == "SectionItems"
        for c in walk_shallow(fi.node):
            if not (isinstance(c, ast.Call) and isinstance(c.func, ast.Attribute) and c.func.attr in ("remove", "index", "count") and c.args):
                continue
            recv = ast.unparse(c.func.value)
            arg = c.args[1] if recv == "list" and len(c.args) > 1 else c.args[0]
            if isinstance(arg, ast.Constant) or recv.endswith("keys()") or recv.endswith("_keys") or "mnemonic" in recv:
                continue
            tail = recv.split(".")[-1].split("[")[0]
            sectionish = tail in ("curves", "params", "well", "version", "other", "header") or "sections[" in recv or \
                (inside and recv in ("self", "list", "super()"))
            if not sectionish:
                continue
            byval.append((fi, c))
    site = "lasio#by-value-primitives"
    if byval:
        f, c = byval[0]
        ctx.bad("SI.LIST-PRIMITIVES", site, f, c, "`%s` in %s finds its item by `==`: header and curve items are OrderedDicts without entries, "
                "so all of them compare equal and the first item of the section is addressed instead of the one meant" % (unparse(c), f.qual))
    else:
        ctx.ok("SI.LIST-PRIMITIVES", site, None, 0, "no section is searched by item equality (remove/index/count with an item operand)")
    ctx.floor("SI.LIST-PRIMITIVES", 3)


def rule_no_lookup_cache(ctx):
    """SI.NO-LOOKUP-CACHE: the read accessors of a section decide from the items as they are now.  Today a section's only
    instance state is `mnemonic_transforms`; any further attribute that a read accessor consults (a cached key set, an index)
    goes stale when an item is renamed in place (`item.mnemonic = ...` does not pass through the section)."""
    p = ctx.p
    cls = p.cls(SI)
    census = {"mnemonic_transforms"}
    n = 0
    for m in READ_ACCESSORS + ("get", "__delitem__", "set_item", "__setitem__", "__setattr__"):
        fi = cls.methods.get(m)
        if fi is None:
            continue
        reads = set()
        for sub in walk_shallow(fi.node):
            if isinstance(sub, ast.Attribute) and isinstance(sub.value, ast.Name) and sub.value.id == "self" and isinstance(sub.ctx, ast.Load) \
                    and not any(sub.attr in c.methods for c in cls.mro()) and not hasattr(list, sub.attr):
                reads.add(sub.attr)
            if isinstance(sub, ast.Call) and isinstance(sub.func, ast.Attribute) and sub.func.attr in ("get", "pop", "setdefault") \
                    and ast.unparse(sub.func.value) == "self.__dict__" and sub.args and isinstance(sub.args[0], ast.Constant):
                reads.add(sub.args[0].value)
        extra = {a for a in reads if a not in census and not a.startswith("__")}
        n += 1
        site = "%s#state" % fi.qual
        if extra:
            ctx.bad("SI.NO-LOOKUP-CACHE", site, fi, fi.node, "%s consults the section attribute %s, which is not part of a section's state "
                    "today: cached lookup data is not invalidated by an in-place rename of an item, so `in`, item access and get() "
                    "stop agreeing" % (m, sorted(extra)))
        else:
            ctx.ok("SI.NO-LOOKUP-CACHE", site, fi, fi.node, "%s reads no section state beyond mnemonic_transforms" % m,
                   nontrivial=m in ("__contains__", "__getitem__"))
    ctx.floor("SI.NO-LOOKUP-CACHE", 4)


def rule_transforms_first(ctx):
    """SI.TRANSFORMS-FIRST: a section that is read with case normalisation compares mnemonics case-insensitively - from the first
    item on.  The flag (`section.mnemonic_transforms = True`) is set before any item is appended; set afterwards, the items were
    grouped and numbered with exact comparison while they are looked up case-insensitively ('unknown' next to a blank mnemonic)."""
    from sa.astutil import ordn
    p = ctx.p
    fi = p.func("reader.parse_header_items_section")
    site = fi.qual + "#transforms-before-items"
    stores = [a for a in walk_shallow(fi.node) if isinstance(a, ast.Assign) and any(
        isinstance(t, ast.Attribute) and t.attr == "mnemonic_transforms" for t in a.targets)]
    adds = [c for c in walk_shallow(fi.node) if isinstance(c, ast.Call) and isinstance(c.func, ast.Attribute) and c.func.attr in ("append", "insert", "extend")
            and isinstance(c.func.value, ast.Name) and "section" in c.func.value.id]
    if not stores or not adds:
        ctx.undecided("SI.TRANSFORMS-FIRST", site, fi, fi.node, "no `section.mnemonic_transforms = ...` store / no append of items in %s" % fi.qual)
        return
    late = [a for a in stores if ordn(a) > min(ordn(c) for c in adds)]
    ctx.check(not late, "SI.TRANSFORMS-FIRST", site, fi, late[0] if late else stores[0],
              "the case-normalisation flag of the section is set before the first item is appended",
              "`%s` comes after items were appended: duplicate and blank mnemonics were numbered with exact comparison, but are looked up "
              "ignoring case, so two items can answer to one key" % (unparse(late[0]) if late else ""))


def rule_deepcopy_memo(ctx):
    """PK.MEMO: a `__deepcopy__(self, memo)` hands its memo on to every nested deepcopy.  Without it each element is copied with
    a private memo: objects shared inside the original (two curves over one array, an item referenced twice) are no longer
    shared in the copy, and the copy's behaviour under later in-place edits differs from the original's."""
    p = ctx.p
    n = 0
    for q, fi in sorted(p.functions.items()):
        if isinstance(fi.node, ast.Lambda) or fi.name != "__deepcopy__" or fi.cls is None:
            continue
        params = fi.params()
        if len(params) < 2:
            continue
        memo = params[1]
        for c in walk_shallow(fi.node):
            if isinstance(c, ast.Call) and ast.unparse(c.func) in ("copy.deepcopy", "deepcopy"):
                n += 1
                passed = any(isinstance(a, ast.Name) and a.id == memo for a in c.args[1:]) or any(
                    isinstance(k.value, ast.Name) and k.value.id == memo for k in c.keywords)
                ctx.check(passed, "PK.MEMO", "%s#deepcopy(%s)" % (fi.qual, unparse(c.args[0])[:30] if c.args else "?"), fi, c,
                          "the nested deepcopy is given the memo", "`%s` in %s copies without the memo `%s`: sharing between the elements "
                          "(one array behind two curves) is lost in the copy" % (unparse(c), fi.qual, memo))
    if n == 0:
        ctx.undecided("PK.MEMO", "lasio#deepcopy-memo", None, 0, "no __deepcopy__ with nested copy.deepcopy calls")


def rule_setattr_exclusive(ctx):
    """SI.SETATTR-EXCLUSIVE: `section.KEY = value` for an existing key is item assignment and nothing else.  If the path that stores
    through `self[key] = value` can go on to `super().__setattr__(key, value)`, the value also becomes an instance attribute that
    shadows the item: `section.KEY` then returns the plain value while `section["KEY"]` returns the item."""
    p = ctx.p
    fi = p.func(SI + ".__setattr__")
    cfg = build_cfg(p, fi)
    key = fi.params()[1]
    stores = [n_.id for n_ in cfg.nodes if n_.kind == "stmt" and isinstance(n_.ast, ast.Assign) and any(
        isinstance(t, ast.Subscript) and isinstance(t.value, ast.Name) and t.value.id == "self" for t in n_.ast.targets)]
    stores += [n_.id for n_ in cfg.nodes if n_.ast is not None and n_.kind == "stmt" and any(
        isinstance(c, ast.Call) and isinstance(c.func, ast.Attribute) and c.func.attr in ("set_item", "set_item_value", "__setitem__")
        and isinstance(c.func.value, ast.Name) and c.func.value.id == "self" for c in walk_expr_shallow(n_.ast))]
    supers = [n_.id for n_ in cfg.nodes if n_.ast is not None and n_.kind == "stmt" and any(
        isinstance(c, ast.Call) and _is_super_call(c, "__setattr__") for c in walk_expr_shallow(n_.ast))]
    site = fi.qual + "#item-or-attribute"
    if not stores or not supers:
        ctx.undecided("SI.SETATTR-EXCLUSIVE", site, fi, fi.node, "__setattr__ has no `self[key] = value` store or no super().__setattr__ call")
        return
    pth = None
    for s_ in stores:
        pth = pth or cfg.find_path(s_, supers, skip_labels=EXC)
    ctx.check(pth is None, "SI.SETATTR-EXCLUSIVE", site, fi, fi.node, "after the item store __setattr__ returns (no instance attribute is created)",
              "after `self[%s] = value` the method can still reach super().__setattr__: the plain value also becomes an instance attribute "
              "that hides the item from attribute access" % key, cfg.describe_path(pth) if pth else None)
