"""Role-based anchors: find the function that hosts a construct, so that rules survive the splitting of LASFile.read
into private helpers (methods of LASFile or module-level functions of lasio/las.py)."""
import ast

from sa import AnalysisError
from sa.loader import walk_shallow
from sa.resolve import get_resolver

READ = "las.LASFile.read"


def read_family(p):
    """LASFile.read plus the functions of module `las` it (transitively) calls"""
    def build():
        r = get_resolver(p)
        root = p.func(READ)
        clos = r.closure([root])
        fam = [root] + [f for q, f in sorted(clos.items()) if f is not root and f.module.name == "las"
                        and not isinstance(f.node, ast.Lambda) and f.name not in ("curves", "well", "version", "params", "other", "index", "data")]
        return fam
    return p.cached("read_family", build)


def host(p, pred, what):
    """first function of the read family whose body satisfies pred(fi)"""
    for fi in read_family(p):
        try:
            if pred(fi):
                return fi
        except Exception:  # noqa
            continue
    raise AnalysisError("cannot find %s in LASFile.read or the helpers it calls" % what)


def calls_qual(p, fi, quals):
    r = get_resolver(p)
    out = []
    for c in walk_shallow(fi.node):
        if isinstance(c, ast.Call) and any(t.qual in quals for t in r.callees(fi, c)[0]):
            out.append(c)
    return out


def host_sections(p):
    """function that walks the section positions and parses header sections"""
    return host(p, lambda fi: bool(calls_qual(p, fi, {"reader.parse_header_items_section"})), "the section loop (call of parse_header_items_section)")


def host_data(p):
    """function that calls the reference data engine"""
    return host(p, lambda fi: bool(calls_qual(p, fi, {"reader.read_data_section_iterative_normal_engine"})), "the call of the reference data engine")


def host_unit_detection(p):
    return host(p, lambda fi: any(isinstance(s, ast.For) and "DEPTH_UNITS" in ast.unparse(s.iter) for s in walk_shallow(fi.node)),
                "the index-unit detection loop")


WRITE = "writer.write"
WRITER_ANCHORS = ("get_formatter_function", "get_section_order_function", "get_section_widths")


def write_family(p):
    """writer.write, the private module-level functions of lasio/writer.py it (transitively) calls, and all their
    nested functions (lambdas excluded)"""
    def build():
        r = get_resolver(p)
        root = p.func(WRITE)
        clos = r.closure([root])
        tops = [root] + [f for q, f in sorted(clos.items()) if f is not root and f.module.name == "writer" and f.parent is None
                         and f.cls is None and f.name not in WRITER_ANCHORS]
        fam = []
        for t in tops:
            fam.append(t)
            for q, f in sorted(p.functions.items()):
                if q.startswith(t.qual + ".") and not isinstance(f.node, ast.Lambda):
                    fam.append(f)
        # private classes of the writer module that today's tree does not have and that the family instantiates (closures of
        # write() turned into a small formatter class): their methods play the closures' part
        from sa.normalize import _reference
        ref = _reference()
        made = {c.func.id for f in fam for c in ast.walk(f.node) if isinstance(c, ast.Call) and isinstance(c.func, ast.Name)}
        for cq, ci in sorted(p.classes.items()):
            if ci.module.name == "writer" and ci.name in made and not any(k.startswith(cq + ".") for k in ref):
                for m in ci.methods.values():
                    if m not in fam and not isinstance(m.node, ast.Lambda):
                        fam.append(m)
        return fam
    return p.cached("write_family", build)
