"""Rule group EX (C18): JSON, CSV, Excel, DataFrame and depth views.

EX.JSON-TOTAL     every path through JSONEncoder.default returns a value, raises, or delegates to the base class
EX.JSON-NAN       every float-carrying source placed in the document (header values, curve samples) passes the NaN->None
                  map unconditionally
EX.ISNAN-GUARD    every isnan() on a curve sample (JSON, Excel, LAS writer) is protected against non-floats
EX.DEPTH-ALGEBRA  depth_m / depth_ft pair branch by branch; folded coefficients satisfy m = ft * 0.3048
EX.DEPTH-TABLE    each key of DEPTH_UNITS selects exactly one branch; every spelling in the table is recognised by the
                  unit-detection test, in either case for ASCII spellings; conflicts leave the unit undefined
EX.CSV            to_csv: mnemonic row under `mnemonics`, unit row under `units` and units_loc == 'line' only, one
                  record per depth step from self.data
EX.XLSX-SECTIONS  the header sheet iterates ~Version, ~Well, ~Parameter, ~Curves with five fields per item; NaN -> ''
EX.DF             df(): columns = session mnemonics, first curve as index; set_data_from_df restores index + columns
"""
import ast

from sa.astutil import ordn

from sa import AnalysisError
from sa.astutil import unparse, enclosing, in_block, protecting_try
from sa.cfg import build_cfg, EXC, is_catch_all
from sa.consts import fold, NotConst, module_env
from sa.dataflow import Provenance, ControlDependence
from sa.loader import walk_shallow, walk_expr_shallow
from sa.resolve import get_resolver

ENC = "las.JSONEncoder.default"
LF = "las.LASFile"


def rule_json_total(ctx):
    p = ctx.p
    fi = p.func(ENC)
    cfg = build_cfg(p, fi)
    problems = []
    path = None
    for (pred, lab) in cfg.pred[cfg.exit]:
        if lab != "return":
            pth = cfg.find_path(cfg.entry, [pred], skip_labels=EXC) or [pred]
            problems.append("JSONEncoder.default can fall off its end (after `%s`): an object json cannot serialise - e.g. a "
                            "numpy integer header value - is silently written as null" % cfg.nodes[pred].text(60))
            path = cfg.describe_path(pth[-6:])
    for node in cfg.nodes:
        if node.kind == "stmt" and isinstance(node.ast, ast.Return):
            v = node.ast.value
            if v is None or (isinstance(v, ast.Constant) and v.value is None):
                problems.append("`return None` in JSONEncoder.default writes the object as null")
    # the last resort delegates to the base class (raises TypeError for unknown objects)
    sup = [c for c in walk_shallow(fi.node) if isinstance(c, ast.Call) and isinstance(c.func, ast.Attribute) and c.func.attr == "default"
           and isinstance(c.func.value, ast.Call) and isinstance(c.func.value.func, ast.Name) and c.func.value.func.id == "super"]
    raises = [s for s in walk_shallow(fi.node) if isinstance(s, ast.Raise)]
    if not sup and not raises:
        problems.append("unknown objects are neither delegated to json.JSONEncoder.default nor rejected with an exception")
    ctx.check(not problems, "EX.JSON-TOTAL", ENC + "#total", fi, fi.node,
              "every path returns a value, raises, or delegates to super().default", "; ".join(dict.fromkeys(problems)), path)
    # numpy scalars: integers -> int, floats through the NaN map
    txt = ast.unparse(fi.node)
    ok_int = any(isinstance(s, ast.If) and "np.integer" in ast.unparse(s.test) and any(
        isinstance(r_, ast.Return) and "int(" in ast.unparse(r_.value) for r_ in s.body) for s in walk_shallow(fi.node))
    ctx.check(ok_int, "EX.JSON-TOTAL", ENC + "#numpy-integer", fi, fi.node,
              "numpy integers (integer-valued header items) are written as numbers",
              "numpy integer header values are not converted with int(): they are written as null or rejected")
    ctx.floor("EX.JSON-TOTAL", 2)


def _sanitisers(p):
    """functions that map NaN -> None: contain an isnan test whose true branch returns None"""
    out = set()
    for q, fi in p.functions.items():
        if isinstance(fi.node, ast.Lambda):
            continue
        for s in walk_shallow(fi.node):
            if isinstance(s, ast.If) and any(isinstance(c, ast.Call) and isinstance(c.func, ast.Attribute) and c.func.attr == "isnan" for c in ast.walk(s.test)):
                if any(isinstance(r_, ast.Return) and isinstance(r_.value, ast.Constant) and r_.value.value is None for r_ in s.body):
                    out.add(fi.name)
    return out


def _is_sanitised_elt(e, san):
    if isinstance(e, ast.Call):
        nm = e.func.attr if isinstance(e.func, ast.Attribute) else getattr(e.func, "id", "")
        return nm in san
    if isinstance(e, ast.IfExp):
        return "isnan" in ast.unparse(e.test) and isinstance(e.body, ast.Constant) and e.body.value is None
    return False


def rule_json_nan(ctx):
    """source-based: wherever a method of the encoder class reads curve samples (`<curve>.data`) or header values
    (`<section>.dictview()`), each element must pass the NaN->None map before it is placed in the document, on a path that does
    not depend on the dtype of the data"""
    p = ctx.p
    fi0 = p.func(ENC)
    cls = fi0.cls
    san = _sanitisers(p)
    methods = [m for m in cls.methods.values() if m.name not in san]
    found = {"data": [], "metadata": []}

    def kind_of_source(e):
        """'data' for <x>.data (x not self) possibly wrapped in list()/tolist()/np.asarray(); 'metadata' for
        <x>.dictview() / .dictview().items()/values()"""
        cur = e
        while True:
            if isinstance(cur, ast.Call) and isinstance(cur.func, ast.Attribute) and cur.func.attr in ("items", "values", "tolist", "iteritems", "copy"):
                cur = cur.func.value
            elif isinstance(cur, ast.Call) and isinstance(cur.func, ast.Name) and cur.func.id in ("list", "tuple", "iter", "enumerate") and cur.args:
                cur = cur.args[0]
            elif isinstance(cur, ast.Call) and ast.unparse(cur.func) in ("np.asarray", "np.array", "numpy.asarray") and cur.args:
                cur = cur.args[0]
            else:
                break
        if isinstance(cur, ast.Attribute) and cur.attr == "data" and not (isinstance(cur.value, ast.Name) and cur.value.id == "self"):
            return "data"
        if isinstance(cur, ast.Call) and isinstance(cur.func, ast.Attribute) and cur.func.attr == "dictview":
            return "metadata"
        return None

    def dtype_conditions(m, node):
        out = []
        cur, child = getattr(node, "_parent", None), node
        while cur is not None and cur is not m.node:
            if isinstance(cur, ast.If) and any(x in ast.unparse(cur.test) for x in ("dtype", "kind", "issubdtype")):
                out.append(cur.test)
            if isinstance(cur, ast.IfExp) and any(x in ast.unparse(cur.test) for x in ("dtype", "kind", "issubdtype")):
                out.append(cur.test)
            child, cur = cur, getattr(cur, "_parent", None)
        return out

    for m in methods:
        consumed = set()
        for sub in ast.walk(m.node):
            if isinstance(sub, (ast.ListComp, ast.DictComp, ast.GeneratorExp, ast.SetComp)) and len(sub.generators) == 1:
                g = sub.generators[0]
                kind = kind_of_source(g.iter)
                if kind is None:
                    continue
                for x in ast.walk(g.iter):
                    consumed.add(id(x))
                elt = sub.value if isinstance(sub, ast.DictComp) else sub.elt
                ok = _is_sanitised_elt(elt, san) and not g.ifs
                found[kind].append((m, sub, ok, "elements are `%s`" % unparse(elt), dtype_conditions(m, sub)))
        for sub in ast.walk(m.node):
            if id(sub) in consumed:
                continue
            kind = kind_of_source(sub) if isinstance(sub, (ast.Attribute, ast.Call)) else None
            if kind is None:
                continue
            par = getattr(sub, "_parent", None)
            # part of a larger source expression handled at its root
            if par is not None and kind_of_source(par) == kind and isinstance(par, (ast.Call, ast.Attribute)):
                continue
            if isinstance(par, ast.For) and par.iter is sub:
                # explicit loop: every store of the element must be sanitised
                names = {n.id for n in ast.walk(par.target) if isinstance(n, ast.Name)}
                stores = [c for st in par.body for c in ast.walk(st) if isinstance(c, ast.Call) and isinstance(c.func, ast.Attribute)
                          and c.func.attr == "append"]
                stores_ok = all(c.args and _is_sanitised_elt(c.args[0], san) for c in stores)
                assigns = [a for st in par.body for a in ast.walk(st) if isinstance(a, ast.Assign) and isinstance(a.targets[0], ast.Subscript)
                           and any(isinstance(n, ast.Name) and n.id in names for n in ast.walk(a.value))]
                assigns_ok = all(_is_sanitised_elt(a.value, san) for a in assigns)
                found[kind].append((m, par, bool(stores or assigns) and stores_ok and assigns_ok, "loop body stores the element",
                                    dtype_conditions(m, par)))
                continue
            if kind == "data" and isinstance(par, ast.Attribute) and par.attr in ("dtype", "shape", "size", "ndim"):
                continue
            if kind == "data" and isinstance(par, ast.Call) and isinstance(par.func, ast.Name) and par.func.id in ("len", "isinstance"):
                continue
            found[kind].append((m, sub, False, "`%s` is placed in the document as is" % unparse(par if par is not None else sub),
                                dtype_conditions(m, sub)))
    for kind in ("data", "metadata"):
        site = "%s#%s" % (ENC, kind)
        what = "curve sample" if kind == "data" else "header value"
        occ = found[kind]
        if not occ:
            ctx.undecided("EX.JSON-NAN", site, fi0, fi0.node, "no read of %s found in the methods of %s" % (
                "<curve>.data" if kind == "data" else "<section>.dictview()", cls.name))
            continue
        uncond_ok = False
        for (m, node, ok, why, conds) in occ:
            if ok and not conds:
                uncond_ok = True
                ctx.ok("EX.JSON-NAN", site, m, node, "every %s placed in the document passes the NaN->None map (%s)" % (what, why))
            elif ok:
                ctx.ok("EX.JSON-NAN", site + ":cond", m, node, "sanitised branch under `%s`" % unparse(conds[0]), nontrivial=False)
            else:
                ctx.bad("EX.JSON-NAN", site, m, node, "%ss are exported without the NaN->None map (%s): a NaN there is written as the "
                        "bare token NaN, which strict JSON parsers reject" % (what, why))
        if not uncond_ok and not any(not ok for (_, _, ok, _, _) in occ):
            ctx.bad("EX.JSON-NAN", site, fi0, fi0.node, "no unconditional, NaN-sanitised export of the %s" % kind)
    ctx.floor("EX.JSON-NAN", 2)


def rule_isnan_guard(ctx):
    p = ctx.p
    n = 0
    for q, fi in sorted(p.functions.items()):
        if fi.module.name not in ("las", "excel", "writer") or isinstance(fi.node, ast.Lambda):
            continue
        for c in walk_shallow(fi.node):
            if isinstance(c, ast.Call) and isinstance(c.func, ast.Attribute) and c.func.attr == "isnan":
                n += 1
                tr = None
                cur = c
                par = getattr(c, "_parent", None)
                protected = False
                while par is not None and not isinstance(par, (ast.FunctionDef, ast.Lambda)):
                    if isinstance(par, ast.Try) and in_block(cur, par.body):
                        for h in par.handlers:
                            names = [] if h.type is None else [ast.unparse(e) for e in (h.type.elts if isinstance(h.type, ast.Tuple) else [h.type])]
                            if h.type is None or "TypeError" in names or "Exception" in names or "BaseException" in names:
                                protected = True
                    cur = par
                    par = getattr(par, "_parent", None)
                site = "%s#isnan@%d" % (q, sum(1 for i in ctx.instances if i.site.startswith(q + "#isnan")) + 1)
                ctx.check(protected, "EX.ISNAN-GUARD", site, fi, c,
                          "isnan() on a sample is inside try/except TypeError: text curves pass through",
                          "`%s` is not protected against non-float samples: a text curve makes the export raise TypeError"
                          % unparse(c))
    ctx.floor("EX.ISNAN-GUARD", 1)


def _branches(fi):
    """[(unit code, return expr)] of a depth property"""
    out = []
    for s in ast.walk(fi.node):
        if isinstance(s, ast.If) and isinstance(s.test, ast.Call) and isinstance(s.test.func, ast.Attribute) \
                and s.test.func.attr == "_index_unit_contains" and s.test.args and isinstance(s.test.args[0], ast.Constant):
            rets = [x for x in s.body if isinstance(x, ast.Return)]
            if rets:
                out.append((s.test.args[0].value, rets[0].value, s.lineno))
    out.sort(key=lambda t: t[2])
    return [(c, e) for c, e, _ in out]


def _coeff(expr):
    """fold `self.index <op> consts` to the multiplier of self.index"""
    def env(name):
        if name == "self.index":
            return 1.0
        raise NotConst(name)
    try:
        return float(fold(expr, env))
    except (NotConst, TypeError, ValueError) as e:
        raise AnalysisError("cannot fold depth conversion `%s`: %s" % (unparse(expr), e))


def _table_branches(p, fm):
    """table form of the conversions: a module-level tuple/list of rows, each row holding one unit code (str constant) and
    two one-parameter lambdas (to metres / to feet, told apart by the 'M' row: metres is the identity there).
    -> (bm, bf) in the same shape as _branches, or None"""
    mod = fm.module
    for nm, vals in mod.globals.items():
        if len(vals) != 1 or not isinstance(vals[0], (ast.Tuple, ast.List)) or len(vals[0].elts) < 2:
            continue
        rows = []
        for row in vals[0].elts:
            if isinstance(row, (ast.Tuple, ast.List)):
                cells = list(row.elts)
            elif isinstance(row, ast.Call):
                cells = list(row.args) + [k.value for k in row.keywords]
            else:
                rows = None
                break
            codes = [c for c in cells if isinstance(c, ast.Constant) and isinstance(c.value, str)]
            lams = [c for c in cells if isinstance(c, ast.Lambda) and len(c.args.args) == 1]
            if len(codes) != 1 or len(lams) != 2 or len(cells) != 3:
                rows = None
                break
            rows.append((codes[0].value, lams))
        if not rows:
            continue
        # the table must be the one the depth properties use
        used = {x.id for f in mod.functions.values() for x in ast.walk(f.node) if isinstance(x, ast.Name)} | {
            x.id for c in mod.classes.values() for m in c.methods.values() for x in ast.walk(m.node) if isinstance(x, ast.Name)}
        if nm not in used:
            continue

        def lam_expr(lam):
            par = lam.args.args[0].arg

            class R(ast.NodeTransformer):
                def visit_Name(self, node):
                    if node.id == par:
                        return ast.copy_location(ast.Attribute(value=ast.Name(id="self", ctx=ast.Load()), attr="index", ctx=ast.Load()), node)
                    return node
            import copy as _copy
            return ast.fix_missing_locations(R().visit(_copy.deepcopy(lam.body)))
        mrow = next((r for r in rows if r[0] == "M"), None)
        if mrow is None:
            return None
        try:
            k0, k1 = _coeff(lam_expr(mrow[1][0])), _coeff(lam_expr(mrow[1][1]))
        except AnalysisError:
            return None
        mi = 0 if abs(k0 - 1.0) < 1e-12 else (1 if abs(k1 - 1.0) < 1e-12 else None)
        if mi is None:
            return None
        bm = [(c, lam_expr(l[mi])) for c, l in rows]
        bf = [(c, lam_expr(l[1 - mi])) for c, l in rows]
        return bm, bf
    return None


def rule_depth(ctx):
    p = ctx.p
    fm = p.func(LF + ".depth_m")
    ff = p.func(LF + ".depth_ft")
    bm, bf = _branches(fm), _branches(ff)
    site = LF + "#depth-algebra"
    problems = []
    table_form = False
    if not bm and not bf:
        tb = _table_branches(p, fm)
        if tb is None:
            ctx.undecided("EX.DEPTH-ALGEBRA", site, fm, fm.node, "depth_m/depth_ft are neither an if-chain over _index_unit_contains(<code>) "
                          "nor driven by a table of (code, to-metres, to-feet) rows")
            bm = bf = None
        else:
            bm, bf = tb
            table_form = True
    if bm is not None and [c for c, _ in bm] != [c for c, _ in bf]:
        problems.append("depth_m tests the unit codes %s, depth_ft %s: the two views branch differently" % ([c for c, _ in bm], [c for c, _ in bf]))
    if bm is not None and [c for c, _ in bm] == [c for c, _ in bf]:
        for (c, em), (_, ef) in zip(bm, bf):
            km, kf = _coeff(em), _coeff(ef)
            if abs(km - kf * 0.3048) > 1e-12 * max(1.0, abs(km)):
                problems.append("for index unit %r depth_m = index*%.9g but depth_ft = index*%.9g; depth_m must equal depth_ft x 0.3048"
                                % (c, km, kf))
        want = {"M": 1.0, "F": 0.3048, ".1IN": 0.3048 / 120}
        for c, em in bm:
            if c in want and abs(_coeff(em) - want[c]) > 1e-12:
                problems.append("depth_m for unit %r multiplies by %.9g, expected %.9g" % (c, _coeff(em), want[c]))
    for fi in (fm, ff):
        bodies = [fi] + [m for c in walk_shallow(fi.node) if isinstance(c, ast.Call) and isinstance(c.func, ast.Attribute)
                         and isinstance(c.func.value, ast.Name) and c.func.value.id == "self" and c.func.attr.startswith("_")
                         for m in [fi.cls.find_method(c.func.attr)] if m is not None]
        if not any(isinstance(s, ast.Raise) and "LASUnknownUnitError" in ast.unparse(s) for b in bodies for s in walk_shallow(b.node)):
            problems.append("%s does not raise LASUnknownUnitError for an undefined index unit" % fi.name)
    if bm is None:
        if problems:
            ctx.bad("EX.DEPTH-ALGEBRA", site, fm, fm.node, "; ".join(problems))
    else:
        ctx.check(not problems, "EX.DEPTH-ALGEBRA", site, fm, fm.node,
                  "depth_m and depth_ft pair %s (%s) and satisfy depth_m = depth_ft x 0.3048 exactly" % (
                      "row by row of the conversion table" if table_form else "branch by branch", [c for c, _ in bm]),
                  "; ".join(problems))
    # table: each key of DEPTH_UNITS selects exactly one branch, in both views
    env0 = module_env(p, "defaults")
    try:
        table = env0("DEPTH_UNITS")
    except NotConst as e:
        raise AnalysisError("cannot fold defaults.DEPTH_UNITS: %s" % e)
    fc = p.func(LF + "._index_unit_contains")
    rets = [s.value for s in walk_shallow(fc.node) if isinstance(s, ast.Return)]
    if len(rets) != 1:
        raise AnalysisError("_index_unit_contains has %d returns" % len(rets))
    codep = fc.params()[1]
    problems = []
    if bm is None:
        ctx.undecided("EX.DEPTH-TABLE", LF + "#unit-branches", fm, fm.node, "conversion branches not in a recognised form")
    for key in (table if bm is not None else ()):
        hits = []
        for c, _ in bm:
            def env(name, key=key, c=c):
                if name == "self.index_unit":
                    return key
                if name == codep:
                    return c
                raise NotConst(name)
            try:
                hits.append(bool(fold(rets[0], env)))
            except NotConst as e:
                raise AnalysisError("cannot fold _index_unit_contains: %s" % e)
        first = hits.index(True) if True in hits else None
        expect = {"FT": "F", "M": "M", ".1IN": ".1IN"}.get(key)
        if first is None:
            problems.append("index unit %r selects no branch of depth_m/depth_ft" % key)
        elif expect and bm[first][0] != expect:
            problems.append("index unit %r selects the %r branch (expected %r)" % (key, bm[first][0], expect))
    if bm is not None:
        ctx.check(not problems, "EX.DEPTH-TABLE", LF + "#unit-branches", fm, fm.node,
              "each key of DEPTH_UNITS (%s) selects its own conversion branch" % sorted(table), "; ".join(problems))
    # detection test in read(): every tabulated spelling is recognised; ASCII spellings in either case
    from rules.common import read_family

    class _T(object):
        pass
    found = None
    for fr in read_family(p):
        for s in ast.walk(fr.node):
            # loop form: for unit, spellings in DEPTH_UNITS.items(): for item in ...: if <test>: matches.append(unit)
            if isinstance(s, ast.For) and "DEPTH_UNITS" in ast.unparse(s.iter):
                for iff_ in ast.walk(s):
                    if isinstance(iff_, ast.If) and any(isinstance(c, ast.Call) and isinstance(c.func, ast.Attribute) and c.func.attr in ("append", "add")
                                                        for st in iff_.body for c in ast.walk(st)):
                        inner_ = enclosing(iff_, (ast.For,))
                        found = (fr, s, iff_.test, s.target.elts[1].id if isinstance(s.target, ast.Tuple) else None,
                                 inner_.target.id if inner_ is not None and isinstance(inner_.target, ast.Name) else None)
            # comprehension form: {unit for unit, spellings in DEPTH_UNITS.items() for item in ... if <test>}
            if isinstance(s, (ast.SetComp, ast.ListComp, ast.GeneratorExp)) and len(s.generators) == 2 \
                    and "DEPTH_UNITS" in ast.unparse(s.generators[0].iter) and len(s.generators[1].ifs) == 1 and not s.generators[0].ifs:
                g0, g1 = s.generators
                found = (fr, s, g1.ifs[0], g0.target.elts[1].id if isinstance(g0.target, ast.Tuple) else None,
                         g1.target.id if isinstance(g1.target, ast.Name) else None)
        if found:
            break
    if found is None:
        ctx.undecided("EX.DEPTH-TABLE", LF + ".read#unit-detection", p.func(LF + ".read"), p.func(LF + ".read").node,
                      "no loop or comprehension over defaults.DEPTH_UNITS with a spelling test found in LASFile.read or its helpers")
        ctx.floor("EX.DEPTH-TABLE", 0)
        ctx.floor("EX.DEPTH-ALGEBRA", 1)
        return
    fr, loop, test_expr, posv, cu = found
    iff = _T()
    iff.test = test_expr
    problems = []
    for key, spellings in table.items():
        for sp in spellings:
            variants = [sp]
            if sp.isascii():
                variants += [sp.lower(), sp.upper(), sp.capitalize()]
            for v in variants:
                def env(name, v=v, spellings=spellings):
                    if name == posv:
                        return tuple(spellings)
                    if name == "%s.unit" % cu:
                        return v
                    raise NotConst(name)
                try:
                    ok = bool(fold(iff.test, env))
                except NotConst as e:
                    raise AnalysisError("cannot fold the unit-detection test `%s`: %s" % (unparse(iff.test), e))
                if not ok:
                    problems.append("the unit spelling %r (table entry %r for %s) is not recognised by `%s`" % (v, sp, key, unparse(iff.test)))
    # false positives: a spelling of another unit must not match
    for key, spellings in table.items():
        for other, osp in table.items():
            if other == key:
                continue
            for v in osp:
                def env(name, v=v, spellings=spellings):
                    if name == posv:
                        return tuple(spellings)
                    if name == "%s.unit" % cu:
                        return v
                    raise NotConst(name)
                if bool(fold(iff.test, env)):
                    problems.append("unit %r is recognised as %s" % (v, key))
    ctx.check(not problems, "EX.DEPTH-TABLE", LF + ".read#unit-detection", fr, loop,
              "every spelling tabulated in DEPTH_UNITS is recognised (ASCII spellings in any case) and none is recognised as another unit",
              "; ".join(list(dict.fromkeys(problems))[:4]))
    # the first curve is one of the items whose unit is compared, whenever there is a curve (not a fallback)
    for s_ in ast.walk(fr.node):
        if isinstance(s_, ast.Call) and isinstance(s_.func, ast.Attribute) and s_.func.attr == "append" and s_.args \
                and isinstance(s_.args[0], ast.Subscript) and ast.unparse(s_.args[0].value).endswith("curves") \
                and isinstance(s_.args[0].slice, ast.Constant) and s_.args[0].slice.value == 0:
            extra = []
            cur_ = getattr(s_, "_parent", None)
            while cur_ is not None and cur_ is not fr.node:
                if isinstance(cur_, (ast.If, ast.While, ast.IfExp)):
                    lst = ast.unparse(s_.func.value)
                    for x in ast.walk(cur_.test):
                        # a condition on the header items collected so far / on their units (an explicit index_unit= option is fine)
                        if isinstance(x, ast.Name) and x.id == lst:
                            extra.append(x.id)
                        if isinstance(x, ast.Attribute) and x.attr in ("unit", "well"):
                            extra.append(x.attr)
                cur_ = getattr(cur_, "_parent", None)
            ctx.check(not extra, "EX.DEPTH-TABLE", LF + ".read#first-curve", fr, s_,
                      "the first curve's unit is compared with STRT/STOP/STEP whenever a curve exists",
                      "the first curve only joins the unit check under a condition on %s: a header/curve unit conflict (STRT.M with "
                      "DEPT.FT) is no longer detected and the index unit silently follows the header" % sorted(set(extra)))
    # conflict -> None ; single -> that unit
    # the result goes to self.index_unit directly or through a result name (`self.index_unit = r`)
    rnames = {a.value.id for a in walk_shallow(fr.node) if isinstance(a, ast.Assign) and isinstance(a.value, ast.Name)
              and any(isinstance(t, ast.Attribute) and t.attr == "index_unit" for t in a.targets)}

    def is_result(t):
        return (isinstance(t, ast.Attribute) and t.attr == "index_unit") or (isinstance(t, ast.Name) and t.id in rnames)
    single = [x for x in walk_shallow(fr.node) if isinstance(x, ast.If) and isinstance(x.test, ast.Compare) and len(x.test.ops) == 1
              and isinstance(x.test.ops[0], ast.Eq) and isinstance(x.test.left, ast.Call) and ast.unparse(x.test.left.func) == "len"
              and isinstance(x.test.comparators[0], ast.Constant) and x.test.comparators[0].value == 1
              and any(isinstance(a, ast.Assign) and any(is_result(t) for t in a.targets) for a in x.body)]
    # everything else (no match, several matches) leaves the unit undefined: every result assignment on the else side is None
    ok = False
    for x in single:
        others = [a for st in x.orelse for a in ast.walk(st) if isinstance(a, ast.Assign) and any(is_result(t) for t in a.targets)]
        if others and all(isinstance(a.value, ast.Constant) and a.value.value is None for a in others):
            ok = True
        elif not x.orelse:
            # guard-clause form: the result is None unless the single-match branch overwrites it
            pre = [a for a in walk_shallow(fr.node) if isinstance(a, ast.Assign) and any(is_result(t) for t in a.targets)
                   and ordn(a) < ordn(x) and isinstance(a.value, ast.Constant) and a.value.value is None]
            ok = bool(pre)
    ctx.check(ok, "EX.DEPTH-TABLE", LF + ".read#conflict", fr, loop, "one match defines the unit, none or several leave it undefined",
              "the index unit is no longer left undefined when STRT/STOP/STEP and the first curve conflict")
    ctx.floor("EX.DEPTH-TABLE", 3)
    ctx.floor("EX.DEPTH-ALGEBRA", 1)


def rule_csv(ctx):
    p = ctx.p
    fi = p.func(LF + ".to_csv")
    cfg = build_cfg(p, fi)
    cd = ControlDependence(cfg)
    rows = []
    undecided = []
    for node in cfg.nodes:
        if node.ast is None or node.kind != "stmt":
            continue
        for c in walk_expr_shallow(node.ast):
            if isinstance(c, ast.Call) and isinstance(c.func, ast.Attribute) and c.func.attr == "writerow" and c.args:
                tests = [(cfg.nodes[tn].ast, lab.startswith("true")) for (tn, lab) in cd.transitive(node.id)
                         if cfg.nodes[tn].kind == "test"]
                names = set()
                for t, pol in tests:
                    names |= {n.id for n in ast.walk(t) if isinstance(n, ast.Name)}
                # rows produced by a generator of the module: `for row in _gen(mnemonics, units, units_loc): writerow(row)`
                lp = enclosing(c, (ast.For,))
                a0 = c.args[0]
                if (isinstance(a0, ast.Name) and lp is not None and isinstance(lp.target, ast.Name) and lp.target.id == a0.id
                        and isinstance(lp.iter, ast.Call) and (isinstance(lp.iter.func, ast.Name) or (
                            isinstance(lp.iter.func, ast.Attribute) and isinstance(lp.iter.func.value, ast.Name) and lp.iter.func.value.id == "self"))):
                    if isinstance(lp.iter.func, ast.Name):
                        g = fi.module.functions.get(lp.iter.func.id)
                    else:
                        g = fi.cls.find_method(lp.iter.func.attr) if fi.cls is not None else None
                    if g is None or not any(isinstance(y, ast.Yield) for y in ast.walk(g.node)):
                        undecided.append("rows come from `%s`" % unparse(lp.iter))
                        continue
                    gp = [x_ for x_ in g.params() if not (g.cls is not None and x_ == "self")]
                    ren = {}
                    for pn, av in zip(gp, lp.iter.args):
                        if isinstance(av, ast.Name):
                            ren[pn] = av.id
                    gcfg = build_cfg(p, g)
                    gcd = ControlDependence(gcfg)
                    for gn in gcfg.nodes:
                        if gn.ast is None or gn.kind != "stmt":
                            continue
                        for y in walk_expr_shallow(gn.ast):
                            if isinstance(y, ast.Yield) and y.value is not None:
                                gnames = set()
                                for (tn, lab) in gcd.transitive(gn.id):
                                    if gcfg.nodes[tn].kind == "test":
                                        gnames |= {ren.get(n.id, n.id) for n in ast.walk(gcfg.nodes[tn].ast) if isinstance(n, ast.Name)}
                                yv = y.value
                                txt = ren.get(yv.id, yv.id) if isinstance(yv, ast.Name) else ast.unparse(yv)
                                rows.append((gn, c, names | gnames, txt, yv))
                    continue
                rows.append((node, c, names, ast.unparse(a0), a0))
    site = LF + ".to_csv"
    problems = []
    kinds = {}
    if undecided:
        ctx.undecided("EX.CSV", site, fi, fi.node, "; ".join(undecided))
        return
    import re as _re

    def base(nm):
        # locals of an inlined private helper carry a `__<helper><k>` tag (sa/normalize.py)
        return _re.sub(r"__[A-Za-z_]+\d+$", "", nm)
    for node, c, names, arg, argnode in rows:
        names = {base(x) for x in names} - {"opened_file"}
        arg = base(arg)
        if arg == "mnemonics":
            kinds["mnemonics"] = names
            if "mnemonics" not in names:
                problems.append("the mnemonic row is written without testing `mnemonics`")
        elif arg == "units":
            kinds["units"] = names
            if "mnemonics" in names:
                problems.append("the unit row is written only when `mnemonics` is also true: with mnemonics=False the requested "
                                "unit row is silently dropped")
            if "units" not in names or "units_loc" not in names:
                problems.append("the unit row is not controlled by `units` and units_loc == 'line'")
        elif (isinstance(argnode, ast.Name) and enclosing(c, (ast.For,)) is not None
              and isinstance(enclosing(c, (ast.For,)).target, ast.Name) and enclosing(c, (ast.For,)).target.id == argnode.id
              and ast.unparse(enclosing(c, (ast.For,)).iter) == "self.data"):
            # `for row in self.data: writerow(row)` - iterating the 2-D array yields its rows in order
            kinds["data"] = names
            if names - {argnode.id}:
                problems.append("data records are written only under %s" % sorted(names))
        elif "self.data" in arg:
            kinds["data"] = names
            lp = enclosing(c, (ast.For,))
            if lp is None or "self.data.shape[0]" not in ast.unparse(lp.iter) or "range" not in ast.unparse(lp.iter):
                problems.append("data records are not written for i in range(self.data.shape[0])")
            elif not (isinstance(argnode, ast.Subscript) and isinstance(argnode.slice, ast.Tuple)
                      and isinstance(argnode.slice.elts[0], ast.Name) and isinstance(argnode.slice.elts[1], ast.Slice)
                      and argnode.slice.elts[1].lower is None and argnode.slice.elts[1].upper is None):
                problems.append("a data record is `%s`, not the full row self.data[i, :]" % arg)
            if names - {"i"}:
                problems.append("data records are written only under %s" % sorted(names))
        else:
            problems.append("unexpected row `%s`" % arg)
    for k in ("mnemonics", "units", "data"):
        if k not in kinds:
            problems.append("no %s row is written" % k)
    # the caller's mnemonics / units lists are read, never modified
    import re as _re2
    plist = {"mnemonics", "units"} & set(fi.params())
    for sub in walk_shallow(fi.node):
        tgt = None
        if isinstance(sub, (ast.Assign, ast.AugAssign, ast.Delete)):
            ts = sub.targets if isinstance(sub, (ast.Assign, ast.Delete)) else [sub.target]
            for t in ts:
                if isinstance(t, ast.Subscript) and isinstance(t.value, ast.Name):
                    tgt = t.value.id
        elif isinstance(sub, ast.Call) and isinstance(sub.func, ast.Attribute) and isinstance(sub.func.value, ast.Name) \
                and sub.func.attr in ("append", "extend", "insert", "pop", "remove", "sort", "reverse", "clear", "__setitem__"):
            tgt = sub.func.value.id
        if tgt is not None and _re2.sub(r"__[A-Za-z_]+\d+$", "", tgt) in plist:
            problems.append("`%s` modifies the list passed as %s= in place: the caller's list is changed and the decoration leaks "
                            "into the next export that reuses it" % (unparse(sub)[:70], _re2.sub(r"__[A-Za-z_]+\d+$", "", tgt)))
    # the caller's csv options reach the writer
    if fi.node.args.kwarg is not None:
        kwn = fi.node.args.kwarg.arg
        for c_ in walk_shallow(fi.node):
            if isinstance(c_, ast.Call) and ast.unparse(c_.func) in ("csv.writer", "writer") and not any(
                    k.arg is None and isinstance(k.value, ast.Name) and k.value.id == kwn for k in c_.keywords):
                problems.append("`%s` does not pass **%s on: the csv options the caller asked for (delimiter, quoting, dialect ...) are "
                                "dropped and the rows do not parse back with that dialect" % (unparse(c_)[:70], kwn))
    # lineterminator default
    if "lineterminator" not in ast.unparse(fi.node):
        problems.append("lineterminator default is gone")
    ctx.check(not problems, "EX.CSV", site, fi, fi.node,
              "mnemonic row under `mnemonics`; unit row under `units` and units_loc == 'line' (independent of mnemonics); one "
              "record per depth step = self.data[i, :]", "; ".join(dict.fromkeys(problems)))
    ctx.floor("EX.CSV", 1)


def _cell_writers(p):
    """names of the functions of lasio/excel.py (nested or module level) that set one cell: `sh.cell(row=, column=)`"""
    out = set()
    for q, f in p.functions.items():
        if f.module.name == "excel" and not isinstance(f.node, ast.Lambda) and f.name != "generate_workbook":
            if any(isinstance(c, ast.Call) and isinstance(c.func, ast.Attribute) and c.func.attr == "cell" for c in walk_shallow(f.node)) \
                    and len(f.params()) == 4:
                out.add(f.name)
    return out


def rule_xlsx(ctx):
    p = ctx.p
    fi = p.func("excel.ExcelConverter.generate_workbook")
    writers = _cell_writers(p)
    if not writers:
        ctx.undecided("EX.XLSX-SECTIONS", fi.qual, fi, fi.node, "no (sheet, row, column, value) cell-writer function found in lasio/excel.py")
        return

    def is_write(c):
        if not (isinstance(c, ast.Call) and len(c.args) == 4):
            return False
        nm = c.func.id if isinstance(c.func, ast.Name) else (c.func.attr if isinstance(c.func, ast.Attribute) else None)
        return nm in writers
    problems = []
    secs = None
    for s in walk_shallow(fi.node):
        if isinstance(s, ast.Assign) and isinstance(s.value, ast.List) and all(isinstance(e, ast.Tuple) and len(e.elts) == 2 for e in s.value.elts) and s.value.elts:
            secs = s.value
    if secs is None:
        problems.append("no list of header sections")
    else:
        got = [(e.elts[0].value if isinstance(e.elts[0], ast.Constant) else None, ast.unparse(e.elts[1]).split(".")[-1]) for e in secs.elts]
        want = {("~Version", "version"), ("~Well", "well"), ("~Parameter", "params"), ("~Curves", "curves")}
        if set(got) != want:
            problems.append("the Header sheet lists %s; it must list every item of ~Version, ~Well, ~Parameter and ~Curves" % got)
    fields = set()
    counter = None
    for c in walk_shallow(fi.node):
        if is_write(c):
            v = c.args[3]
            if isinstance(v, ast.Attribute) and isinstance(v.value, ast.Name) and v.attr in ("mnemonic", "unit", "value", "descr") \
                    and isinstance(c.args[1], ast.Name):
                fields.add((ast.unparse(c.args[2]), v.attr))
                counter = c.args[1].id
    want_f = {("1", "mnemonic"), ("2", "unit"), ("3", "value"), ("4", "descr")}
    if fields != want_f:
        problems.append("item cells are %s, expected mnemonic, unit, value, descr in columns 1-4" % sorted(fields))
    # row counter increments once per item
    incs = [s for s in ast.walk(fi.node) if isinstance(s, ast.AugAssign) and isinstance(s.target, ast.Name) and s.target.id == counter]
    enum_counter = any(isinstance(l, ast.For) and isinstance(l.iter, ast.Call) and ast.unparse(l.iter.func) == "enumerate"
                       and isinstance(l.target, ast.Tuple) and isinstance(l.target.elts[0], ast.Name) and l.target.elts[0].id == counter
                       for l in ast.walk(fi.node))
    if enum_counter and not incs:
        pass   # one row per element of the enumerated (section, item) stream
    elif counter is not None and (len(incs) != 1 or not (isinstance(incs[0].value, ast.Constant) and incs[0].value.value == 1)):
        problems.append("the header row counter does not advance by one per item")
    # curves sheet: inside `for <j>, <value> in enumerate(curve.data)`: NaN branch writes "", other branch writes <value>
    def per_curve_samples(l):
        # enumerate(<curve>.data[, start]) where <curve> is the variable of an enclosing loop over the curves
        if not (isinstance(l, ast.For) and isinstance(l.iter, ast.Call) and "enumerate" in ast.unparse(l.iter.func) and l.iter.args):
            return False
        a = l.iter.args[0]
        if not (isinstance(a, ast.Attribute) and a.attr == "data" and isinstance(a.value, ast.Name)):
            return False
        outer = enclosing(l, (ast.For,))
        return outer is not None and a.value.id in {n.id for n in ast.walk(outer.target) if isinstance(n, ast.Name)} \
            and "curves" in ast.unparse(outer.iter)
    inner = [l for l in ast.walk(fi.node) if per_curve_samples(l)]
    if not inner:
        problems.append("the Curves sheet no longer loops over every sample of every curve")
    else:
        lp = inner[0]
        val = lp.target.elts[1].id if isinstance(lp.target, ast.Tuple) and isinstance(lp.target.elts[1], ast.Name) else None
        okcell = False

        def written(block):
            return [c.args[3] for st in block for c in ast.walk(st) if is_write(c)]
        for iff in [x for x in ast.walk(lp) if isinstance(x, ast.If)]:
            a, b = written(iff.body), written(iff.orelse)
            if len(a) == 1 and len(b) == 1 and isinstance(a[0], ast.Constant) and a[0].value == "" and isinstance(b[0], ast.Name) and b[0].id == val:
                okcell = True
        for v in written(lp.body):
            # conditional-expression form: write(..., "" if <nan test> else value)
            if isinstance(v, ast.IfExp) and "nan" in ast.unparse(v.test).lower() and isinstance(v.body, ast.Constant) and v.body.value == "" \
                    and isinstance(v.orelse, ast.Name) and v.orelse.id == val:
                okcell = True
        if not okcell:
            problems.append("a sample is not written as '' when NaN and as the sample itself otherwise")
        # the NaN decision belongs to the sample in hand: a flag tested in the loop is assigned in the same iteration on every
        # path that reaches the test (exception edges included) - otherwise the previous sample's answer is reused
        cfgx = build_cfg(p, fi)
        heads = cfgx.nodes_for(lp)
        if heads:
            body_entry = [t for (t, lab) in cfgx.succ[heads[0]] if lab == "body"]
            for tnode in cfgx.nodes:
                if tnode.kind == "test" and isinstance(tnode.ast, ast.Name) and in_block(tnode.ast, lp.body):
                    flag = tnode.ast.id
                    defs_in = [n_.id for n_ in cfgx.nodes if n_.kind == "stmt" and isinstance(n_.ast, ast.Assign) and in_block(n_.ast, lp.body)
                               and any(isinstance(t_, ast.Name) and t_.id == flag for t_ in n_.ast.targets)]
                    # search: an assignment whose right-hand side raises has not assigned - follow only its 'exc' edge
                    seen_, todo_ = set(), list(body_entry)
                    reached = False
                    while todo_:
                        cur_ = todo_.pop()
                        if cur_ in seen_ or cur_ == heads[0]:
                            continue
                        seen_.add(cur_)
                        if cur_ == tnode.id:
                            reached = True
                            break
                        for (t_, lab_) in cfgx.succ[cur_]:
                            if cur_ in defs_in and lab_ != "exc":
                                continue
                            todo_.append(t_)
                    for be in ([body_entry[0]] if reached and body_entry else []):
                        if True:
                            problems.append("the flag `%s` can be tested without having been set for the current sample (e.g. after "
                                            "isnan() raised TypeError on a text sample): the previous sample's NaN answer is reused and "
                                            "text cells after a NaN are written empty" % flag)
    ctx.check(not problems, "EX.XLSX-SECTIONS", fi.qual, fi, fi.node,
              "Header sheet: four sections x (section, mnemonic, unit, value, descr); Curves sheet: mnemonic row, samples, NaN -> ''",
              "; ".join(problems))
    ctx.floor("EX.XLSX-SECTIONS", 1)


def rule_df(ctx):
    p = ctx.p
    fi = p.func(LF + ".df")
    problems = []
    frames = [c for c in walk_shallow(fi.node) if isinstance(c, ast.Call) and ast.unparse(c.func).endswith("DataFrame")]
    if len(frames) != 1:
        problems.append("df() does not build exactly one DataFrame")
    else:
        c = frames[0]
        cols = next((k.value for k in c.keywords if k.arg == "columns"), None)
        ldefs = {}
        for a_ in walk_shallow(fi.node):
            if isinstance(a_, ast.Assign) and len(a_.targets) == 1 and isinstance(a_.targets[0], ast.Name):
                ldefs.setdefault(a_.targets[0].id, []).append(a_.value)
        colvar = None
        if isinstance(cols, ast.Name) and len(ldefs.get(cols.id, ())) == 1:
            colvar, cols = cols.id, ldefs[cols.id][0]
        if not (c.args and ast.unparse(c.args[0]) == "self.data"):
            problems.append("the frame is not built from self.data")
        if not (isinstance(cols, ast.ListComp) and isinstance(cols.elt, ast.Attribute) and cols.elt.attr == "mnemonic"
                and ast.unparse(cols.generators[0].iter) == "self.curves" and not cols.generators[0].ifs):
            problems.append("the columns are not the curves' session mnemonics in order")
    idx = [c for c in walk_shallow(fi.node) if isinstance(c, ast.Call) and isinstance(c.func, ast.Attribute) and c.func.attr == "set_index"]
    first_ok = bool(idx) and bool(idx[0].args) and (
        ast.unparse(idx[0].args[0]) == "self.curves[0].mnemonic" or (
            len(frames) == 1 and colvar is not None and isinstance(idx[0].args[0], ast.Subscript) and isinstance(idx[0].args[0].value, ast.Name)
            and idx[0].args[0].value.id == colvar and isinstance(idx[0].args[0].slice, ast.Constant) and idx[0].args[0].slice.value == 0))
    if not first_ok:
        problems.append("the first curve is not made the index")
    # object columns become float64 all-or-nothing: astype inside try/except ValueError, no element-wise coercion
    for c in walk_shallow(fi.node):
        if isinstance(c, ast.Call):
            nm = ast.unparse(c.func).split(".")[-1]
            if nm in ("to_numeric", "to_datetime", "infer_objects", "convert_dtypes") or any(
                    k.arg == "errors" and isinstance(k.value, ast.Constant) and k.value.value in ("coerce", "ignore") for k in c.keywords):
                problems.append("`%s` converts a column element by element: text samples of a mixed column silently become NaN" % unparse(c))
            if nm == "astype":
                tr = enclosing(c, (ast.Try,))
                if tr is None or not any(h.type is not None and "ValueError" in ast.unparse(h.type) for h in tr.handlers):
                    problems.append("`%s` is not protected by `except ValueError`: a text column makes df() fail" % unparse(c))
                elif not all(len(h.body) == 1 and isinstance(h.body[0], (ast.Pass, ast.Continue)) for h in tr.handlers):
                    problems.append("a column that cannot be converted as a whole is not left as it is")
    # set_data_from_df takes the names exactly as the frame carries them (index name + str(column))
    fs = p.func(LF + ".set_data_from_df")
    for sub in walk_shallow(fs.node):
        if isinstance(sub, ast.Call):
            nm = ast.unparse(sub.func)
            if nm.startswith("re.") or (isinstance(sub.func, ast.Attribute) and sub.func.attr in ("strip", "rstrip", "lstrip", "replace", "split", "rsplit",
                                                                                              "partition", "rpartition", "upper", "lower", "removesuffix", "removeprefix")):
                problems.append("set_data_from_df rewrites the column names with `%s`: set_data_from_df(df()) no longer restores the curves' "
                                "names (RHO:2/RHO:3 after a deletion come back as RHO:1/RHO:2, a curve really called RES:1 becomes RES)" % unparse(sub)[:60])
    # the frame's own names are used whenever the caller gave none: missing, None (what set_data() forwards) or empty
    from sa.consts import fold as _fold, NotConst as _NC
    kwname = fs.node.args.kwarg.arg if fs.node.args.kwarg is not None else None
    for sub in walk_shallow(fs.node):
        if kwname and isinstance(sub, ast.If) and any(
                isinstance(a_, ast.Assign) and any(isinstance(t_, ast.Subscript) and isinstance(t_.value, ast.Name) and t_.value.id == kwname
                                                   and isinstance(t_.slice, ast.Constant) and t_.slice.value == "names" for t_ in a_.targets)
                for a_ in sub.body):
            for world, label in (({}, "no names argument"), ({"names": None}, "names=None (what set_data forwards)"), ({"names": []}, "names=[]")):
                try:
                    v = bool(_fold(sub.test, lambda n_, world=world: world if n_ == kwname else (_ for _ in ()).throw(_NC(n_))))
                except _NC:
                    continue
                except Exception:  # noqa - not foldable
                    continue
                if not v:
                    problems.append("with %s the names of the frame (index name + columns) are not used: `%s` is false there, the curves keep "
                                    "their old or placeholder names and set_data_from_df(df()) no longer restores them" % (label, unparse(sub.test)))
    ctx.check(not problems, "EX.DF", fi.qual, fi, fi.node, "df(): self.data with the session mnemonics as columns, first curve as index",
              "; ".join(problems))
    ctx.floor("EX.DF", 1)


def rule_dictview(ctx):
    """EX.JSON-KEYS: the header part of the JSON document is keyed by session mnemonics (pairwise distinct), so every item
    is carried; keys built from useful/original mnemonics collapse duplicates"""
    p = ctx.p
    fi = p.func("las_items.SectionItems.dictview")
    rets = [s_.value for s_ in walk_shallow(fi.node) if isinstance(s_, ast.Return) and s_.value is not None]
    problems = []
    if len(rets) != 1:
        problems.append("dictview has %d returns" % len(rets))
    else:
        v = rets[0]
        keytxt = None
        if isinstance(v, ast.Call) and isinstance(v.func, ast.Name) and v.func.id == "dict" and v.args and isinstance(v.args[0], ast.Call) \
                and isinstance(v.args[0].func, ast.Name) and v.args[0].func.id == "zip" and len(v.args[0].args) == 2:
            def resolved(e, depth=0):
                # single-definition locals (also the result names of inlined private helpers) are read through
                if isinstance(e, ast.Name) and depth < 4:
                    ds = [s_.value for s_ in walk_shallow(fi.node) if isinstance(s_, ast.Assign) and any(
                        isinstance(t, ast.Name) and t.id == e.id for t in s_.targets)]
                    if len(ds) == 1:
                        return resolved(ds[0], depth + 1)
                return e
            keytxt = ast.unparse(resolved(v.args[0].args[0]))
            valtxt = ast.unparse(resolved(v.args[0].args[1]))
            if keytxt not in ("self.keys()", "[item.mnemonic for item in self]", "[i.mnemonic for i in self]"):
                problems.append("keys are `%s`" % keytxt)
            if ".value" not in valtxt:
                problems.append("values are `%s`" % valtxt)
        elif isinstance(v, ast.DictComp):
            attrs = {a.attr for a in ast.walk(v.key) if isinstance(a, ast.Attribute)}
            if attrs != {"mnemonic"}:
                problems.append("keys are `%s` (%s)" % (unparse(v.key), sorted(attrs)))
            vattrs = {a.attr for a in ast.walk(v.value) if isinstance(a, ast.Attribute)}
            if "value" not in vattrs:
                problems.append("values are `%s`" % unparse(v.value))
            if v.generators[0].ifs:
                problems.append("items are filtered")
        else:
            problems.append("unrecognised construction `%s`" % unparse(v))
    ctx.check(not problems, "EX.JSON-KEYS", fi.qual, fi, fi.node,
              "dictview maps each item's session mnemonic to its value (one entry per item)",
              "dictview: %s - items that share a mnemonic collapse into one entry and to_json() no longer carries every header "
              "value" % "; ".join(problems))
    ctx.floor("EX.JSON-KEYS", 1)


def rule_table_literals(ctx):
    """EX.TABLE-LITERALS: no implicit string concatenation inside the DEPTH_UNITS spelling table (a lost comma merges two
    spellings into one unrecognisable entry)"""
    import io
    import tokenize
    p = ctx.p
    mod = p.module("defaults")
    node = mod.globals.get("DEPTH_UNITS", [None])[0]
    if node is None:
        raise AnalysisError("defaults.DEPTH_UNITS not found")
    lo, hi = node.lineno, node.end_lineno
    toks = [t for t in tokenize.generate_tokens(io.StringIO(mod.source).readline)
            if lo <= t.start[0] <= hi and t.type not in (tokenize.NL, tokenize.NEWLINE, tokenize.COMMENT, tokenize.INDENT, tokenize.DEDENT)]
    bad = []
    for a, b in zip(toks, toks[1:]):
        if a.type == tokenize.STRING and b.type == tokenize.STRING:
            bad.append((a.string, b.string, a.start[0]))
    fi = p.func("defaults.get_default_items")
    ctx.check(not bad, "EX.TABLE-LITERALS", "defaults.DEPTH_UNITS#literals", fi, node,
              "every spelling in DEPTH_UNITS is its own tuple element",
              "adjacent string literals %s in DEPTH_UNITS are concatenated into one entry (a comma is missing): neither "
              "spelling is recognised any more, and a conflict involving it goes unnoticed" % ", ".join("%s %s (line %d)" % x for x in bad))
    # every spelling selects the branch of its own key (catches entries that no longer contain their unit code)
    ctx.floor("EX.TABLE-LITERALS", 1)


def rule_fresh_document(ctx):
    """EX.FRESH-DOC: every export builds its document from containers created in the call.  A shallow copy (`dict(T)`, `T.copy()`,
    `copy.copy(T)`, `list(T)`) of a module- or class-level template that itself contains mutable containers shares those inner
    containers between all exports: what one to_json() call put there shows up in the next."""
    p = ctx.p
    templates = {}
    for mn, mod in p.modules.items():
        for nm, vals in mod.globals.items():
            for v in vals:
                if isinstance(v, (ast.Dict, ast.List)) and any(isinstance(x, (ast.Dict, ast.List, ast.Set)) for e in ast.iter_child_nodes(v)
                                                               for x in ([e] if isinstance(e, (ast.Dict, ast.List, ast.Set)) else [])):
                    templates[nm] = "%s.%s" % (mn, nm)
    for cq, ci in p.classes.items():
        for st in ci.node.body:
            if isinstance(st, ast.Assign) and isinstance(st.value, (ast.Dict, ast.List)) and any(
                    isinstance(e, (ast.Dict, ast.List, ast.Set)) for e in ast.iter_child_nodes(st.value)):
                for t in st.targets:
                    if isinstance(t, ast.Name):
                        templates[t.id] = "%s.%s" % (cq, t.id)
    n = 0
    bad = []
    for q, fi in sorted(p.functions.items()):
        if isinstance(fi.node, ast.Lambda):
            continue
        for c in walk_shallow(fi.node):
            if not isinstance(c, ast.Call):
                continue
            src = None
            f = c.func
            if isinstance(f, ast.Name) and f.id in ("dict", "list") and len(c.args) == 1:
                src = c.args[0]
            elif isinstance(f, ast.Attribute) and f.attr == "copy" and not c.args:
                src = f.value
            elif isinstance(f, ast.Attribute) and f.attr == "copy" and isinstance(f.value, ast.Name) and f.value.id == "copy" and len(c.args) == 1:
                src = c.args[0]
            if src is None:
                continue
            nm = src.id if isinstance(src, ast.Name) else (src.attr if isinstance(src, ast.Attribute) else None)
            if nm in templates:
                n += 1
                bad.append((fi, c, templates[nm]))
    site = "lasio#template-copies"
    if bad:
        fi, c, t = bad[0]
        ctx.bad("EX.FRESH-DOC", site, fi, c, "`%s` in %s is a shallow copy of the template %s, whose inner containers are then shared by every "
                "call: entries written during one export are still there in the next" % (unparse(c), fi.qual, t))
    else:
        ctx.ok("EX.FRESH-DOC", site, None, 0, "no shallow copy of a shared nested template (%d templates with inner containers)" % len(templates),
               nontrivial=False)
