"""Rule group WR (C16): frame condition, refresh of STRT/STOP/STEP, determinism of write().

WR.FRAME        may-write set of writer.write / LASFile.write w.r.t. the LASFile, closed over the call graph,
                is a subset of the documented fields (with their guards and right-hand sides)
WR.STANDARDIZE  standardize_value returns its argument, 0 or "" only (so the in-place normalisation is idempotent)
WR.REFRESH      refresh is decided by `index changed (exact) OR stop differs`; refreshed values derive from
                index[0], index[-1], index[1]-index[0]; units aligned on every path before the first output
WR.DETERMINISM  no time/random/environment/identity/set-order source and no module-level or default-argument
                state is read-modified in the writer's closure
"""
import ast

from sa import AnalysisError
from sa.astutil import unparse, parents, in_block
from sa.cfg import build_cfg, EXC
from sa.dataflow import Provenance, ControlDependence
from sa.effects import get_effects, fmt_path
from sa.loader import walk_shallow, walk_expr_shallow
from sa.resolve import get_resolver

SSS = ("STRT", "STOP", "STEP")
TOLERANCE_FUNCS = {"allclose", "isclose", "round", "around", "round_", "rint", "approx", "assert_allclose",
                   "floor", "ceil", "trunc", "fix", "fabs"}
NONDETERMINISTIC = {
    ("time", None), ("datetime", None), ("random", None), ("uuid", None), ("secrets", None), ("getpass", None),
    ("platform", None), ("socket", None), ("os", "environ"), ("os", "getpid"), ("os", "getenv"), ("os", "urandom"),
    ("os", "getcwd"), ("os", "getlogin"), ("os", "times"), ("np.random", None), ("numpy.random", None),
}


def _path_key(path):
    return fmt_path(path)


def _field_pattern(path):
    """('sections', <section>, <key>, <attr...>) for paths las.sections[S][K].attr ; None otherwise"""
    fields = path[1:]
    if len(fields) >= 2 and fields[0] == ("attr", "sections") and fields[1][0] == "elem":
        sec = fields[1][1]
        rest = fields[2:]
        return sec, rest
    return None, fields


def rule_frame(ctx):
    p = ctx.p
    ea = get_effects(p)
    r = get_resolver(p)
    n = 0
    for q, root in (("writer.write", "las"), ("las.LASFile.write", "self")):
        fi = p.func(q)
        if root not in fi.params():
            raise AnalysisError("%s has no parameter %s" % (q, root))
        effs = [e for e in ea.summary(fi) if e.path[0] == ("param", root)]
        ctx.stat("frame_effects_" + q, len(effs))
        for e in sorted(effs, key=lambda e: (_path_key(e.path), e.kind)):
            n += 1
            site = "%s#%s:%s" % (q, e.kind, _path_key(e.path))
            verdict, why = _allowed(p, ea, r, e, root)
            where = "%s line %s" % (e.fi.qual, getattr(e.node, "lineno", "?"))
            if verdict:
                ctx.ok("WR.FRAME", site, e.fi, e.node, "write to %s (%s, in %s) is a documented side effect of write(): %s"
                       % (_path_key(e.path), e.kind, where, why))
            else:
                ctx.bad("WR.FRAME", site, e.fi, e.node,
                        "write() may modify %s (%s, in %s%s): not among the documented side effects "
                        "(STRT/STOP/STEP value+unit, first curve unit, WRAP item under wrap=, normalised empty "
                        "~Well/~Parameter values)%s" % (
                            _path_key(e.path), e.kind, where,
                            (" via " + " -> ".join(e.via)) if e.via else "", (": " + why) if why else ""))
        # module-level state / mutable default arguments
        for e in ea.summary(fi):
            if e.path[0][0] == "global":
                n += 1
                ctx.bad("WR.FRAME", "%s#global:%s" % (q, _path_key(e.path)), e.fi, e.node,
                        "write() modifies module-level state %s (in %s): a second write can differ from the first"
                        % (_path_key(e.path), e.fi.qual))
    ctx.floor("WR.FRAME", 10)


def _allowed(p, ea, r, e, root):
    sec, rest = _field_pattern(e.path)
    if sec is None:
        return False, "the LASFile attribute itself is rebound or a non-section attribute is written"
    # (a) WRAP replacement under wrap is True / False
    if e.kind == "replace" and sec == "Version" and rest == (("elem", "WRAP"),):
        rhs = getattr(e.node, "value", None)
        if rhs is not None:
            shared = [x for x in ea.paths_of(rhs, e.fi) if x and x[0] and x[0][0] == "global"]
            if shared and not (isinstance(rhs, ast.Call) and ast.unparse(rhs.func).split(".")[-1] in ("deepcopy", "copy")):
                return False, ("the WRAP item installed in the LASFile is the module-level object %s itself (no copy): every LASFile written "
                               "with an explicit wrap= then shares one item, and editing it in one changes the others" % fmt_path(shared[0]))
        ok = _guarded_by_wrap_constant(p, e)
        return ok, "WRAP item replaced only under `wrap is True/False`" if ok else "WRAP replacement is not confined to wrap is True/False"
    if e.kind == "store":
        # (b) STRT/STOP/STEP value and unit
        if sec == "Well" and len(rest) == 2 and rest[0][0] == "elem" and rest[0][1] in SSS and rest[1] in (
                ("attr", "value"), ("attr", "unit")):
            return True, "%s %s refreshed from the data / aligned with the index unit" % (rest[0][1], rest[1][1])
        # (c) first curve's unit
        if sec == "Curves" and rest == (("elem", 0), ("attr", "unit")):
            return True, "index-curve unit aligned"
        # (d) normalisation of values
        if sec in ("Well", "Parameter") and len(rest) == 2 and rest[0] == ("elem", "*") and rest[1] == ("attr", "value"):
            ok, why = _rhs_is_standardize(p, r, e)
            return ok, why
    return False, ""


def _guarded_by_wrap_constant(p, e):
    cfg = build_cfg(p, e.fi)
    cd = ControlDependence(cfg)
    nids = cfg.node_of_expr(e.node)
    for nid in nids:
        found = False
        for (tn, lab) in cd.transitive(nid):
            t = cfg.nodes[tn].ast
            if cfg.nodes[tn].kind != "test":
                continue
            def is_wrap_const(c_):
                return (isinstance(c_, ast.Compare) and len(c_.ops) == 1 and isinstance(c_.ops[0], (ast.Is, ast.Eq))
                        and isinstance(c_.left, ast.Name) and c_.left.id == "wrap"
                        and isinstance(c_.comparators[0], ast.Constant) and isinstance(c_.comparators[0].value, bool))
            if is_wrap_const(t) and lab.startswith("true"):
                found = True
            # `wrap is True or wrap is False` (the two cases merged into one table lookup)
            if isinstance(t, ast.BoolOp) and isinstance(t.op, ast.Or) and all(is_wrap_const(v) for v in t.values) and lab.startswith("true"):
                found = True
        if not found:
            return False
    return bool(nids)


def _rhs_is_standardize(p, r, e):
    """the stored value is standardize_value(<same item>.value, <same item>.unit)"""
    node = e.node
    if not isinstance(node, ast.Assign) or len(node.targets) != 1:
        return False, "value stored by something other than a plain assignment"
    tgt = node.targets[0]
    rhs = node.value
    if not isinstance(rhs, ast.Call):
        return False, "stored value is not the result of standardize_value(...)"
    targets, ext = r.callees(e.fi, rhs)
    if not any(t.qual == "writer.standardize_value" for t in targets):
        return False, "stored value comes from %s, not writer.standardize_value" % unparse(rhs.func)
    if not isinstance(tgt, ast.Attribute):
        return False, "unexpected store shape"
    base = ast.unparse(tgt.value)
    a0 = rhs.args[0] if rhs.args else None
    if a0 is None or ast.unparse(a0) != base + ".value":
        return False, "standardize_value is not applied to the item's own value"
    a1 = rhs.args[1] if len(rhs.args) > 1 else next((k.value for k in rhs.keywords if k.arg == "unit"), None)
    if a1 is not None and ast.unparse(a1) != base + ".unit":
        return False, "standardize_value is given %s instead of the item's own unit" % unparse(a1)
    return True, "value := standardize_value(item.value, item.unit)"


def rule_standardize(ctx):
    p = ctx.p
    fi = p.func("writer.standardize_value")
    cfg = build_cfg(p, fi)
    prov = Provenance(cfg)
    params = fi.params()
    vparam = params[0]
    bad = None
    n_ret = 0
    for node in cfg.nodes:
        if node.kind == "stmt" and isinstance(node.ast, ast.Return):
            n_ret += 1
            if node.ast.value is None:
                bad = (node.ast, "returns None")
                continue
            atoms = prov.atoms(node.ast.value, node.id)
            for a in atoms:
                if a[0] == "param" and a[1] == vparam:
                    continue
                if a[0] == "const" and (a[1] == 0 or a[1] == "") and not isinstance(a[1], bool):
                    continue
                bad = (node.ast, "return value may derive from %s" % (a,))
    # the guard that produces 0 must involve the unit and emptiness of the value
    zero_ok = False
    for sub in walk_shallow(fi.node):
        if isinstance(sub, ast.If):
            names = {n.id for n in ast.walk(sub.test) if isinstance(n, ast.Name)}
            assigns0 = any(isinstance(s, (ast.Assign, ast.Return)) and isinstance(s.value, ast.Constant) and s.value.value == 0
                           and not isinstance(s.value.value, bool) for s in sub.body)
            if assigns0 and len(params) > 1 and params[1] in names and vparam in names:
                zero_ok = True
    site = "writer.standardize_value#returns"
    if bad:
        ctx.bad("WR.STANDARDIZE", site, fi, bad[0], "standardize_value must return its argument, 0 or '' only "
                "(normalisation is then idempotent and confined to empty values): " + bad[1])
    elif not zero_ok:
        ctx.bad("WR.STANDARDIZE", site, fi, fi.node, "the replacement by 0 is not guarded by a test on both the unit "
                "and the emptiness of the value")
    else:
        ctx.ok("WR.STANDARDIZE", site, fi, fi.node, "every return value derives only from the value argument, 0 or ''; "
               "the 0 replacement is guarded by unit and empty value (%d returns)" % n_ret)
    ctx.floor("WR.STANDARDIZE", 1)


# ------------------------------------------------------------------------------------------------ REFRESH

def _index_subscripts(atoms):
    """constant indexes with which <something>.index / .index_initial is subscripted in the provenance"""
    out = set()
    for a in atoms:
        if a[0] == "subscript":
            try:
                e = ast.parse(a[1], mode="eval").body
            except SyntaxError:
                continue
            if isinstance(e, ast.Subscript) and isinstance(e.value, ast.Attribute) and e.value.attr == "index":
                s = e.slice
                if isinstance(s, ast.Constant) and isinstance(s.value, int):
                    out.add(s.value)
                elif isinstance(s, ast.UnaryOp) and isinstance(s.op, ast.USub) and isinstance(s.operand, ast.Constant):
                    out.add(-s.operand.value)
                else:
                    out.add("?")
    return out


def rule_refresh(ctx):
    p = ctx.p
    r = get_resolver(p)
    fi = p.func("writer.write")
    cfg = build_cfg(p, fi)
    prov = Provenance(cfg)
    cd = ControlDependence(cfg)
    # 1. the refresh call and its guard
    calls = []
    for sub in walk_shallow(fi.node):
        if isinstance(sub, ast.Call):
            tg, ext = r.callees(fi, sub)
            if any(t.qual == "las.LASFile.update_start_stop_step" for t in tg):
                calls.append(sub)
    if not calls:
        ctx.bad("WR.REFRESH", "writer.write#refresh-call", fi, fi.node,
                "writer.write never calls LASFile.update_start_stop_step: STRT/STOP/STEP are never refreshed")
    for call in calls:
        site = "writer.write#refresh-guard"
        nids = cfg.node_of_expr(call)
        tests = []
        for nid in nids:
            tests += [(tn, lab) for (tn, lab) in cd.direct(nid) if cfg.nodes[tn].kind == "test"]
        if len(tests) != 1:
            ctx.bad("WR.REFRESH", site, fi, call, "the refresh call should be controlled by exactly one test "
                    "(index changed OR stop differs); found %d" % len(tests))
            continue
        tn, lab = tests[0]
        test = cfg.nodes[tn].ast
        disj = _disjuncts(test) if lab.startswith("true") else None
        if disj is None:
            ctx.bad("WR.REFRESH", site, fi, test, "the refresh guard `%s` is not a disjunction taken on its true branch"
                    % unparse(test))
            continue
        kinds = {}
        for d in disj:
            atoms = prov.atoms(d, tn)
            names = {a[1] for a in atoms if a[0] == "callname"}
            attrs = {a[1] for a in atoms if a[0] == "attrname"}
            tol = names & TOLERANCE_FUNCS
            if tol:
                kinds.setdefault("tolerant", []).append((d, sorted(tol)))
            if ("array_equal" in names or "array_equiv" in names) and "index_initial" in attrs and "index" in attrs:
                consts = {a[1] for a in atoms if a[0] == "const"}
                kinds.setdefault("changed", []).append((d, True in consts))
            subs = _index_initial_subscripts(atoms)
            if "index_initial" in attrs and ("STOP" in attrs or ("const", "STOP") in atoms) and subs:
                ops = {a[1] for a in atoms if a[0] == "op"}
                kinds.setdefault("stop", []).append((d, subs, ops))
        if "tolerant" in kinds:
            d, tol = kinds["tolerant"][0]
            ctx.bad("WR.REFRESH", site, fi, test, "the decision whether the index was edited uses a tolerance "
                    "(%s): small edits of the index are written with stale STRT/STOP/STEP" % ", ".join(tol))
            continue
        msgs = []
        if "changed" not in kinds:
            msgs.append("no disjunct derives from an exact comparison np.array_equal(index_initial, index)")
        elif not any(hasTrue for d, hasTrue in kinds["changed"]):
            msgs.append("index_changed is not forced to True when there is no initial index")
        if "stop" not in kinds:
            msgs.append("no disjunct compares the last initial index value with the STOP item")
        else:
            d, subs, ops = kinds["stop"][0]
            if subs != {-1}:
                msgs.append("the STOP comparison uses index_initial%s instead of the last sample [-1]" % sorted(subs, key=str))
            if "NotEq" not in ops:
                msgs.append("the STOP comparison is not an inequality test")
        # index_changed = not array_equal(...)   (polarity)
        if "changed" in kinds:
            d = kinds["changed"][0][0]
            if not _negated_array_equal(prov, cfg, d, tn):
                msgs.append("index_changed is not the negation of array_equal(index_initial, index)")
        # the two flags are computed, never defaulted in an exception handler, and without number conversions that can fail
        for d in disj:
            if isinstance(d, ast.Name):
                for s_ in walk_shallow(fi.node):
                    if isinstance(s_, ast.Assign) and any(isinstance(t, ast.Name) and t.id == d.id for t in s_.targets):
                        par = getattr(s_, "_parent", None)
                        if isinstance(par, ast.ExceptHandler):
                            msgs.append("`%s` is a fallback inside an exception handler: when the comparison cannot be made (e.g. a "
                                        "non-numeric STOP) the header is written without being refreshed" % unparse(s_))
                        for c in ast.walk(s_.value):
                            if isinstance(c, ast.Call) and isinstance(c.func, ast.Name) and c.func.id in ("float", "int", "round", "str"):
                                msgs.append("`%s` converts an operand of the comparison with %s(): the decision differs from the plain "
                                            "`!=` for non-numeric or differently typed STOP values" % (unparse(s_), c.func.id))
        if msgs:
            ctx.bad("WR.REFRESH", site, fi, test, "refresh guard `%s`: %s" % (unparse(test), "; ".join(msgs)))
        else:
            ctx.ok("WR.REFRESH", site, fi, test, "refresh is taken when `not array_equal(index_initial, index)` "
                   "(True without an initial index) OR `index_initial[-1] != STOP`; no tolerance on that path")
    # 1b. in writer.write itself STRT/STOP/STEP values are set through the refresh call only (the normalisation loop of
    #     standardize_value aside): a second, partial way of setting them (e.g. "honour STOP= when no refresh is due") leaves a
    #     header that disagrees with the data and makes the *next* write refresh everything
    for s_ in walk_shallow(fi.node):
        if isinstance(s_, ast.Assign) and len(s_.targets) == 1:
            key = _well_item_store(s_.targets[0], "value")
            if key in ("STRT", "STOP", "STEP"):
                ctx.bad("WR.REFRESH", "writer.write#direct-store(%s)" % key, fi, s_, "`%s` sets the %s value directly in writer.write, outside "
                        "update_start_stop_step: STRT/STOP/STEP are no longer refreshed together, so a later write sees a STOP that "
                        "disagrees with the data and rewrites all three" % (unparse(s_)[:70], key))
    # 2. what the refresh stores
    uf = p.func("las.LASFile.update_start_stop_step")
    ucfg = build_cfg(p, uf)
    uprov = Provenance(ucfg)
    expected = {"STRT": {0}, "STOP": {-1}, "STEP": {0, 1}}
    seen = set()
    for node in ucfg.nodes:
        a = node.ast
        if node.kind != "stmt" or not isinstance(a, ast.Assign) or len(a.targets) != 1:
            continue
        t = a.targets[0]
        key = _well_item_store(t, "value")
        if key not in expected:
            continue
        seen.add(key)
        atoms = uprov.atoms(a.value, node.id)
        subs = _index_subscripts(atoms)
        ops = {x[1] for x in atoms if x[0] == "op"}
        params = {x[1] for x in atoms if x[0] == "param"}
        site = "las.LASFile.update_start_stop_step#%s" % key
        problems = []
        if subs != expected[key]:
            problems.append("derives from index%s, expected index%s" % (sorted(subs, key=str), sorted(expected[key])))
        if key == "STEP" and ("Sub" not in ops or ops & {"Div", "FloorDiv", "Mult"}):
            problems.append("STEP is not the plain first increment index[1] - index[0] (ops: %s)" % sorted(ops))
        if key != "STEP" and ops & {"Sub", "Add", "Div", "Mult"}:
            problems.append("arithmetic (%s) applied to the %s sample" % (sorted(ops & {"Sub", "Add", "Div", "Mult"}), key))
        if key not in params:
            problems.append("the caller's explicit %s= argument does not reach the stored value" % key)
        names = {x[1] for x in atoms if x[0] == "callname"}
        if names & (TOLERANCE_FUNCS | {"mean", "median", "diff", "min", "max", "sorted", "sort", "abs"}):
            problems.append("passes through %s" % sorted(names & (TOLERANCE_FUNCS | {"mean", "median", "diff", "min", "max", "sorted", "sort", "abs"})))
        if problems:
            ctx.bad("WR.REFRESH", site, uf, a, "%s value: %s" % (key, "; ".join(problems)))
        else:
            ctx.ok("WR.REFRESH", site, uf, a, "%s := explicit argument or fmt %% index%s" % (
                key, "[1]-index[0]" if key == "STEP" else "[%d]" % list(expected[key])[0]))
    for key in expected:
        if key not in seen:
            ctx.bad("WR.REFRESH", "las.LASFile.update_start_stop_step#%s" % key, uf, uf.node,
                    "update_start_stop_step never stores well[%r].value" % key)
    # 2b. a one-sample index: index[1] does not exist.  The read of index[1] must not be able to happen before STRT and STOP were
    #     derived (its IndexError is swallowed by the surrounding handler and would skip them): it is either evaluated after them
    #     or under the single-sample test on the STRT/STOP values
    ucd = ControlDependence(ucfg)
    one_reads = []
    for node in ucfg.nodes:
        if node.ast is None or node.kind not in ("stmt", "test"):
            continue
        for x in walk_expr_shallow(node.ast):
            if isinstance(x, ast.Subscript) and isinstance(x.ctx, ast.Load) and isinstance(x.slice, ast.Constant) and x.slice.value == 1 \
                    and "index" in ast.unparse(x.value):
                one_reads.append((node.id, x))
    # the statements that give STRT / STOP their derived value: assignments to a variable named after them (STRT, values__STOP ..)
    derive = [n_.id for n_ in ucfg.nodes if n_.kind == "stmt" and isinstance(n_.ast, ast.Assign) and any(
        isinstance(t_, ast.Name) and ("STRT" in t_.id or "STOP" in t_.id) for t_ in n_.ast.targets)]
    for nid, x in one_reads:
        guarded = any(ucfg.nodes[tn].kind == "test" and isinstance(c_, ast.Compare) and isinstance(c_.ops[0], (ast.NotEq, ast.Eq))
                      and {"STRT", "STOP"} <= {w for n2 in ast.walk(c_) if isinstance(n2, ast.Name) for w in ("STRT", "STOP") if w in n2.id}
                      for (tn, lab) in ucd.transitive(nid) for c_ in ast.walk(ucfg.nodes[tn].ast))
        later = [d for d in derive if d != nid and ucfg.find_path(nid, [d], skip_labels=EXC)]
        ctx.check(guarded or not later, "WR.REFRESH", "las.LASFile.update_start_stop_step#single-sample", uf, x,
                  "index[1] is read only after STRT and STOP were derived, or under the single-sample test",
                  "`%s` is evaluated before STRT/STOP are derived and outside the `STOP != STRT` test: for a one-sample index it raises "
                  "IndexError, the handler swallows it, and STRT/STOP are written as they were (0 for a new file) instead of the index "
                  "value" % unparse(x))
    # 3. unit alignment on every path before the first output
    ucalls = []
    for sub in walk_shallow(fi.node):
        if isinstance(sub, ast.Call):
            tg, ext = r.callees(fi, sub)
            if any(t.qual == "las.LASFile.update_units_from_index_curve" for t in tg):
                ucalls += cfg.node_of_expr(sub)
    outs = []
    fo = fi.params()[1] if len(fi.params()) > 1 else "file_object"
    for node in cfg.nodes:
        if node.ast is not None and node.kind in ("stmt", "test"):
            for sub in walk_expr_shallow(node.ast):
                if (isinstance(sub, ast.Call) and isinstance(sub.func, ast.Attribute) and sub.func.attr in ("write", "writelines")
                        and isinstance(sub.func.value, ast.Name) and sub.func.value.id == fo):
                    outs.append(node.id)
    site = "writer.write#unit-alignment"
    if not ucalls:
        ctx.bad("WR.REFRESH", site, fi, fi.node, "writer.write never calls update_units_from_index_curve")
    elif not outs:
        raise AnalysisError("no %s.write(...) found in writer.write" % fo)
    else:
        pth = cfg.find_path(cfg.entry, outs, avoid=ucalls, skip_labels=EXC)
        if pth:
            ctx.bad("WR.REFRESH", site, fi, cfg.nodes[pth[-1]].ast, "output can be written on a path that skips the "
                    "alignment of STRT/STOP/STEP units with the index curve", cfg.describe_path(pth))
        else:
            ctx.ok("WR.REFRESH", site, fi, fi.node, "update_units_from_index_curve is called on every path before the "
                   "first %s.write()" % fo)
    # 3a'. no header section is laid out before the alignment either: text that is formatted early and written later carries the
    # units (and STRT/STOP/STEP) the object had before the refresh
    if ucalls:
        lasp = fi.params()[0]

        def section_expr(e):
            return isinstance(e, ast.Attribute) and isinstance(e.value, ast.Name) and e.value.id == lasp and e.attr in ("curves", "well", "params")
        early = None
        for node in cfg.nodes:
            if node.ast is None or node.kind not in ("stmt", "test", "for-iter"):
                continue
            uses = False
            for sub in walk_expr_shallow(node.ast):
                if isinstance(sub, ast.Call) and any(section_expr(a_) for a_ in list(sub.args) + [k.value for k in sub.keywords]):
                    uses = True
                if isinstance(sub, ast.comprehension) and section_expr(sub.iter):
                    uses = True
            if isinstance(node.ast, ast.For) and section_expr(node.ast.iter):
                uses = True
            if uses and node.id not in ucalls and cfg.find_path(cfg.entry, [node.id], avoid=ucalls, skip_labels=EXC):
                early = node
                break
        ctx.check(early is None, "WR.REFRESH", "writer.write#layout-after-alignment", fi, early.ast if early is not None else fi.node,
                  "no ~Well/~Curves/~Parameter section is iterated or handed to a formatter before the unit alignment",
                  "`%s` lays out a header section on a path that has not yet aligned the units of STRT/STOP/STEP and the index curve: the "
                  "text written now differs from what a second write of the same object produces" % (unparse(early.ast) if early is not None else ""))
    # 3b the refresh call precedes the first output too
    if calls and outs:
        rn = []
        for c in calls:
            rn += cfg.node_of_expr(c)
        for o in outs:
            if cfg.find_path(o, rn, skip_labels=EXC):
                ctx.bad("WR.REFRESH", "writer.write#refresh-before-output", fi, calls[0],
                        "STRT/STOP/STEP are refreshed after header text has already been written")
                break
        else:
            ctx.ok("WR.REFRESH", "writer.write#refresh-before-output", fi, calls[0],
                   "the refresh call cannot follow an output statement")
    # 4. unit alignment stores
    af = p.func("las.LASFile.update_units_from_index_curve")
    stores = {}
    for sub in walk_shallow(af.node):
        if isinstance(sub, ast.Assign) and len(sub.targets) == 1:
            k = _well_item_store(sub.targets[0], "unit")
            if k:
                stores[k] = ast.unparse(sub.value)
            t = sub.targets[0]
            if (isinstance(t, ast.Attribute) and t.attr == "unit" and isinstance(t.value, ast.Subscript)
                    and isinstance(t.value.slice, ast.Constant) and t.value.slice.value == 0
                    and ast.unparse(t.value.value).endswith("curves")):
                stores["curve0"] = ast.unparse(sub.value)
            # `ic = self.curves[0]` (or None when there is no curve) ... `ic.unit = unit`
            if isinstance(t, ast.Attribute) and t.attr == "unit" and isinstance(t.value, ast.Name):
                dfs = [a_.value for a_ in walk_shallow(af.node) if isinstance(a_, ast.Assign) and any(
                    isinstance(t_, ast.Name) and t_.id == t.value.id for t_ in a_.targets)]
                real = [d for d in dfs if not (isinstance(d, ast.Constant) and d.value is None)]
                if real and all(isinstance(d, ast.Subscript) and isinstance(d.slice, ast.Constant) and d.slice.value == 0
                                and ast.unparse(d.value).endswith("curves") for d in real):
                    stores["curve0"] = ast.unparse(sub.value)
    site = "las.LASFile.update_units_from_index_curve#stores"
    vals = set(stores.values())
    # "the same value": the common variable is not re-bound between the first and the last of the four stores
    if len(vals) == 1 and list(vals)[0].isidentifier():
        from sa.astutil import ordn
        vname = list(vals)[0]
        st_nodes = [sub for sub in walk_shallow(af.node) if isinstance(sub, ast.Assign) and len(sub.targets) == 1 and (
            _well_item_store(sub.targets[0], "unit") or (isinstance(sub.targets[0], ast.Attribute) and sub.targets[0].attr == "unit"))
            and ast.unparse(sub.value) == vname]
        if st_nodes:
            lo, hi = min(ordn(x) for x in st_nodes), max(ordn(x) for x in st_nodes)
            rebound = [a_ for a_ in walk_shallow(af.node) if isinstance(a_, ast.Assign) and any(isinstance(t, ast.Name) and t.id == vname for t in a_.targets)
                       and lo < ordn(a_) < hi]
            if rebound:
                ctx.bad("WR.REFRESH", site, af, rebound[0], "`%s` is re-bound (`%s`) between the unit stores: STRT, STOP, STEP and the index curve "
                        "do not necessarily receive one common unit in a single call, so the units keep changing over several write cycles"
                        % (vname, unparse(rebound[0])))
                ctx.floor("WR.REFRESH", 1)
                return
    if set(stores) >= {"STRT", "STOP", "STEP", "curve0"} and len(vals) == 1:
        ctx.ok("WR.REFRESH", site, af, af.node, "STRT/STOP/STEP and first-curve units are all set to the same value `%s`" % vals.pop())
    else:
        ctx.bad("WR.REFRESH", site, af, af.node, "unit alignment must store one common unit into STRT, STOP, STEP and "
                "curves[0]; found %s" % stores)
    # 5. every path through update_units_from_index_curve stores all three ~Well units
    acfg = build_cfg(p, af)
    for key in ("STRT", "STOP", "STEP"):
        nodes = [n.id for n in acfg.nodes if n.kind == "stmt" and isinstance(n.ast, ast.Assign) and _well_item_store(n.ast.targets[0], "unit") == key]
        if nodes:
            pth = acfg.find_path(acfg.entry, [acfg.exit], avoid=nodes, skip_labels=EXC)
            ctx.check(pth is None, "WR.REFRESH", "las.LASFile.update_units_from_index_curve#%s-always" % key, af, acfg.nodes[nodes[0]].ast,
                      "the %s unit is aligned on every path" % key,
                      "update_units_from_index_curve can return without aligning the %s unit (e.g. an early return when STRT "
                      "already agrees): STOP/STEP keep a different or empty unit in the written file" % key,
                      acfg.describe_path(pth) if pth else None)
    # 5b. an index curve that has no unit of its own receives the common unit: in the world "curves declared, curves[0].unit
    # empty" every test the curve-unit store depends on must let it through (the store matters exactly there)
    from sa.consts import fold as _fold5, NotConst as _NC5
    acd = ControlDependence(acfg)
    adefs = {}
    for a_ in walk_shallow(af.node):
        if isinstance(a_, ast.Assign) and len(a_.targets) == 1 and isinstance(a_.targets[0], ast.Name):
            adefs.setdefault(a_.targets[0].id, []).append(a_.value)

    def _is_curves(e):
        return isinstance(e, ast.Attribute) and e.attr == "curves"

    def _is_curve0(e, depth=0):
        if isinstance(e, ast.Subscript) and _is_curves(e.value) and isinstance(e.slice, ast.Constant) and e.slice.value == 0:
            return True
        if isinstance(e, ast.Name) and depth < 3 and e.id in adefs:
            real = [d for d in adefs[e.id] if not (isinstance(d, ast.Constant) and d.value is None)]
            return bool(real) and all(_is_curve0(d, depth + 1) for d in real)
        return False

    def _is_curve_unit(e, depth=0):
        if isinstance(e, ast.Attribute) and e.attr == "unit" and _is_curve0(e.value):
            return True
        if isinstance(e, ast.Name) and depth < 3 and e.id in adefs:
            real = [d for d in adefs[e.id] if not (isinstance(d, ast.Constant) and not d.value)]
            return bool(real) and all(_is_curve_unit(d, depth + 1) for d in real)
        return False

    class _World(ast.NodeTransformer):
        def visit(self, node):
            if isinstance(node, ast.expr):
                if _is_curve_unit(node):
                    return ast.copy_location(ast.Constant(value=""), node)
                if _is_curve0(node):
                    return ast.copy_location(ast.Constant(value=1), node)
                if _is_curves(node):
                    return ast.copy_location(ast.Constant(value=(1,)), node)
            return self.generic_visit(node)
    c0_nodes = [n for n in acfg.nodes if n.kind == "stmt" and isinstance(n.ast, ast.Assign) and len(n.ast.targets) == 1
                and isinstance(n.ast.targets[0], ast.Attribute) and n.ast.targets[0].attr == "unit" and _is_curve0(n.ast.targets[0].value)]
    for n in c0_nodes:
        import copy as _copy
        site5 = "las.LASFile.update_units_from_index_curve#curve-without-unit"
        blocked, unknown = None, None
        for (tn, lab) in acd.transitive(n.id):
            if acfg.nodes[tn].kind != "test":
                continue
            t = _World().visit(_copy.deepcopy(acfg.nodes[tn].ast))
            try:
                v = bool(_fold5(ast.fix_missing_locations(t)))
            except _NC5:
                unknown = acfg.nodes[tn].ast
                continue
            except Exception:  # noqa - not foldable
                unknown = acfg.nodes[tn].ast
                continue
            if v != lab.startswith("true"):
                blocked = acfg.nodes[tn].ast
        if blocked is not None:
            ctx.bad("WR.REFRESH", site5, af, n.ast, "the store `%s` is not reached for an index curve whose unit is empty (test `%s`): the "
                    "curve keeps no unit while STRT/STOP/STEP carry the header's unit, and the next read-write cycle changes the file"
                    % (unparse(n.ast), unparse(blocked)))
        elif unknown is not None:
            ctx.undecided("WR.REFRESH", site5, af, n.ast, "the test `%s` on the way to the curve-unit store could not be evaluated" % unparse(unknown))
        else:
            ctx.ok("WR.REFRESH", site5, af, n.ast, "an index curve with an empty unit receives the common unit (all guarding tests let it through)")
    # 6. the STEP computation is not suppressed for a two-sample index
    ucd = ControlDependence(ucfg)
    for node in ucfg.nodes:
        a = node.ast
        if node.kind == "stmt" and isinstance(a, ast.Assign) and any(isinstance(t, ast.Name) and t.id == "STEP" for t in a.targets):
            for (tn, lab) in ucd.transitive(node.id):
                t = ucfg.nodes[tn].ast
                if ucfg.nodes[tn].kind != "test":
                    continue
                lens = [c for c in ast.walk(t) if isinstance(c, ast.Call) and isinstance(c.func, ast.Name) and c.func.id == "len"]
                if not lens:
                    continue
                from sa.consts import fold as _fold, NotConst as _NC
                try:
                    class _T(ast.NodeTransformer):
                        def visit_Call(self, nd):
                            if isinstance(nd.func, ast.Name) and nd.func.id == "len":
                                return ast.Constant(value=2)
                            return self.generic_visit(nd)
                    import copy as _copy
                    v = bool(_fold(_T().visit(_copy.deepcopy(t))))
                except _NC:
                    continue
                ok = (v == lab.startswith("true"))
                ctx.check(ok, "WR.REFRESH", "las.LASFile.update_start_stop_step#STEP-two-samples", uf, t,
                          "an index of two samples still gets its STEP",
                          "the STEP refresh is guarded by `%s`, false for an index of exactly two samples: STEP is left empty and "
                          "written as 0 instead of the first increment" % unparse(t))
    ctx.floor("WR.REFRESH", 6)


def _disjuncts(test):
    if isinstance(test, ast.BoolOp) and isinstance(test.op, ast.Or):
        return list(test.values)
    if isinstance(test, ast.BoolOp):
        return None
    return [test]


def _index_initial_subscripts(atoms):
    out = set()
    for a in atoms:
        if a[0] == "subscript":
            try:
                e = ast.parse(a[1], mode="eval").body
            except SyntaxError:
                continue
            if isinstance(e, ast.Subscript) and isinstance(e.value, ast.Attribute) and e.value.attr == "index_initial":
                s = e.slice
                if isinstance(s, ast.Constant):
                    out.add(s.value)
                elif isinstance(s, ast.UnaryOp) and isinstance(s.op, ast.USub) and isinstance(s.operand, ast.Constant):
                    out.add(-s.operand.value)
                else:
                    out.add("?")
    return out


def _negated_array_equal(prov, cfg, d, at):
    """does the disjunct (a Name or expression) evaluate to `not array_equal(...)`?"""
    exprs = [d]
    if isinstance(d, ast.Name):
        exprs = []
        for dn in prov.defs_of(d.id, at):
            a = cfg.nodes[dn].ast
            if isinstance(a, ast.Assign):
                exprs.append(a.value)
    ok_any = False
    for e in exprs:
        if isinstance(e, ast.Constant):
            continue
        if isinstance(e, ast.UnaryOp) and isinstance(e.op, ast.Not) and isinstance(e.operand, ast.Call):
            f = e.operand.func
            nm = f.attr if isinstance(f, ast.Attribute) else getattr(f, "id", "")
            if nm in ("array_equal", "array_equiv"):
                ok_any = True
                continue
        return False
    return ok_any


def _well_item_store(t, attr):
    """key K if target is <x>.well[K].<attr> / <x>.well.K.<attr>, else None"""
    if isinstance(t, ast.Attribute) and t.attr == attr:
        b = t.value
        if isinstance(b, ast.Subscript) and isinstance(b.slice, ast.Constant) and ast.unparse(b.value).endswith("well"):
            return b.slice.value
        if isinstance(b, ast.Attribute) and ast.unparse(b.value).endswith("well"):
            return b.attr
    return None


# ------------------------------------------------------------------------------------------------ DETERMINISM

def rule_determinism(ctx):
    p = ctx.p
    r = get_resolver(p)
    ea = get_effects(p)
    roots = [p.func("writer.write")]
    clos = r.closure(roots)
    n = 0
    for q, fi in sorted(clos.items()):
        if fi.cls is not None and fi.cls.name in ("SectionItems", "HeaderItem", "CurveItem"):
            continue   # contract-modelled containers (their own rules: C13/C15)
        n += 1
        probs = []
        node = fi.node
        it = ast.walk(node.body) if isinstance(node, ast.Lambda) else walk_shallow(node)
        for sub in it:
            if isinstance(sub, ast.Call):
                f = sub.func
                text = ast.unparse(f)
                head = text.split(".")[0]
                imp = fi.module.imports.get(head)
                modname = imp[1] if imp and imp[0] == "module" else (imp[1] if imp else None)
                for (m, attr) in NONDETERMINISTIC:
                    if modname == m or text.startswith(m + "."):
                        if attr is None or text.endswith("." + attr) or ("." + attr + ".") in text:
                            probs.append((sub, "calls %s" % text))
                if isinstance(f, ast.Name) and f.id in ("id", "hash", "input", "vars", "globals", "locals"):
                    probs.append((sub, "uses %s(), which is not stable between runs" % f.id))
            elif isinstance(sub, (ast.For, ast.comprehension)):
                itx = sub.iter
                if isinstance(itx, (ast.Set, ast.SetComp)) or (
                        isinstance(itx, ast.Call) and isinstance(itx.func, ast.Name) and itx.func.id in ("set", "frozenset")):
                    probs.append((sub.iter, "iterates over a set (%s): the order of the output depends on hashing"
                                  % unparse(itx)))
            elif isinstance(sub, ast.Attribute) and ast.unparse(sub) in ("os.environ", "sys.argv"):
                probs.append((sub, "reads %s" % ast.unparse(sub)))
        # mutable default arguments that are mutated
        if not isinstance(node, ast.Lambda):
            args = node.args
            defaults = list(zip([a.arg for a in args.args][len(args.args) - len(args.defaults):], args.defaults))
            defaults += [(a.arg, d) for a, d in zip(args.kwonlyargs, args.kw_defaults) if d is not None]
            mut = {nm for nm, d in defaults if isinstance(d, (ast.Dict, ast.List, ast.Set)) or (
                isinstance(d, ast.Call) and isinstance(d.func, ast.Name) and d.func.id in ("dict", "list", "set"))}
            for e in ea.summary(fi):
                if e.path[0][0] == "param" and e.path[0][1] in mut and e.fi is fi:
                    probs.append((e.node, "mutates its mutable default argument %s: state leaks into the next write"
                                  % e.path[0][1]))
        site = "%s#determinism" % q
        if probs:
            for nd, msg in probs:
                ctx.bad("WR.DETERMINISM", site, fi, nd, "%s %s" % (q, msg))
        else:
            ctx.ok("WR.DETERMINISM", site, fi, fi.node, "no clock/random/environment/identity/set-order source and no "
                   "mutated default argument")
    ctx.stat("determinism_closure", n)
    ctx.floor("WR.DETERMINISM", 8)


def rule_snapshot(ctx):
    """WR.SNAPSHOT: index_initial, the reference against which write() detects edits of the index, is an independent copy"""
    p = ctx.p
    ea = get_effects(p)
    n = 0
    for q, fi in sorted(p.functions.items()):
        if fi.module.name != "las" or isinstance(fi.node, ast.Lambda):
            continue
        for sub in walk_shallow(fi.node):
            if isinstance(sub, ast.Assign) and any(isinstance(t, ast.Attribute) and t.attr == "index_initial" for t in sub.targets):
                if isinstance(sub.value, ast.Constant) and sub.value.value is None:
                    continue
                n += 1
                paths = ea.paths_of(sub.value, fi)
                shared = [x for x in paths if x[0][0] != "fresh"]
                ctx.check(not shared, "WR.SNAPSHOT", "%s#index_initial" % q, fi, sub,
                          "index_initial is a copy of the index array (`%s`)" % unparse(sub.value),
                          "index_initial is `%s`, an alias of the live index array (%s): in-place edits of the index change the "
                          "snapshot too, so write() sees no change and writes stale STRT/STOP/STEP" % (
                              unparse(sub.value), ", ".join(fmt_path(x) for x in shared)))
    if n == 0:
        fi = p.func("las.LASFile.read")
        ctx.bad("WR.SNAPSHOT", "las.LASFile.read#index_initial", fi, fi.node, "read() no longer records index_initial")
    ctx.floor("WR.SNAPSHOT", 1)


def rule_frame_replace(ctx):
    """WR.FRAME (replace clause): write(wrap=...) and write(version=...) replace one item of a section through
    SectionItems.set_item / __setitem__.  That replacement may re-number only the group of the replaced name: a whole-section
    renumbering (assign_duplicate_suffixes() without argument) renames other items that carry stale ':n' suffixes, which is not
    among the documented side effects of write()."""
    p = ctx.p
    fi = p.func("las_items.SectionItems.set_item")
    newp = fi.params()[-1]
    calls = [c for c in walk_shallow(fi.node) if isinstance(c, ast.Call) and isinstance(c.func, ast.Attribute)
             and c.func.attr == "assign_duplicate_suffixes"]
    site = fi.qual + "#renumber-scope"
    if not calls:
        ctx.undecided("WR.FRAME", site, fi, fi.node, "set_item does not call assign_duplicate_suffixes directly")
        return
    for c in calls:
        ok = len(c.args) == 1 and not c.keywords and ast.unparse(c.args[0]) == newp + ".useful_mnemonic"
        ctx.check(ok, "WR.FRAME", site, fi, c, "replacing an item renumbers only the group of the new item's name",
                  "set_item renumbers with `%s`: replacing the WRAP/VERS item in write() then renames every other item whose ':n' suffix "
                  "is not what a fresh numbering would give (e.g. SRC:2, SRC:3 become SRC:1, SRC:2 in memory)" % unparse(c))


def rule_refresh_precision(ctx):
    """WR.REFRESH (precision): the STRT/STOP/STEP values that a refresh derives are formatted by update_start_stop_step's own
    default format; the data format of write() (`fmt`, `column_fmt`) is for the ~ASCII section.  Handing it on rounds the header
    values to the precision chosen for the data while the index column may be written finer (column_fmt={0: ...})."""
    p = ctx.p
    r = get_resolver(p)
    n = 0
    for fi in write_family_funcs(p):
        params = set(fi.params())
        for c in walk_shallow(fi.node):
            if isinstance(c, ast.Call) and any(t.qual == "las.LASFile.update_start_stop_step" for t in r.callees(fi, c)[0]):
                n += 1
                leaked = sorted({x.id for a in list(c.args) + [k.value for k in c.keywords] for x in ast.walk(a)
                                 if isinstance(x, ast.Name) and x.id in params and "fmt" in x.id})
                ctx.check(not leaked, "WR.REFRESH", "%s#refresh-format" % fi.qual, fi, c,
                          "the refresh formats STRT/STOP/STEP with its own default format",
                          "`%s` hands the data format %s to the refresh: the derived STRT/STOP/STEP are rounded like the data (STEP 0.12 for "
                          "a 0.125 step with fmt='%%.2f') while the index column can be written with a finer column format" % (unparse(c), leaked))
    if n == 0:
        ctx.undecided("WR.REFRESH", "writer.write#refresh-format", None, 0, "no call of update_start_stop_step in the write family")


def write_family_funcs(p):
    from rules.common import write_family
    return list(write_family(p))
