"""Rule group IO (property C20, and to_csv for C18): every file handle lasio opens is released on
every control-flow path, caller-supplied handles are never closed, owned handles never escape.

IO.TYPESTATE     all-paths typestate of each acquired handle (open -> closed | transferred)
IO.CALLER-OWNED  close() on a caller-supplied handle is unreachable in write()/to_csv()/writer.write()
IO.NO-ESCAPE     an owned handle is never stored into an attribute, global or container
"""
import ast

from sa.astutil import ordn
from collections import deque

from sa.cfg import build_cfg
from sa.dataflow import ReachingDefs, Provenance, target_names
from sa.loader import walk_shallow, walk_expr_shallow

OPEN_FUNCS = {("builtin", "open"), ("io", "open"), ("codecs", "open")}


def _is_direct_open(mod, call):
    f = call.func
    if isinstance(f, ast.Name) and f.id == "open":
        # a module-level def called open (lasio/examples.py) shadows the builtin
        return "open" not in mod.functions and "open" not in mod.imports
    if isinstance(f, ast.Attribute) and f.attr == "open" and isinstance(f.value, ast.Name):
        imp = mod.imports.get(f.value.id)
        if imp:
            return bool(imp[0] == "module" and imp[1] in ("io", "codecs", "builtins"))
        # `<object>.open(...)`: the open method of a path-like object (pathlib.Path.open) returns a new handle
        return f.value.id not in ("self", "cls", "webbrowser", "os") and f.value.id not in mod.functions
    if isinstance(f, ast.Attribute) and f.attr == "open" and isinstance(f.value, (ast.Call, ast.Attribute, ast.Subscript)):
        return not ast.unparse(f.value).startswith(("os.", "webbrowser."))      # `Path(x).open()`, `ref.absolute().open(mode)`
    return False


def _resolve_lasio_callee(p, fi, call):
    """resolve a call to a lasio module-level function (enough for handle-returning helpers)"""
    f = call.func
    mod = fi.module
    if isinstance(f, ast.Name):
        if f.id in mod.functions:
            return mod.functions[f.id]
        imp = mod.imports.get(f.id)
        if imp and imp[0] == "name" and imp[1].startswith("lasio."):
            m = p.modules.get(imp[1].split(".", 1)[1])
            if m and imp[2] in m.functions:
                return m.functions[imp[2]]
    elif isinstance(f, ast.Attribute) and isinstance(f.value, ast.Name):
        imp = mod.imports.get(f.value.id)
        if imp and imp[0] == "module" and imp[1].startswith("lasio."):
            m = p.modules.get(imp[1].split(".", 1)[1])
            if m and f.attr in m.functions:
                return m.functions[f.attr]
    return None


def returns_owned(p):
    """fixpoint: lasio functions that may return a handle they (transitively) opened ->
    index of the returned tuple element carrying it (None = the value itself)"""
    def build():
        summ = {}
        changed = True
        rounds = 0
        while changed and rounds < 10:
            changed = False
            rounds += 1
            for fi in p.all_functions():
                if isinstance(fi.node, ast.Lambda) or fi.qual in summ:
                    continue
                # names bound to an acquired handle anywhere in the function (flow-insensitive may-set)
                hvars = set()
                direct = set()
                direct_idx = {}
                for sub in walk_shallow(fi.node):
                    if not isinstance(sub, ast.Call):
                        continue
                    idx = "no"
                    if _is_direct_open(fi.module, sub):
                        idx = None
                    else:
                        callee = _resolve_lasio_callee(p, fi, sub)
                        if callee is not None and callee.qual in summ:
                            idx = summ[callee.qual]
                    if idx == "no":
                        continue
                    direct.add(id(sub))
                    direct_idx[id(sub)] = idx
                    par = getattr(sub, "_parent", None)
                    v = _handle_var_of(par, sub, idx)
                    if v:
                        hvars.add(v)
                if not direct:
                    continue
                for sub in walk_shallow(fi.node):
                    if not isinstance(sub, ast.Return) or sub.value is None:
                        continue
                    val = sub.value
                    elts = val.elts if isinstance(val, ast.Tuple) else [val]
                    for i, e in enumerate(elts):
                        if (isinstance(e, ast.Name) and e.id in hvars) or id(e) in direct:
                            if not isinstance(val, ast.Tuple) and direct_idx.get(id(e)) is not None:
                                # `return helper(...)` where the helper returns (handle, ...): the tuple is passed on as it is
                                summ[fi.qual] = direct_idx[id(e)]
                            else:
                                summ[fi.qual] = i if isinstance(val, ast.Tuple) else None
                            changed = True
        return summ
    return p.cached("io.returns_owned", build)


def _calls_at_line(fi, lineno):
    return [n for n in walk_shallow(fi.node) if isinstance(n, ast.Call) and n.lineno == lineno]


def acquire_sites(p, fi):
    """[(call node, kind, with_stmt or None, handle var name or None)]"""
    out = []
    summ = returns_owned(p)
    parents_with = {}
    for n in walk_shallow(fi.node):
        if isinstance(n, (ast.With, ast.AsyncWith)):
            for it in n.items:
                parents_with[id(it.context_expr)] = n
    for n in walk_shallow(fi.node):
        if not isinstance(n, ast.Call):
            continue
        kind = None
        idx = None
        if _is_direct_open(fi.module, n):
            kind = "open"
        else:
            callee = _resolve_lasio_callee(p, fi, n)
            if callee is not None and callee.qual in summ:
                kind = "owned-from:" + callee.qual
                idx = summ[callee.qual]
        if kind is None:
            continue
        ws = parents_with.get(id(n))
        par = getattr(n, "_parent", None)
        if ws is None and isinstance(par, ast.Call) and isinstance(par.func, ast.Attribute) and par.func.attr == "enter_context" \
                and isinstance(par.func.value, ast.Name) and par.func.value.id in _exitstack_names(par) and par.args and par.args[0] is n:
            # stack.enter_context(open(...)): released when the enclosing ExitStack block is left
            cur = getattr(par, "_parent", None)
            while cur is not None and not isinstance(cur, (ast.With, ast.AsyncWith)):
                cur = getattr(cur, "_parent", None)
            ws = cur
        out.append((n, kind, ws, idx))
    return out


def _self_attr(e):
    return e.attr if isinstance(e, ast.Attribute) and isinstance(e.value, ast.Name) and e.value.id == "self" else None


def managed_by_class(p, fi, call, idx):
    """An acquire inside __init__/__enter__ of a class that defines __enter__ and __exit__ (a context manager of lasio's
    own): returns None when fi is not such a method, else (ok, text, resource attribute).

    Obligations: the handle goes to exactly one attribute self.A; __exit__ calls self.A.close(); when self.A can also hold an
    object that was not opened here (the caller's), the close is guarded by a flag attribute that is set to True only in the
    block that performs the acquire; every instantiation of the class in lasio is the context expression of a `with`."""
    cls = fi.cls
    if cls is None or fi.name not in ("__init__", "__enter__") or "__exit__" not in cls.methods or "__enter__" not in cls.methods:
        return None
    # the statement binding the handle and the block it sits in
    stmt = None
    for sub in walk_shallow(fi.node):
        if isinstance(sub, ast.Assign) and sub.value is call:
            stmt = sub
    if stmt is None:
        return False, "the handle from %s is not bound by an assignment" % ast.unparse(call.func), None
    hv = _handle_var_of(stmt, call, idx)
    direct = _self_attr(stmt.targets[0]) if len(stmt.targets) == 1 else None
    attrs, foreign = set(), set()
    for sub in walk_shallow(fi.node):
        if isinstance(sub, ast.Assign) and len(sub.targets) == 1 and _self_attr(sub.targets[0]):
            a = _self_attr(sub.targets[0])
            if sub is stmt:
                attrs.add(a)
            elif hv and isinstance(sub.value, ast.Name) and sub.value.id == hv:
                attrs.add(a)
                # hv may also hold something else (a parameter rebound by the acquire)
                if hv in fi.params():
                    foreign.add(a)
    if direct:
        attrs.add(direct)
    if len(attrs) != 1:
        return False, "the handle is stored in %s: exactly one attribute of the context manager must own it" % sorted(attrs), None
    attr = next(iter(attrs))
    ex = cls.methods["__exit__"]
    closes = [c for c in walk_shallow(ex.node) if isinstance(c, ast.Call) and isinstance(c.func, ast.Attribute) and c.func.attr == "close"
              and _self_attr(c.func.value) == attr]
    if not closes:
        return False, "%s.__exit__ does not call self.%s.close()" % (cls.name, attr), attr
    for c in closes:
        cur, child = getattr(c, "_parent", None), c
        guards = []
        while cur is not None and cur is not ex.node:
            if isinstance(cur, (ast.For, ast.While, ast.Try)) and not (isinstance(cur, ast.Try) and child in cur.finalbody):
                if isinstance(cur, ast.Try) and child in cur.body:
                    pass
                else:
                    return False, "self.%s.close() in __exit__ sits inside a %s" % (attr, type(cur).__name__), attr
            if isinstance(cur, ast.If):
                guards.append((cur, child in cur.body))
            child, cur = cur, getattr(cur, "_parent", None)
        flags = []
        for g, in_body in guards:
            fa = _self_attr(g.test)
            if fa is None or not in_body:
                return False, "self.%s.close() in __exit__ is guarded by `%s`, not by the 'opened here' flag" % (attr, ast.unparse(g.test)), attr
            flags.append(fa)
        if attr in foreign and not flags:
            return False, ("self.%s may hold the caller's object but __exit__ closes it unconditionally" % attr), attr
        for fa in flags:
            # every `self.<flag> = True` lies in the block of the acquire; elsewhere only False
            block = getattr(stmt, "_parent", None)
            for m in cls.methods.values():
                for sub in walk_shallow(m.node):
                    if isinstance(sub, ast.Assign) and any(_self_attr(t) == fa for t in sub.targets):
                        v = sub.value
                        if isinstance(v, ast.Constant) and v.value is False:
                            continue
                        if isinstance(v, ast.Constant) and v.value is True and getattr(sub, "_parent", None) is block and m is fi:
                            continue
                        return False, ("flag self.%s is set by `%s` outside the block that opens the file: __exit__ could close "
                                       "the caller's object, or leave an opened file open" % (fa, ast.unparse(sub))), attr
            trues = [sub for sub in walk_shallow(fi.node) if isinstance(sub, ast.Assign) and any(_self_attr(t) == fa for t in sub.targets)
                     and isinstance(sub.value, ast.Constant) and sub.value.value is True]
            if not trues:
                return False, "flag self.%s is never set where the file is opened: the file stays open" % fa, attr
    # instantiations
    for f2 in p.all_functions():
        if isinstance(f2.node, ast.Lambda):
            continue
        withs = set()
        for n in walk_shallow(f2.node):
            if isinstance(n, (ast.With, ast.AsyncWith)):
                for it in n.items:
                    withs.add(id(it.context_expr))
        for n in walk_shallow(f2.node):
            if isinstance(n, ast.Call) and isinstance(n.func, ast.Name) and n.func.id == cls.name and f2.module is cls.module:
                if id(n) not in withs:
                    return False, "%s(...) is created outside a with-statement in %s: nothing guarantees __exit__ runs" % (cls.name, f2.qual), attr
    return True, ("handle is owned by the context manager %s: stored in self.%s, closed by __exit__ (flag-guarded when the "
                  "object may be the caller's), and every %s(...) is the subject of a with-statement" % (cls.name, attr, cls.name)), attr


def _flag_vars(cfg):
    """names whose every definition in the function is a constant bool"""
    defs = {}
    for n in cfg.nodes:
        if n.kind == "stmt" and isinstance(n.ast, ast.Assign):
            for t in n.ast.targets:
                for name in target_names(t):
                    v = n.ast.value
                    ok = isinstance(t, ast.Name) and isinstance(v, ast.Constant) and isinstance(v.value, bool)
                    defs.setdefault(name, []).append(ok)
        elif n.kind in ("for-iter", "with-enter", "handler", "entry") or (
                n.kind == "stmt" and isinstance(n.ast, (ast.AugAssign, ast.AnnAssign))):
            from sa.dataflow import node_defs
            for name in node_defs(n):
                defs.setdefault(name, []).append(False)
    return {k for k, v in defs.items() if v and all(v)}


def _handle_var_of(stmt, call, idx):
    """name the acquired handle is bound to by `stmt` (Assign whose value is/contains call)"""
    if isinstance(stmt, ast.Assign) and stmt.value is call and len(stmt.targets) == 1:
        t = stmt.targets[0]
        if isinstance(t, ast.Name) and idx is None:
            return t.id
        if isinstance(t, (ast.Tuple, ast.List)) and idx is not None and idx < len(t.elts):
            e = t.elts[idx]
            if isinstance(e, ast.Name):
                return e.id
    return None


def _exitstack_names(node):
    """names bound by an enclosing `with contextlib.ExitStack() as <name>` (the clean-up runs when that block is left,
    normally or through an exception)"""
    out = set()
    cur = getattr(node, "_parent", None)
    while cur is not None:
        if isinstance(cur, (ast.With, ast.AsyncWith)):
            for it in cur.items:
                ce = it.context_expr
                if isinstance(ce, ast.Call) and ast.unparse(ce.func).split(".")[-1] in ("ExitStack", "closing") \
                        and isinstance(it.optional_vars, ast.Name):
                    out.add(it.optional_vars.id)
        cur = getattr(cur, "_parent", None)
    return out


def _registered_close(sub):
    """`<stack>.callback(<v>.close)` / `<stack>.push(<v>)` / `<stack>.enter_context(<v>)` on an enclosing ExitStack:
    returns v (the close is guaranteed from here on), else None"""
    if not (isinstance(sub, ast.Call) and isinstance(sub.func, ast.Attribute) and isinstance(sub.func.value, ast.Name) and sub.args):
        return None
    if sub.func.value.id not in _exitstack_names(sub):
        return None
    a = sub.args[0]
    if sub.func.attr == "callback" and isinstance(a, ast.Attribute) and a.attr == "close" and isinstance(a.value, ast.Name):
        return a.value.id
    if sub.func.attr in ("push", "enter_context") and isinstance(a, ast.Name):
        return a.id
    return None


def _stmt_closes(astnode, var):
    """does the statement contain var.close() - or register it with an enclosing ExitStack ?"""
    for sub in walk_expr_shallow(astnode):
        if isinstance(sub, ast.Call) and isinstance(sub.func, ast.Attribute) and sub.func.attr == "close":
            if isinstance(sub.func.value, ast.Name) and sub.func.value.id == var:
                return True
        if _registered_close(sub) == var:
            return True
    return False


def _test_value(test, var, flags, handle_open):
    """three-valued evaluation of a test under flag values and 'var holds the live handle'"""
    if isinstance(test, ast.Name):
        if test.id in flags:
            return flags[test.id]
        if test.id == var and handle_open:
            return True
        return None
    if isinstance(test, ast.UnaryOp) and isinstance(test.op, ast.Not):
        v = _test_value(test.operand, var, flags, handle_open)
        return None if v is None else (not v)
    if isinstance(test, ast.Call) and isinstance(test.func, ast.Name) and test.func.id == "hasattr":
        if (len(test.args) == 2 and isinstance(test.args[0], ast.Name) and test.args[0].id == var
                and isinstance(test.args[1], ast.Constant) and test.args[1].value in ("close", "read", "write")
                and handle_open):
            return True
        return None
    if isinstance(test, ast.Compare) and len(test.ops) == 1 and isinstance(test.ops[0], (ast.Is, ast.IsNot, ast.Eq, ast.NotEq)):
        l, r = test.left, test.comparators[0]
        if isinstance(l, ast.Name) and isinstance(r, ast.Constant):
            val = None
            if l.id in flags and isinstance(r.value, bool):
                val = (flags[l.id] == r.value)
            elif l.id == var and handle_open and r.value is None:
                val = False
            if val is not None:
                return val if isinstance(test.ops[0], (ast.Is, ast.Eq)) else (not val)
        return None
    if isinstance(test, ast.BoolOp):
        vals = [_test_value(v, var, flags, handle_open) for v in test.values]
        if isinstance(test.op, ast.And):
            if any(v is False for v in vals):
                return False
            if all(v is True for v in vals):
                return True
        else:
            if any(v is True for v in vals):
                return True
            if all(v is False for v in vals):
                return False
    return None


def _explore(cfg, acq_node, var, flagvars):
    """explicit-state search: (cfg node, flag valuation, handle state).  Returns a witness path to an exit
    with the handle still open, or None.  Handle state: 0 = not acquired, 1 = open, 2 = released."""
    start = (cfg.entry, frozenset(), 0)
    prev = {start: None}
    dq = deque([start])
    while dq:
        st = dq.popleft()
        nid, fl, hs = st
        node = cfg.nodes[nid]
        flags = dict(fl)
        if nid in (cfg.exit, cfg.raise_exit):
            if hs == 1:
                path = []
                cur = st
                while cur is not None:
                    path.append(cur[0])
                    cur = prev[cur]
                return list(reversed(path))
            continue
        # effect of the node on normal / exceptional successors
        hs_norm, hs_exc = hs, hs
        a = node.ast
        if nid == acq_node:
            hs_norm = 1
        elif a is not None and node.kind in ("stmt", "test") and var and _stmt_closes(a, var):
            if hs == 1:
                hs_norm = hs_exc = 2
        elif node.kind == "with-enter" and isinstance(a, (ast.With, ast.AsyncWith)) and hs == 1 and var and any(
                isinstance(it.context_expr, ast.Name) and it.context_expr.id == var for it in a.items):
            hs_norm = hs_exc = 2     # `with <handle> as f:` - a file object is its own context manager and closes itself on every exit
        elif node.kind == "stmt" and isinstance(a, ast.Return) and hs == 1 and a.value is not None and var:
            if any(isinstance(s, ast.Name) and s.id == var for s in ast.walk(a.value)):
                hs_norm = 2      # ownership handed to the caller
        elif node.kind == "stmt" and isinstance(a, ast.Assign) and hs == 1 and var:
            # the only reference is overwritten while open: stays open (leak), keep state
            pass
        if node.kind == "stmt" and isinstance(a, ast.Assign) and len(a.targets) == 1 and isinstance(a.targets[0], ast.Name):
            nm = a.targets[0].id
            if nm in flagvars and isinstance(a.value, ast.Constant):
                flags[nm] = bool(a.value.value)
        decided = None
        if node.kind == "test":
            decided = _test_value(a, var, flags, hs == 1)
        nfl = frozenset(flags.items())
        for t, lab in cfg.succ[nid]:
            if decided is True and lab.startswith("false"):
                continue
            if decided is False and lab.startswith("true"):
                continue
            if lab == "unhandled-base":
                # BaseException-only path (KeyboardInterrupt...) is kept: clean-up must still run
                pass
            if lab == "exc" and _only_method_refs(cfg.nodes[nid].ast, var):
                continue      # `return h, h.close` / `r = h.close`: taking a bound method of an open file object does not raise
            nh = hs_exc if lab == "exc" else hs_norm
            nst = (t, nfl, nh)
            if nst not in prev:
                prev[nst] = st
                dq.append(nst)
    return None


def _only_method_refs(stmt, var):
    """the statement evaluates nothing but names, constants, tuples and `<var>.close` / `<var>.flush` method references"""
    if not isinstance(stmt, (ast.Return, ast.Assign)) or stmt.value is None:
        return False
    if isinstance(stmt, ast.Assign) and not all(isinstance(t, ast.Name) for t in stmt.targets):
        return False
    for sub in ast.walk(stmt.value):
        if isinstance(sub, (ast.Name, ast.Constant, ast.Tuple, ast.Load)):
            continue
        if isinstance(sub, ast.Attribute) and isinstance(sub.value, ast.Name) and sub.value.id == var and sub.attr in ("close", "flush"):
            continue
        return False
    return True


def rule_typestate(ctx, only=None):
    p = ctx.p
    n_sites = 0
    for fi in p.all_functions():
        if isinstance(fi.node, ast.Lambda):
            continue
        if only is not None and fi.qual not in only:
            continue
        sites = acquire_sites(p, fi)
        if not sites:
            continue
        cfg = build_cfg(p, fi)
        flagvars = _flag_vars(cfg)
        for call, kind, with_stmt, idx in sites:
            n_sites += 1
            site = "%s#%s@%s" % (fi.qual, kind.split(":")[0], _site_role(fi, call))
            if with_stmt is not None:
                ylds = [y for st_ in with_stmt.body for y in ast.walk(st_) if isinstance(y, (ast.Yield, ast.YieldFrom))]
                if ylds:
                    ctx.bad("IO.TYPESTATE", site, fi, call, "the with-statement that owns the handle from %s contains a `yield`: while the "
                            "generator %s is suspended there the file stays open, and when the consumer stops early (an exception in "
                            "the consumer, a break) it is closed only when the generator object is finalised - not by the time the call "
                            "that opened it returns or raises" % (ast.unparse(call.func), fi.qual))
                    continue
                ctx.ok("IO.TYPESTATE", site, fi, call, "handle acquired by %s is released by the enclosing "
                       "with-statement on every exit" % ast.unparse(call.func))
                continue
            mg = managed_by_class(p, fi, call, idx)
            if mg is not None:
                ctx.check(mg[0], "IO.TYPESTATE", site, fi, call, mg[1], mg[1])
                continue
            nodes = cfg.node_of_expr(call)
            if not nodes:
                ctx.bad("IO.TYPESTATE", site, fi, call, "acquire %s sits in unreachable/unmodelled code" % ast.unparse(call))
                continue
            bad = None
            for nid in nodes:
                stmt = cfg.nodes[nid].ast
                var = _handle_var_of(stmt, call, idx)
                if var is None:
                    # returned directly?  `return open(...)` hands ownership over without a name
                    if isinstance(stmt, ast.Return):
                        continue
                    if isinstance(stmt, ast.Expr) and isinstance(stmt.value, ast.Yield) and any(x is call for x in ast.walk(stmt.value)):
                        bad = ("undecided", "the handle is yielded to the consumer of the generator %s: it is the consumer's to close "
                               "(where the generator is expanded into its consumer that copy is checked)" % fi.qual)
                        break
                    bad = ("handle from %s is not bound to a local name (%s): cannot be closed on all paths"
                           % (ast.unparse(call.func), ast.unparse(stmt)[:80]), None)
                    break
                path = _explore(cfg, nid, var, flagvars)
                if path is not None:
                    last = cfg.nodes[path[-1]]
                    bad = ("handle '%s' acquired at line %d can reach the %s exit of %s still open"
                           % (var, call.lineno, "exceptional" if last.kind == "raise-exit" else "normal", fi.qual),
                           cfg.describe_path(path[path.index(nid):]))
                    break
            if bad and bad[0] == "undecided":
                ctx.undecided("IO.TYPESTATE", site, fi, call, bad[1])
            elif bad:
                ctx.bad("IO.TYPESTATE", site, fi, call, bad[0], bad[1])
            else:
                ctx.ok("IO.TYPESTATE", site, fi, call,
                       "handle acquired by %s is closed, or handed to the caller, on every path to a normal or "
                       "exceptional exit (flag- and hasattr-correlated branches resolved)" % ast.unparse(call.func))
    if only is None:
        ctx.floor("IO.TYPESTATE", 6)
    ctx.stat("acquire_sites", n_sites)


def _site_role(fi, call):
    """position-independent role of an acquire inside its function: ordinal among the acquires + mode"""
    mode = ""
    for a in call.args[1:2]:
        if isinstance(a, ast.Constant):
            mode = str(a.value)
    for k in call.keywords:
        if k.arg == "mode" and isinstance(k.value, ast.Constant):
            mode = str(k.value.value)
    calls = [n for n in walk_shallow(fi.node) if isinstance(n, ast.Call) and ast.unparse(n.func) == ast.unparse(call.func)]
    calls.sort(key=lambda c: (ordn(c), c.col_offset))
    return "%s%d" % (mode or "h", calls.index(call) + 1)


WRITE_ENTRY = ("las.LASFile.write", "las.LASFile.to_csv", "writer.write")


def rule_caller_owned(ctx):
    """In write()/to_csv()/writer.write(): .close() on a name that may still hold the caller's object
    must be unreachable (state search with the 'opened' flag)."""
    p = ctx.p
    n = 0
    for q in WRITE_ENTRY:
        fi = p.func(q)
        cfg = build_cfg(p, fi)
        flagvars = _flag_vars(cfg)
        rd = ReachingDefs(cfg)
        params = set(fi.params())
        # state search: track for every name whether it may still be the caller's object
        close_nodes = []
        for node in cfg.nodes:
            if node.ast is None or node.kind not in ("stmt", "test"):
                continue
            for sub in walk_expr_shallow(node.ast):
                if (isinstance(sub, ast.Call) and isinstance(sub.func, ast.Attribute) and sub.func.attr == "close"
                        and isinstance(sub.func.value, ast.Name)):
                    close_nodes.append((node.id, sub.func.value.id, sub))
                elif isinstance(sub, ast.Call) and _registered_close(sub):
                    close_nodes.append((node.id, _registered_close(sub), sub))
        # `with target as f:` closes target on exit: target must not be (an alias of) the object the caller supplied
        for wnode in [x for x in cfg.nodes if x.kind == "with-enter" and isinstance(x.ast, (ast.With, ast.AsyncWith))]:
            for it in wnode.ast.items:
                ce = it.context_expr
                if not isinstance(ce, ast.Name):
                    continue
                origins, seen_, todo = set(), set(), [(ce.id, wnode.id)]
                while todo:
                    nm_, at_ = todo.pop()
                    for d in rd.reaching(nm_, at_):
                        if (nm_, d) in seen_:
                            continue
                        seen_.add((nm_, d))
                        dn = cfg.nodes[d]
                        if dn.kind == "entry" and nm_ in params:
                            origins.add(nm_)
                        elif dn.kind == "stmt" and isinstance(dn.ast, ast.Assign) and isinstance(dn.ast.value, ast.Name):
                            todo.append((dn.ast.value.id, d))
                n += 1
                ctx.check(not origins, "IO.CALLER-OWNED", "%s#with(%s)" % (q, ce.id), fi, wnode.ast,
                          "`with %s` never manages the caller's own object" % ce.id,
                          "`with %s as ..` can hold the object passed in as %s: leaving the block calls its __exit__, i.e. closes the file the "
                          "caller supplied (it must be wrapped, e.g. contextlib.nullcontext(%s))" % (ce.id, sorted(origins), sorted(origins)[0] if origins else ""))
        if not close_nodes:
            n += 1
            ctx.ok("IO.CALLER-OWNED", q + "#no-close", fi, fi.node,
                   "no close() call at all in %s: the caller's handle cannot be closed here" % q)
            continue
        for nid, var, callnode in close_nodes:
            n += 1
            site = "%s#close(%s)" % (q, var)
            # which definitions of var reach the close?  param definitions = caller's object
            reach = rd.reaching(var, nid)
            may_be_param = any(cfg.nodes[d].kind == "entry" for d in reach) and var in params
            if not may_be_param:
                ctx.ok("IO.CALLER-OWNED", site, fi, callnode, "%s.close(): %s is never the caller's object here" % (var, var))
                continue
            # path-sensitive: is the close reachable in a state where var was not re-bound by an acquire?
            witness = _reach_close_unowned(cfg, nid, var, flagvars, p, fi)
            if witness is None:
                ctx.ok("IO.CALLER-OWNED", site, fi, callnode,
                       "%s.close() is reachable only after %s was re-bound to a handle opened in %s "
                       "(flag-correlated)" % (var, var, q))
            else:
                ctx.bad("IO.CALLER-OWNED", site, fi, callnode,
                        "%s.close() is reachable while %s still holds the object supplied by the caller" % (var, var),
                        cfg.describe_path(witness))
    ctx.floor("IO.CALLER-OWNED", 3)


def _reach_close_unowned(cfg, close_nid, var, flagvars, p, fi):
    start = (cfg.entry, frozenset(), False)   # False: var holds caller's object
    prev = {start: None}
    dq = deque([start])
    acq = {}
    for call, kind, with_stmt, idx in acquire_sites(p, fi):
        for nid in cfg.node_of_expr(call):
            if _handle_var_of(cfg.nodes[nid].ast, call, idx) == var:
                acq[nid] = True
    while dq:
        st = dq.popleft()
        nid, fl, owned = st
        node = cfg.nodes[nid]
        flags = dict(fl)
        if nid == close_nid and not owned:
            path = []
            cur = st
            while cur is not None:
                path.append(cur[0])
                cur = prev[cur]
            return list(reversed(path))
        a = node.ast
        owned_norm = owned
        if nid in acq:
            owned_norm = True
        if node.kind == "stmt" and isinstance(a, ast.Assign) and len(a.targets) == 1 and isinstance(a.targets[0], ast.Name):
            nm = a.targets[0].id
            if nm in flagvars and isinstance(a.value, ast.Constant):
                flags[nm] = bool(a.value.value)
        decided = _test_value(a, None, flags, False) if node.kind == "test" else None
        nfl = frozenset(flags.items())
        for t, lab in cfg.succ[nid]:
            if decided is True and lab.startswith("false"):
                continue
            if decided is False and lab.startswith("true"):
                continue
            nst = (t, nfl, owned if lab == "exc" else owned_norm)
            if nst not in prev:
                prev[nst] = st
                dq.append(nst)
    return None


def rule_no_escape(ctx):
    """an owned handle is never stored in an attribute / subscript / global, nor appended to a container"""
    p = ctx.p
    n = 0
    for fi in p.all_functions():
        if isinstance(fi.node, ast.Lambda):
            continue
        sites = [s for s in acquire_sites(p, fi) if s[2] is None]
        if not sites:
            continue
        cfg = build_cfg(p, fi)
        hvars = set()
        managed_attrs = set()
        for call, kind, with_stmt, idx in sites:
            mg = managed_by_class(p, fi, call, idx)
            if mg is not None and mg[0]:
                managed_attrs.add(mg[2])
        for call, kind, with_stmt, idx in sites:
            for nid in cfg.node_of_expr(call):
                v = _handle_var_of(cfg.nodes[nid].ast, call, idx)
                if v:
                    hvars.add(v)
        globs = set()
        for sub in walk_shallow(fi.node):
            if isinstance(sub, ast.Global):
                globs |= set(sub.names)
        for v in sorted(hvars):
            n += 1
            site = "%s#%s" % (fi.qual, v)
            bad = None
            if v in globs:
                bad = (fi.node, "handle variable '%s' is declared global" % v)
            for sub in walk_shallow(fi.node):
                if isinstance(sub, ast.Assign):
                    uses = any(isinstance(s, ast.Name) and s.id == v for s in ast.walk(sub.value))
                    if uses and any(isinstance(t, (ast.Attribute, ast.Subscript)) and _self_attr(t) not in managed_attrs for t in sub.targets):
                        bad = (sub, "owned handle '%s' is stored into %s" % (v, ast.unparse(sub.targets[0])))
                elif isinstance(sub, ast.Call) and isinstance(sub.func, ast.Attribute) and sub.func.attr in (
                        "append", "add", "insert", "extend", "setdefault", "update", "__setattr__", "__setitem__"):
                    if any(isinstance(s, ast.Name) and s.id == v for a in sub.args for s in ast.walk(a)):
                        bad = (sub, "owned handle '%s' is put into a container/attribute via .%s()" % (v, sub.func.attr))
                elif isinstance(sub, ast.Call) and isinstance(sub.func, ast.Name) and sub.func.id == "setattr":
                    if any(isinstance(s, ast.Name) and s.id == v for a in sub.args for s in ast.walk(a)):
                        bad = (sub, "owned handle '%s' is stored with setattr()" % v)
            if bad:
                ctx.bad("IO.NO-ESCAPE", site, fi, bad[0], bad[1])
            else:
                ctx.ok("IO.NO-ESCAPE", site, fi, fi.node,
                       "handle '%s' is only used locally, passed as an argument, closed or returned" % v)
    ctx.floor("IO.NO-ESCAPE", 3)


OWNING_WRAPPERS = ("TextIOWrapper", "BufferedWriter", "BufferedReader", "BufferedRandom", "GzipFile", "BZ2File", "LZMAFile", "StreamReaderWriter")


def rule_wrapper_ownership(ctx):
    """IO.CALLER-OWNED (wrappers): an io wrapper closes the stream it wraps when it is closed *or finalised*.  A wrapper put
    around an object that may be the caller's (a parameter) must be detached again on the way out, otherwise the caller's file
    is closed as soon as the wrapper is garbage-collected - even on the success path"""
    p = ctx.p
    n = 0
    for q in WRITE_ENTRY + ("las.LASFile.read", "reader.open_file"):
        if not p.has_func(q):
            continue
        fi = p.func(q)
        params = set(fi.params())
        for sub in walk_shallow(fi.node):
            if isinstance(sub, ast.Assign) and isinstance(sub.value, ast.Call) and ast.unparse(sub.value.func).split(".")[-1] in OWNING_WRAPPERS:
                c = sub.value
                inner = c.args[0] if c.args else next((k.value for k in c.keywords if k.arg in ("fileobj", "buffer", "raw")), None)
                if not (isinstance(inner, ast.Name) and inner.id in params):
                    continue
                n += 1
                wvars = {t.id for t in sub.targets if isinstance(t, ast.Name)}
                # aliases: file_ref = text_layer
                for a_ in walk_shallow(fi.node):
                    if isinstance(a_, ast.Assign) and isinstance(a_.value, ast.Name) and a_.value.id in wvars:
                        wvars |= {t.id for t in a_.targets if isinstance(t, ast.Name)}
                detached = any(isinstance(d, ast.Call) and isinstance(d.func, ast.Attribute) and d.func.attr == "detach"
                               and isinstance(d.func.value, ast.Name) and d.func.value.id in wvars for d in walk_shallow(fi.node))
                ctx.check(detached, "IO.CALLER-OWNED", "%s#wrapper(%s)" % (q, inner.id), fi, c,
                          "the wrapper around the caller's stream is detached before it goes out of scope",
                          "`%s` wraps the object supplied as `%s` and is never detach()ed: when the wrapper is finalised it closes the "
                          "caller's file, although lasio did not open it" % (ast.unparse(c)[:60], inner.id))
    if n == 0:
        ctx.ok("IO.CALLER-OWNED", "wrappers#none", None, 0, "no owning io wrapper is put around a caller-supplied stream", nontrivial=False)
