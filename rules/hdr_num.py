"""Rule group HDR numeric (C08): header values become numbers only when they are numeric literals.

HDR.NUMLIT     every text->number constructor in SectionParser.num is reached only through the success edge of a
               full-match literal recogniser G on the very value converted, with L(CORE) <= L(G) <= L(REF) (DFA product)
HDR.FINITE     int first, then float; a float result is returned only under isfinite; failures return the default
HDR.DEFAULT    the fall-back value is the text before comma substitution
HDR.EXEMPT     in metadata() the conversion is skipped exactly for names that case-fold to API / UWI (truth table)
HDR.CURVE-RAW  curves() never converts; params() converts the value unconditionally (no exemption leaks into ~P);
               conversion is applied to the value field only
"""
import ast

from sa import AnalysisError
from sa.astutil import unparse
from sa.cfg import build_cfg, EXC
from sa.consts import fold, module_env, NotConst, Regex
from sa.dataflow import Provenance, ControlDependence, ReachingDefs, node_defs, target_names
from sa.loader import walk_shallow, walk_expr_shallow
from sa.resolve import get_resolver
from sa import rx

REF = r"[+-]?([0-9]+([.,][0-9]*)?|[.,][0-9]+)([eE][+-]?[0-9]+)?"
CORE = r"[+-]?[0-9]+(\.[0-9]+)?([eE][+-]?[0-9]+)?"
INT_CTORS = {"int", "int64", "int32", "int_", "intp", "longlong"}
FLOAT_CTORS = {"float", "float64", "float32", "float_", "double", "longdouble"}
SP = "reader.SectionParser"


def _ctor_name(call):
    f = call.func
    return f.id if isinstance(f, ast.Name) else (f.attr if isinstance(f, ast.Attribute) else "")


def _truth_edges(test, is_match, is_str):
    """for which edge labels of `test` does (value is a str) imply (matched)?  atoms: M (match), S (is str)"""
    def ev(e, M, S):
        if is_match(e):
            return M
        if is_str(e):
            return S
        if isinstance(e, ast.UnaryOp) and isinstance(e.op, ast.Not):
            v = ev(e.operand, M, S)
            return None if v is None else (not v)
        if isinstance(e, ast.BoolOp):
            vals = [ev(v, M, S) for v in e.values]
            if any(v is None for v in vals):
                # unknown conjunct/disjunct: be conservative
                if isinstance(e.op, ast.And):
                    if any(v is False for v in vals):
                        return False
                    return None
                if any(v is True for v in vals):
                    return True
                return None
            return all(vals) if isinstance(e.op, ast.And) else any(vals)
        if isinstance(e, ast.Compare) and len(e.ops) == 1 and isinstance(e.comparators[0], ast.Constant) and e.comparators[0].value is None:
            v = ev(e.left, M, S)
            if v is None:
                return None
            return (not v) if isinstance(e.ops[0], ast.Is) else v
        return None
    ok = {}
    for lab, want in (("true", True), ("false", False)):
        good = True
        possible = False
        for M in (True, False):
            for S in (True, False):
                v = ev(test, M, S)
                if v is None:
                    # unknown outcome could take either edge
                    if S and not M:
                        good = False
                    possible = True
                elif v == want:
                    possible = True
                    if S and not M:
                        good = False
        ok[lab] = good and possible
    return ok


def _ctor_delegates(p, fi):
    """package functions reachable from fi (resolved calls) that apply a number constructor to one of their parameters"""
    r = get_resolver(p)
    out = []
    for q, f in sorted(r.closure([fi]).items()):
        if f is fi or isinstance(f.node, ast.Lambda):
            continue
        # a constructor named anywhere in the function (also as a value: `for t in (np.int64, np.float64): t(x)`)
        for sub in walk_shallow(f.node):
            nm = sub.attr if isinstance(sub, ast.Attribute) else (sub.id if isinstance(sub, ast.Name) else "")
            if nm in (INT_CTORS | FLOAT_CTORS) - {"int", "float"} or (nm in ("int", "float") and isinstance(getattr(sub, "_parent", None), ast.Call)
                                                                       and sub._parent.func is sub and sub._parent.args):
                out.append(f)
                break
    return out


def _probe_recogniser(p, fi, test, env):
    """a hand-written literal recogniser that was expanded into num(): the module still defines it (`__ret_<name><k>` names the
    helper); when it is a pure one-argument predicate the constant folder can evaluate, it is compared with the reference
    language on every string of length <= 3 over a small alphabet and on a list of longer spellings.  Returns (ok, text) or None"""
    import itertools
    import re as _re
    from sa.consts import _interpret, FuncRef
    cands = []
    for n in ast.walk(test):
        if isinstance(n, ast.Name):
            m = _re.match(r"__ret(_\w+?)\d+$", n.id)
            if m:
                for nm in (m.group(1), m.group(1)[1:]):
                    f = fi.module.functions.get(nm)
                    if f is not None and len(f.params()) == 1 and f not in cands:
                        cands.append(f)
    if len(cands) != 1:
        return None
    f = cands[0]
    alphabet = ["1", "9", "+", "-", ".", "e", "E", "_", " ", ",", "a", "\uff11"]
    probes = [""] + ["".join(t) for k in (1, 2, 3) for t in itertools.product(alphabet, repeat=k)]
    probes += ["1E5", "2.5E-3", "-1.5E+02", "1e+5", "15_9", "1_0.5", "1e5.5", "0x10", "inf", "nan", "-inf", "1.2.3", "+.5e-3", ".5e3",
               "12345678901234567890", "1e400", "1 2", "\t1", "1\n", "1d5", "1e5e5", "1.e5", "+1.25E+10", "\u0661\u0662"]
    ref, core = _re.compile(REF), _re.compile(CORE)
    wrong = []
    for s_ in probes:
        try:
            got = bool(_interpret(FuncRef(f.node, env), [s_], {}))
        except NotConst:
            return None
        except Exception:  # noqa - outside the folder
            return None
        if (got and ref.fullmatch(s_) is None) or (not got and core.fullmatch(s_) is not None):
            wrong.append((s_, got))
            if len(wrong) >= 4:
                break
    if wrong:
        return False, ("the hand-written literal recogniser %s disagrees with the documented literal language: %s" % (
            f.qual, "; ".join("%r is %s" % (s_, "accepted (numpy converts it although it is no decimal literal)" if g else
                                            "rejected (a numeric literal stays text)") for s_, g in wrong)))
    return True, ("the hand-written literal recogniser %s lies between the core and the widest documented literal language on %d probe strings (all "
                  "strings of length <= 3 over %d characters and %d longer spellings)" % (f.qual, len(probes), len(alphabet), 24))


def rule_numlit(ctx):
    p = ctx.p
    fi = p.func(SP + ".num")
    x = fi.params()[1]
    has_ctor = any(isinstance(sub, ast.Call) and _ctor_name(sub) in (INT_CTORS | FLOAT_CTORS) and sub.args for sub in walk_shallow(fi.node))
    if not has_ctor:
        dl = _ctor_delegates(p, fi)
        direct = [f for f in dl if any(isinstance(sub, ast.Call) and _ctor_name(sub) in (INT_CTORS | FLOAT_CTORS) and sub.args and any(
            isinstance(n, ast.Name) and n.id in f.params() for n in ast.walk(sub.args[0])) for sub in walk_shallow(f.node))]
        if len(dl) == 1 and direct and [a for a in dl[0].params() if a not in ("self", "cls")]:
            # num() hands the conversion to one helper: the guard must dominate the constructors there, on the helper's own argument
            fi = dl[0]
            x = [a for a in fi.params() if a not in ("self", "cls")][0]
        elif dl:
            ctx.undecided("HDR.NUMLIT", fi.qual + "#sinks", fi, fi.node, "num() delegates the conversion to %s: guard dominance across "
                          "several helpers is not decided" % ", ".join(f.qual for f in dl))
            ctx.floor("HDR.NUMLIT", 0)
            return
    cfg = build_cfg(p, fi)
    env = module_env(p, fi.module.name)
    # sinks
    sinks = []
    # the converted variable: the argument itself, or a local computed from it (`text = re.sub(.., x)`) that every constructor uses
    derived = {x}
    for _ in range(3):
        for a_ in walk_shallow(fi.node):
            if isinstance(a_, ast.Assign) and len(a_.targets) == 1 and isinstance(a_.targets[0], ast.Name) and any(
                    isinstance(n, ast.Name) and n.id in derived for n in ast.walk(a_.value)) and not any(
                    isinstance(c_, ast.Call) and _ctor_name(c_) in (INT_CTORS | FLOAT_CTORS) for c_ in ast.walk(a_.value)):
                derived.add(a_.targets[0].id)
    for node in cfg.nodes:
        if node.ast is None or node.kind not in ("stmt", "test"):
            continue
        for sub in walk_expr_shallow(node.ast):
            if isinstance(sub, ast.Call) and _ctor_name(sub) in (INT_CTORS | FLOAT_CTORS) and sub.args:
                if any(isinstance(n, ast.Name) and n.id in derived for n in ast.walk(sub.args[0])):
                    sinks.append((node.id, sub))
    sink_vars = {n.id for _, c_ in sinks for n in ast.walk(c_.args[0]) if isinstance(n, ast.Name) and n.id in derived}
    if len(sink_vars) == 1 and x not in sink_vars:
        x = sink_vars.pop()
    if not sinks:
        ctx.bad("HDR.NUMLIT", fi.qual + "#sinks", fi, fi.node, "SectionParser.num contains no number constructor on its "
                "argument: numeric header values are never converted")
        ctx.floor("HDR.NUMLIT", 1)
        return
    # guards: tests containing <R>.fullmatch(x) / re.fullmatch(P, x) / anchored match
    guards = []
    for node in cfg.nodes:
        if node.kind != "test":
            continue
        for sub in ast.walk(node.ast):
            if not isinstance(sub, ast.Call) or not isinstance(sub.func, ast.Attribute):
                continue
            meth = sub.func.attr
            if meth not in ("fullmatch", "match"):
                continue
            recv = sub.func.value
            pat = None
            arg = None
            try:
                if isinstance(recv, ast.Name) and recv.id == "re":
                    pat = fold(sub.args[0], env)
                    flags = fold(sub.args[2], env) if len(sub.args) > 2 else 0
                    for k in sub.keywords:
                        if k.arg == "flags":
                            flags = fold(k.value, env)
                    pat = Regex(pat, flags) if isinstance(pat, str) else pat
                    arg = sub.args[1]
                else:
                    pat = fold(recv, env)
                    arg = sub.args[0] if sub.args else None
            except (NotConst, IndexError):
                continue
            if not isinstance(pat, Regex) or arg is None:
                continue
            guards.append((node.id, sub, meth, pat, arg))
    site = fi.qual + "#literal-guard"
    if not guards:
        # a hand-written recogniser: a test in front of the constructors that reads values computed from the text (parts, digit
        # tests) and leaves the function - a different design, whose language this rule cannot compare with the reference
        wide = set(derived)
        for _ in range(12):
            for a_ in walk_shallow(fi.node):
                if isinstance(a_, ast.Assign) and any(isinstance(n, ast.Name) and n.id in wide for n in ast.walk(a_.value)):
                    for t_ in a_.targets:
                        wide |= set(target_names(t_))
        from sa.astutil import ordn as _ordn
        first_sink = min(_ordn(c_) for _, c_ in sinks)
        hand = [nd for nd in cfg.nodes if nd.kind == "test" and _ordn(nd.ast) < first_sink and any(
            isinstance(n, ast.Name) and n.id in wide and n.id not in derived for n in ast.walk(nd.ast)) and any(
            isinstance(r_, ast.Return) for st_ in getattr(nd.ast._parent, "body", []) if hasattr(nd.ast, "_parent") for r_ in ast.walk(st_))]
        if hand:
            verdict = _probe_recogniser(p, fi, hand[0].ast, env)
            if verdict is not None:
                okv, msg = verdict
                ctx.check(okv, "HDR.NUMLIT", fi.qual + "#guard-language", fi, hand[0].ast, msg, msg)
                ctx.floor("HDR.NUMLIT", 1)
                return
            ctx.undecided("HDR.NUMLIT", fi.qual + "#literal-guard", fi, hand[0].ast, "num() recognises literals with hand-written string tests "
                          "(`%s`), not with a regular expression: the language it accepts is not decided" % unparse(hand[0].ast))
            ctx.floor("HDR.NUMLIT", 0)
            return
        for nid, call in sinks:
            ctx.bad("HDR.NUMLIT", "%s#sink:%s" % (fi.qual, _ctor_name(call)), fi, call,
                    "%s is applied to header text without a literal recogniser: numpy accepts digit-group "
                    "underscores, surrounding blanks and non-ASCII digits ('15_9' -> 159)" % unparse(call))
        ctx.floor("HDR.NUMLIT", 1)
        return
    rd = ReachingDefs(cfg)
    for gid, gcall, meth, pat, arg in guards:
        gsite = "%s#guard-language" % fi.qual
        # language of the guard
        pattern = pat.pattern
        if meth == "match":
            pattern = "(?:%s)" % pattern   # match() anchors at the start only
        try:
            G = rx.DFA(pat.pattern, pat.flags)
            R = rx.DFA(REF)
            C = rx.DFA(CORE)
        except rx.Unsupported as e:
            raise AnalysisError("literal recogniser %r uses an unsupported construct: %s" % (pat.pattern, e))
        if meth == "match" and not (pat.pattern.endswith("$") or pat.pattern.endswith(r"\Z")):
            ctx.bad("HDR.NUMLIT", gsite, fi, gcall, "the recogniser is applied with match() and no end anchor: any text "
                    "that merely starts with a literal ('12-34-12', '5 m') is converted or rejected inconsistently")
            continue
        ok1, w1 = rx.included(G, R)
        ok2, w2 = rx.included(C, G)
        ctx.stat("dfa_states", G.nstates + R.nstates + C.nstates)
        if not ok1:
            ctx.bad("HDR.NUMLIT", gsite, fi, gcall, "the literal recogniser %r accepts %r, which is not a plain decimal "
                    "literal (sign, ASCII digits, optional fraction, optional exponent)" % (pat.pattern, w1))
        elif not ok2:
            ctx.bad("HDR.NUMLIT", gsite, fi, gcall, "the literal recogniser %r rejects the decimal literal %r, which "
                    "must be converted to a number" % (pat.pattern, w2))
        else:
            ctx.ok("HDR.NUMLIT", gsite, fi, gcall, "L(CORE) <= L(%r) <= L(REF) by DFA product (%d/%d/%d states)" % (
                pat.pattern, C.nstates, G.nstates, R.nstates))
        if not (isinstance(arg, ast.Name) and arg.id == x):
            ctx.bad("HDR.NUMLIT", "%s#guard-operand" % fi.qual, fi, gcall, "the recogniser is applied to `%s`, not to the "
                    "value that is converted (`%s`): surrounding blanks or other normalised-away text still converts"
                    % (unparse(arg), x))
    # dominance: every path from entry (or from a later definition of x) to a sink crosses an ok-edge of a guard
    ok_edges = set()
    for gid, gcall, meth, pat, arg in guards:
        if not (isinstance(arg, ast.Name) and arg.id == x):
            continue
        def is_match(e, gcall=gcall):
            return e is gcall
        def is_str(e):
            return (isinstance(e, ast.Call) and isinstance(e.func, ast.Name) and e.func.id == "isinstance" and len(e.args) == 2
                    and isinstance(e.args[0], ast.Name) and e.args[0].id == x and "str" in ast.unparse(e.args[1]))
        oks = _truth_edges(cfg.nodes[gid].ast, is_match, is_str)
        for (t, lab) in cfg.succ[gid]:
            base = lab.split("+")[0]
            if oks.get(base):
                ok_edges.add((gid, t, lab))
    # graph without ok edges
    sources = ([cfg.entry] if x in fi.params() else []) + [n.id for n in cfg.nodes if n.kind != "entry" and x in node_defs(n)]
    for nid, call in sinks:
        ssite = "%s#sink:%s" % (fi.qual, _ctor_name(call))
        witness = None
        for src in sources:
            pth = _path_avoiding_edges(cfg, src, nid, ok_edges)
            if pth:
                witness = pth
                break
        if witness:
            ctx.bad("HDR.NUMLIT", ssite, fi, call, "%s can be reached without the converted value `%s` having passed the "
                    "literal recogniser" % (unparse(call), x), cfg.describe_path(witness))
        else:
            ctx.ok("HDR.NUMLIT", ssite, fi, call, "%s is reachable only after `%s` fully matched the literal recogniser "
                   "(or is not a str)" % (unparse(call), x))
    ctx.floor("HDR.NUMLIT", 3)


def _path_avoiding_edges(cfg, src, dst, forbidden):
    from collections import deque
    prev = {src: None}
    dq = deque([src])
    while dq:
        n = dq.popleft()
        for t, lab in cfg.succ[n]:
            if (n, t, lab) in forbidden:
                continue
            if t == dst:
                path = [t, n]
                while prev[path[-1]] is not None:
                    path.append(prev[path[-1]])
                return list(reversed(path))
            if t not in prev:
                prev[t] = n
                dq.append(t)
    return None


def rule_finite_default(ctx):
    p = ctx.p
    fi = p.func(SP + ".num")
    x = fi.params()[1]
    if not any(isinstance(sub, ast.Call) and _ctor_name(sub) in (INT_CTORS | FLOAT_CTORS) and sub.args for sub in walk_shallow(fi.node)):
        dl = _ctor_delegates(p, fi)
        if dl:
            # what num() itself returns is still its business: the delegate's result, the text, or the caller's default
            dflt_ = fi.params()[2] if len(fi.params()) > 2 else None
            dnames = {f.name for f in dl}
            locals_from_delegate = {t.id for a_ in walk_shallow(fi.node) if isinstance(a_, ast.Assign) and isinstance(a_.value, ast.Call)
                                    and _ctor_name(a_.value) in dnames for t in a_.targets if isinstance(t, ast.Name)}
            for r_ in [s_ for s_ in walk_shallow(fi.node) if isinstance(s_, ast.Return) and s_.value is not None]:
                v = r_.value
                ok_ret = (isinstance(v, ast.Call) and _ctor_name(v) in dnames) or (isinstance(v, ast.Name) and v.id in (
                    {x, dflt_} | locals_from_delegate))
                if not ok_ret:
                    ctx.bad("HDR.FINITE", fi.qual + "#returns", fi, r_, "SectionParser.num: returns `%s`, which is neither the result of the "
                            "conversion helper for this call, nor the original text, nor the caller's default (a value remembered from "
                            "another call ignores this call's default)" % unparse(v))
                    ctx.floor("HDR.FINITE", 0)
                    return
            ctx.undecided("HDR.FINITE", fi.qual + "#returns", fi, fi.node, "num() delegates the conversion to %s: the int-first / "
                          "finite-float / verbatim-fallback shape of the result is not decided across the call" % ", ".join(f.qual for f in dl))
            ctx.floor("HDR.FINITE", 0)
            return
    x_name = x
    dflt = fi.params()[2] if len(fi.params()) > 2 else None
    cfg = build_cfg(p, fi)
    prov = Provenance(cfg)
    cd = ControlDependence(cfg)
    rets = [n for n in cfg.nodes if n.kind == "stmt" and isinstance(n.ast, ast.Return)]
    int_ret = float_ret = default_ret = 0
    problems = []
    for n in rets:
        v = n.ast.value
        if v is None:
            problems.append((n.ast, "returns None"))
            continue
        atoms = prov.atoms(v, n.id)
        names = {a[1] for a in atoms if a[0] == "callname"}
        if names & INT_CTORS and not (names & FLOAT_CTORS):
            int_ret += 1
        elif names & FLOAT_CTORS:
            float_ret += 1
            tests = [(cfg.nodes[tn].ast, lab) for (tn, lab) in cd.transitive(n.id) if cfg.nodes[tn].kind == "test"]
            def _finite_under(t, lab):
                pol = lab.startswith("true")
                while isinstance(t, ast.UnaryOp) and isinstance(t.op, ast.Not):
                    t, pol = t.operand, not pol
                return isinstance(t, ast.Call) and _ctor_name(t) == "isfinite" and pol
            fin = any(_finite_under(t, lab) for t, lab in tests)
            if not fin:
                problems.append((n.ast, "a float result is returned without an isfinite() test: 'inf'-valued literals "
                                        "such as 1e400 become numbers"))
        else:
            default_ret += 1
            if ("param", x) not in atoms and (dflt is None or ("param", dflt) not in atoms):
                problems.append((n.ast, "fall-back return `%s` is neither the original text nor the caller's default" % unparse(v)))
            if "sub" in names or "replace" in names:
                problems.append((n.ast, "the fall-back value passes through the comma->dot substitution: a non-numeric "
                                        "text such as '1,234,5' is not returned verbatim"))
    site = fi.qual + "#returns"
    if int_ret < 1:
        problems.append((fi.node, "no integer conversion is returned: integer literals no longer become integers"))
    if float_ret < 1:
        problems.append((fi.node, "no float conversion is returned"))
    if default_ret < 1:
        problems.append((fi.node, "no fall-back return of the original text"))
    # integer attempt precedes the float attempt: the float ctor is only reachable through the int ctor's failure
    ints = [n.id for n in cfg.nodes if n.ast is not None and n.kind == "stmt" and any(
        isinstance(s, ast.Call) and _ctor_name(s) in INT_CTORS and s.args for s in walk_expr_shallow(n.ast))]
    floats = [n.id for n in cfg.nodes if n.ast is not None and n.kind == "stmt" and any(
        isinstance(s, ast.Call) and _ctor_name(s) in FLOAT_CTORS and s.args for s in walk_expr_shallow(n.ast))]
    # the probing form: the integer constructor is tried inside a `try`, the float constructor only after it failed
    from sa.astutil import protecting_try as _ptry
    int_calls = [c for c in walk_shallow(fi.node) if isinstance(c, ast.Call) and _ctor_name(c) in INT_CTORS and c.args]
    def _in_try_body(c):
        cur = c
        par = getattr(cur, "_parent", None)
        while par is not None and not isinstance(par, (ast.FunctionDef, ast.Lambda)):
            if isinstance(par, ast.Try) and any(cur is st or any(cur is x for x in ast.walk(st)) for st in par.body):
                return True
            cur, par = par, getattr(par, "_parent", None)
        return False
    probing = bool(int_calls) and all(_in_try_body(c) for c in int_calls)
    not_probing = None
    if ints and floats and probing:
        pth = cfg.find_path(cfg.entry, floats, avoid=ints)
        if pth:
            problems.append((cfg.nodes[pth[-1]].ast, "the float conversion can be reached without trying the integer "
                                                     "conversion first: integer literals come back as floats"))
    elif ints and floats:
        not_probing = "num() does not probe np.int64() in a try before np.float64() (it classifies the literal by other tests): " \
                      "that integer literals within 64 bits come back as integers is not decided in this form"
    # every number constructor on the text sits in a try that catches everything (OverflowError for integers beyond 64 bits)
    from sa.astutil import protecting_try
    for n_ in cfg.nodes:
        if n_.ast is None or n_.kind != "stmt":
            continue
        for c in walk_expr_shallow(n_.ast):
            if isinstance(c, ast.Call) and _ctor_name(c) in (INT_CTORS | FLOAT_CTORS) and c.args and any(
                    isinstance(x, ast.Name) and x.id == x_name for x in ast.walk(c.args[0])):
                if protecting_try(c) is None and probing:
                    problems.append((c, "`%s` is not inside a try that catches every exception: an integer literal beyond 64 bits "
                                        "raises OverflowError instead of falling back to float" % unparse(c)))
    if problems:
        seen = set()
        for node, msg in problems:
            if msg not in seen:
                seen.add(msg)
                ctx.bad("HDR.FINITE", site, fi, node, "SectionParser.num: " + msg)
    elif not_probing:
        ctx.undecided("HDR.FINITE", site, fi, fi.node, not_probing)
        ctx.floor("HDR.FINITE", 0)
        return
    else:
        ctx.ok("HDR.FINITE", site, fi, fi.node, "int first, float second (returned only under isfinite), otherwise the "
               "untouched original text / caller default (%d/%d/%d returns)" % (int_ret, float_ret, default_ret))
    ctx.floor("HDR.FINITE", 1)


PROBE_NAMES = ["API", "api", "Api", "aPI", "UWI", "uwi", "Uwi", "uWi", "APIX", "XAPI", "UWI2", "WELL", "well", "AP", ""]


def rule_exempt(ctx):
    p = ctx.p
    fi = p.func(SP + ".metadata")
    cfg = build_cfg(p, fi)
    cd = ControlDependence(cfg)
    kw = fi.node.args.kwarg.arg if fi.node.args.kwarg else None
    calls = [s for s in walk_shallow(fi.node) if isinstance(s, ast.Call) and isinstance(s.func, ast.Attribute)
             and s.func.attr == "num"]
    site = fi.qual + "#api-uwi-exemption"
    if not calls:
        ctx.bad("HDR.EXEMPT", site, fi, fi.node, "metadata() never converts values to numbers")
        ctx.floor("HDR.EXEMPT", 1)
        return
    env0 = module_env(p, fi.module.name)
    # local constant lists (number_strings = [...])
    local = {}
    for s in walk_shallow(fi.node):
        if isinstance(s, ast.Assign) and len(s.targets) == 1 and isinstance(s.targets[0], ast.Name):
            try:
                local[s.targets[0].id] = fold(s.value, env0)
            except NotConst:
                pass
    for call in calls:
        tests = []
        for nid in cfg.node_of_expr(call):
            tests += [(cfg.nodes[tn].ast, lab) for (tn, lab) in cd.transitive(nid) if cfg.nodes[tn].kind == "test"]
        # conditional expressions around the call: `self.num(v) if numeric else v`
        cur = call
        par = getattr(cur, "_parent", None)
        while par is not None and not isinstance(par, ast.stmt):
            if isinstance(par, ast.IfExp) and cur is not par.test:
                tests.append((par.test, "true" if cur is par.body else "false"))
            cur, par = par, getattr(par, "_parent", None)
        if not tests:
            ctx.bad("HDR.EXEMPT", site, fi, call, "the conversion in metadata() is unconditional: API and UWI values lose "
                    "their leading zeros")
            continue
        table = {}
        undecided = None
        # conditions on anything but the mnemonic (e.g. the section kind) restrict the exemption
        selfish = [t for t, lab in tests if any(isinstance(x, ast.Attribute) and isinstance(x.value, ast.Name) and x.value.id == "self"
                                                and not (isinstance(getattr(x, "_parent", None), ast.Call) and x._parent.func is x)
                                                for x in ast.walk(_inline_locals(t, fi)))]
        if selfish:
            ctx.bad("HDR.EXEMPT", site, fi, call, "the API/UWI exemption additionally depends on `%s`: outside that case (e.g. in "
                    "~Version or a custom section) API/UWI values are converted and lose their leading zeros" % unparse(_inline_locals(selfish[0], fi)))
            continue
        tests = [(_inline_locals(t, fi), lab) for t, lab in tests]
        for probe in PROBE_NAMES:
            def env(name, probe=probe):
                if name in local:
                    return local[name]
                if name == kw:
                    return {"name": probe, "unit": "", "value": "1", "descr": ""}
                return env0(name)
            converts = True
            for t, lab in tests:
                try:
                    v = bool(fold(t, env))
                except NotConst as e:
                    undecided = (t, str(e))
                    break
                if v != lab.startswith("true"):
                    converts = False
            if undecided:
                break
            table[probe] = converts
        if undecided and ("subscript failed" in undecided[1] or "str method failed" in undecided[1]):
            # the test itself fails on a well-formed parsed line (a key the parsed-line dict does not have, an index that is not
            # there): at run time that is an exception on every such header line
            ctx.bad("HDR.EXEMPT", site, fi, undecided[0], "the exemption test `%s` cannot be evaluated on a parsed header line (%s): it "
                    "raises instead of deciding whether the value may be converted" % (unparse(undecided[0]), undecided[1]))
            continue
        if undecided:
            ctx.undecided("HDR.EXEMPT", site, fi, undecided[0], "the exemption test `%s` is not foldable (%s)" % (unparse(undecided[0]), undecided[1]))
            continue
        wrong = [n for n, conv in table.items() if conv == (n.upper() in ("API", "UWI"))]
        if wrong:
            kept = [n for n in wrong if n.upper() in ("API", "UWI")]
            lost = [n for n in wrong if n.upper() not in ("API", "UWI")]
            msg = []
            if kept:
                msg.append("values of items named %s are converted to numbers (leading zeros lost)" % kept)
            if lost:
                msg.append("values of items named %s are wrongly kept as text" % lost)
            ctx.bad("HDR.EXEMPT", site, fi, call, "API/UWI exemption, truth table over %d probe names: %s" % (
                len(PROBE_NAMES), "; ".join(msg)))
        else:
            ctx.ok("HDR.EXEMPT", site, fi, call, "conversion is skipped exactly for names that case-fold to API/UWI "
                   "(truth table over %d probe names incl. mixed case and near misses)" % len(PROBE_NAMES))
    ctx.floor("HDR.EXEMPT", 1)


def _inline_locals(t, fi):
    """substitute single-definition locals of fi into test t (is_well_id = <expr>)"""
    import copy
    defs = {}
    for s_ in walk_shallow(fi.node):
        if isinstance(s_, ast.Assign) and len(s_.targets) == 1 and isinstance(s_.targets[0], ast.Name):
            defs.setdefault(s_.targets[0].id, []).append(s_.value)
    single = {k: v[0] for k, v in defs.items() if len(v) == 1 and not isinstance(v[0], (ast.List, ast.Tuple, ast.Dict, ast.Constant))}

    consts = {}
    if fi.cls is not None:
        for st in fi.cls.node.body:
            if isinstance(st, ast.Assign) and len(st.targets) == 1 and isinstance(st.targets[0], ast.Name) and isinstance(
                    st.value, (ast.Tuple, ast.List, ast.Set, ast.Constant)) and all(isinstance(e, ast.Constant) for e in getattr(st.value, "elts", [])):
                consts[st.targets[0].id] = st.value

    class T(ast.NodeTransformer):
        def visit_Name(self, node):
            if node.id in single and isinstance(node.ctx, ast.Load):
                return copy.deepcopy(single[node.id])
            return node

        def visit_Attribute(self, node):
            # a literal kept as a class attribute (`NUMBER_STRINGS = ("API", "UWI")`) is that literal
            if isinstance(node.value, ast.Name) and node.value.id in ("self", "cls") and node.attr in consts and isinstance(node.ctx, ast.Load):
                return copy.deepcopy(consts[node.attr])
            return self.generic_visit(node)
    out = t
    for _ in range(3):
        out = T().visit(copy.deepcopy(out))
    return ast.fix_missing_locations(out)


def rule_curve_raw(ctx):
    p = ctx.p
    r = get_resolver(p)
    # curves(): num unreachable
    fc = p.func(SP + ".curves")
    clos = r.closure([fc])
    ctx.check(SP + ".num" not in clos, "HDR.CURVE-RAW", fc.qual + "#no-conversion", fc, fc.node,
              "curves() cannot reach num(): ~Curves API codes stay verbatim",
              "curves() reaches SectionParser.num: ~Curves API codes are converted to numbers")
    # params(): unconditional num on the value, no route through metadata()
    fp = p.func(SP + ".params")
    kw = fp.node.args.kwarg.arg if fp.node.args.kwarg else "keys"
    cfgp = build_cfg(p, fp)
    cdp = ControlDependence(cfgp)
    calls = [s for s in walk_shallow(fp.node) if isinstance(s, ast.Call) and isinstance(s.func, ast.Attribute) and s.func.attr == "num"]
    problems = []
    if SP + ".metadata" in r.closure([fp]):
        problems.append("params() routes through metadata(): the API/UWI exemption leaks into ~Parameter")
    if not calls:
        problems.append("params() never converts the value")
    for c in calls:
        a0 = ast.unparse(c.args[0]) if c.args else ""
        if a0 not in ('%s["value"]' % kw, "%s['value']" % kw):
            problems.append("num() is applied to %s instead of the value field" % a0)
        for nid in cfgp.node_of_expr(c):
            if any(cfgp.nodes[tn].kind == "test" for (tn, lab) in cdp.transitive(nid)):
                problems.append("the conversion in params() is conditional: some ~Parameter values stay text")
    ctx.check(not problems, "HDR.CURVE-RAW", fp.qual + "#unconditional", fp, fp.node,
              "params() converts keys['value'] unconditionally and does not go through metadata()",
              "; ".join(problems))
    # metadata(): num applied to the value variable only (never to name/unit/descr)
    fm = p.func(SP + ".metadata")
    cfgm = build_cfg(p, fm)
    provm = Provenance(cfgm)
    kwm = fm.node.args.kwarg.arg if fm.node.args.kwarg else "keys"
    bad = []
    item_calls = [s for s in walk_shallow(fm.node) if isinstance(s, ast.Call) and isinstance(s.func, ast.Name) and s.func.id == "HeaderItem"]
    for s in walk_shallow(fm.node):
        if isinstance(s, ast.Call) and isinstance(s.func, ast.Attribute) and s.func.attr == "num" and s.args:
            nid = cfgm.node_of_expr(s)[0]
            subs = {a[1] for a in provm.atoms(s.args[0], nid) if a[0] == "subscript"}
            keys = set()
            for t in subs:
                for k in ("name", "unit", "value", "descr"):
                    if "'%s'" % k in t or '"%s"' % k in t:
                        keys.add(k)
            if keys - {"value", "descr"} or not keys:
                bad.append("num() in metadata() is applied to %s" % sorted(keys or subs))
    for ic in item_calls:
        nidc = cfgm.node_of_expr(ic)
        if nidc and len(ic.args) >= 4:
            va = {a[1] for a in provm.atoms(ic.args[2], nidc[0]) if a[0] == "callname"}
            da = {a[1] for a in provm.atoms(ic.args[3], nidc[0]) if a[0] == "callname"}
            if "num" in da:
                bad.append("the description handed to HeaderItem derives from num(): the conversion is applied before the "
                           "value/description order is resolved, so in a descr:value line the description is converted and "
                           "the real value stays text")
            if "num" not in va:
                bad.append("the value handed to HeaderItem does not pass through num()")
    for s_ in walk_shallow(fm.node):
        if isinstance(s_, ast.Assign) and isinstance(s_.targets[0], ast.Subscript) and isinstance(s_.targets[0].value, ast.Name) \
                and s_.targets[0].value.id == kwm:
            bad.append("`%s` rewrites a parsed field before the value/description order is resolved" % unparse(s_))
    for ic in item_calls:
        # the HeaderItem's value argument (3rd) is the converted variable; unit/name/descr are not converted
        for i, a in enumerate(ic.args):
            if i != 2 and any(isinstance(c, ast.Call) and isinstance(c.func, ast.Attribute) and c.func.attr == "num" for c in ast.walk(a)):
                bad.append("argument %d of HeaderItem(...) is converted with num()" % i)
    computed = [x for ic in item_calls for a in ic.args[2:4] for x in ast.walk(a)
                if isinstance(x, ast.Subscript) and isinstance(x.slice, ast.Name)] + [
        x for s in walk_shallow(fm.node) if isinstance(s, ast.Call) and isinstance(s.func, ast.Attribute) and s.func.attr == "num" and s.args
        for x in ast.walk(s.args[0]) if isinstance(x, ast.Subscript) and isinstance(x.slice, ast.Name)]
    if bad and computed:
        ctx.undecided("HDR.CURVE-RAW", fm.qual + "#value-only", fm, fm.node, "metadata() picks the value and the description by computed field "
                      "names (`%s`): which field num() converts is not decided in this form" % unparse(computed[0]))
        ctx.floor("HDR.CURVE-RAW", 2)
        return
    ctx.check(not bad, "HDR.CURVE-RAW", fm.qual + "#value-only", fm, fm.node,
              "in metadata() only the value field (per the value/descr order) is converted",
              "; ".join(bad))
    ctx.floor("HDR.CURVE-RAW", 3)


def rule_read_no_rewrite(ctx):
    """HDR.READ-NO-REWRITE: read() hands out the header items as the section parser built them: no function of the read
    family stores into .value / .unit / .descr / .mnemonic of an item of the section it has just parsed (e.g. turning
    `VERS. 2` into 2.0 gives the same text a different type depending on its mnemonic)"""
    from rules.common import read_family
    p = ctx.p
    n = 0
    for fi in read_family(p):
        if fi.name in ("update_start_stop_step", "update_units_from_index_curve", "update_curve", "set_data", "append_curve",
                       "insert_curve", "append_curve_item", "insert_curve_item", "replace_curve_item", "delete_curve", "__setitem__",
                       "__setattr__", "set_data_from_df", "stack_curves", "write", "to_csv", "to_excel"):
            continue
        stores = []
        for sub in walk_shallow(fi.node):
            if isinstance(sub, (ast.Assign, ast.AugAssign)):
                for t in (sub.targets if isinstance(sub, ast.Assign) else [sub.target]):
                    if isinstance(t, ast.Attribute) and t.attr in ("value", "unit", "descr", "mnemonic", "original_mnemonic") \
                            and not (isinstance(t.value, ast.Name) and t.value.id == "self"):
                        stores.append(sub)
        n += 1
        site = "%s#parsed-items" % fi.qual
        if stores:
            ctx.bad("HDR.READ-NO-REWRITE", site, fi, stores[0], "`%s` rewrites a field of a parsed header item during read(): the value "
                    "no longer is what the section parser made of the text (type or content depends on the mnemonic/section)"
                    % unparse(stores[0])[:90])
        else:
            ctx.ok("HDR.READ-NO-REWRITE", site, fi, fi.node, "no parsed item field is rewritten", nontrivial=fi.name == "read")
    ctx.floor("HDR.READ-NO-REWRITE", 1)


NUMLIT_PROBES = ["1", "-1", "+1", "0042", "1.5", ".5", "-.5", "+.5", "5.", "1e5", "1E-5", ".5e3", "2.5e+03", "12345678901234567890"]


def rule_numlit_complete(ctx):
    """HDR.NUMLIT (completeness): every plain decimal literal reaches the number conversion: no earlier `return` of
    SectionParser.num is taken for a probe literal (a "fast path" that looks at the first character only rejects `.5`), and
    the integer conversion is a bounded 64-bit one (np.int64) so that a literal too long for it falls through to float"""
    p = ctx.p
    fi = p.func(SP + ".num")
    x = fi.params()[1]
    env0 = module_env(p, fi.module.name)
    body = [s_ for s_ in fi.node.body if not (isinstance(s_, ast.Expr) and isinstance(s_.value, ast.Constant))]
    site = fi.qual + "#complete"
    early = []
    for st in body:
        if isinstance(st, ast.Try) and any(isinstance(c, ast.Call) and _ctor_name(c) in (INT_CTORS | FLOAT_CTORS) for c in ast.walk(st)):
            break
        if isinstance(st, ast.If) and any(isinstance(r_, ast.Return) for r_ in st.body) and not st.orelse:
            early.append(st)
    problems = []
    undec = []
    for st in early:
        for probe in NUMLIT_PROBES:
            def env(name, probe=probe):
                if name == x:
                    return probe
                return env0(name)
            try:
                taken = bool(fold(st.test, env))
            except NotConst as e:
                undec.append("%s (%s)" % (unparse(st.test)[:50], e))
                break
            if taken:
                problems.append("the decimal literal %r leaves num() through `if %s: return ...` before any conversion: it stays a "
                                "string although it is a numeric literal" % (probe, unparse(st.test)[:70]))
                break
    # bounded integer conversion
    for c in walk_shallow(fi.node):
        if isinstance(c, ast.Call) and isinstance(c.func, ast.Name) and c.func.id == "int" and c.args \
                and any(isinstance(n_, ast.Name) and n_.id == x for n_ in ast.walk(c.args[0])):
            par = getattr(c, "_parent", None)
            if isinstance(par, ast.Return) or isinstance(par, ast.Assign):
                problems.append("integers are converted with the unbounded `%s`: a literal beyond 64 bits no longer falls through to "
                                "the float conversion and comes back as an arbitrary-precision int" % unparse(c))
    if undec and not problems:
        ctx.undecided("HDR.NUMLIT", site, fi, fi.node, "an early-return test of num() is not foldable: %s" % undec[0])
    else:
        ctx.check(not problems, "HDR.NUMLIT", site, fi, fi.node, "no early return diverts a decimal literal (%d probes x %d early "
                  "returns); integers go through a bounded 64-bit conversion" % (len(NUMLIT_PROBES), len(early)),
                  "; ".join(dict.fromkeys(problems)))
