"""Rule group HDR grammar (C04, used by C03/C11): the header-line regexes as assembled per selector outcome.

HDR.GRAMMAR  path enumeration of configure_metadata_patterns over the outcomes of its tests (same test text => same
             truth value), constant propagation of the pattern strings, and comparison of every assembled pattern -
             as a canonical regex structure (character classes as sets over the probe alphabet, repeat bounds,
             greediness, look-around contents) - with the documented form for that outcome
HDR.SELECT   the selector tests are the documented ones (colon present; period in the text before the FIRST colon;
             '..' / non-blank+'..' in ~Curves before the LAST colon; ~Parameter => time-aware pattern first)
HDR.STRIP    read_header_line matches each pattern with re.match in order, takes the first hit, strips every group,
             and removes only leading/trailing dots from a unit that ends in '.'
"""
import ast

from sa.astutil import ordn
import itertools

from sa import AnalysisError, ShapeNotRecognised
from sa.astutil import unparse, in_block
from sa.consts import fold, NotConst
from sa.loader import walk_shallow
from sa import rx

CFG_FN = "reader.configure_metadata_patterns"

# documented components (the oracle); compared structurally, not textually
REF = {
    "name": r"\.?(?P<name>[^.]*)\.",
    "unit": r"(?P<unit>([0-9]+\s)?[^\s]*)",
    "value": r"(?P<value>.*):",
    "descr": r"(?P<descr>.*)",
    "name_nop": r"(?P<name>[^:]*):",
    "value_nop": r"(?P<value>.*)",
    "value_nocolon": r"(?P<value>[^:]*)",
    "value_time": r"(?P<value>.*?)(?:(?<!( [0-2][0-3]| hh| HH)):(?!([0-5][0-9]|mm|MM)))",
    "name_dots": r"\.?(?P<name>[^.].*[.])\.",
}


def _canon(pattern):
    try:
        tree = rx.parse(pattern)
        names = {v: k for k, v in tree.state.groupdict.items()}
        return rx.canonical(rx.flatten(list(tree)), names)
    except Exception as e:  # noqa
        raise AnalysisError("cannot parse assembled header pattern %r: %s" % (pattern, e))


def _norm_test(t):
    """canonical text of a test; `not (a in b)` -> `a not in b`"""
    if isinstance(t, ast.UnaryOp) and isinstance(t.op, ast.Not):
        inner = t.operand
        if isinstance(inner, ast.Compare) and len(inner.ops) == 1 and isinstance(inner.ops[0], ast.In):
            return ("not", ast.unparse(inner))
        k, txt = _norm_test(inner)
        return ("not" if k == "pos" else "pos", txt)
    if isinstance(t, ast.Compare) and len(t.ops) == 1 and isinstance(t.ops[0], ast.NotIn):
        c = ast.Compare(left=t.left, ops=[ast.In()], comparators=t.comparators)
        return ("not", ast.unparse(c))
    return ("pos", ast.unparse(t))


class _Enum(object):
    """enumerate the function's paths over test outcomes; string locals are constant-propagated"""

    def __init__(self, fi):
        self.fi = fi
        self.results = []      # (assignment dict test text->bool, list of patterns)

    def run(self):
        body = [s for s in self.fi.node.body if not (isinstance(s, ast.Expr) and isinstance(s.value, ast.Constant))]
        self._block(body, 0, {}, {}, None)
        return self.results

    def _eval_test(self, t, env, assign):
        """returns list of (truth, assign') alternatives"""
        if isinstance(t, ast.BoolOp):
            alts = [(None, assign)]
            vals = t.values
            out = []

            def rec(i, cur_assign):
                if i == len(vals):
                    out.append((isinstance(t.op, ast.And), cur_assign))
                    return
                for v, a2 in self._eval_test(vals[i], env, cur_assign):
                    if isinstance(t.op, ast.And) and not v:
                        out.append((False, a2))
                    elif isinstance(t.op, ast.Or) and v:
                        out.append((True, a2))
                    else:
                        rec(i + 1, a2)
            rec(0, assign)
            return out
        k, txt = _norm_test(t)
        if txt in assign:
            v = assign[txt]
            return [(v if k == "pos" else (not v), assign)]
        out = []
        for v in (True, False):
            a2 = dict(assign)
            a2[txt] = v
            out.append((v if k == "pos" else (not v), a2))
        return out

    def _block(self, stmts, i, env, assign, cont):
        if i == len(stmts):
            if cont is not None:
                cont(env, assign)
            return
        s = stmts[i]
        nxt = lambda e, a: self._block(stmts, i + 1, e, a, cont)
        if isinstance(s, ast.Assign) and len(s.targets) == 1 and isinstance(s.targets[0], ast.Name):
            e2 = dict(env)
            try:
                e2[s.targets[0].id] = fold(s.value, lambda n: e2[n] if n in e2 else (_ for _ in ()).throw(NotConst(n)))
            except (NotConst, KeyError):
                e2[s.targets[0].id] = ("opaque", ast.unparse(s.value))
            nxt(e2, assign)
        elif isinstance(s, ast.If):
            for v, a2 in self._eval_test(s.test, env, assign):
                branch = s.body if v else s.orelse
                self._block(list(branch), 0, env, a2, lambda e, a: self._block(stmts, i + 1, e, a, cont))
        elif isinstance(s, ast.Expr) and isinstance(s.value, ast.Call) and isinstance(s.value.func, ast.Attribute) \
                and s.value.func.attr in ("append", "insert") and isinstance(s.value.func.value, ast.Name):
            lst = s.value.func.value.id
            e2 = dict(env)
            cur = list(e2.get(lst, []))
            try:
                args = [fold(a, lambda n: e2[n] if n in e2 else (_ for _ in ()).throw(NotConst(n))) for a in s.value.args]
            except (NotConst, KeyError) as ex:
                raise AnalysisError("configure_metadata_patterns: cannot fold appended pattern `%s` (%s)" % (unparse(s.value), ex))
            if any(isinstance(a, tuple) and a and a[0] == "opaque" for a in args):
                raise AnalysisError("configure_metadata_patterns: appended pattern depends on `%s`" % (args,))
            if s.value.func.attr == "append":
                cur.append(args[0])
            else:
                cur.insert(args[0], args[1])
            e2[lst] = cur
            nxt(e2, assign)
        elif isinstance(s, ast.Return):
            try:
                val = fold(s.value, lambda n: env[n] if n in env else (_ for _ in ()).throw(NotConst(n)))
            except (NotConst, KeyError) as ex:
                raise ShapeNotRecognised("configure_metadata_patterns builds its result in a form the path enumeration cannot fold (%s): "
                                         "the generated grammar is not decided" % ex)
            self.results.append((dict(assign), list(val)))
        elif isinstance(s, (ast.Expr, ast.Pass)):
            nxt(env, assign)
        else:
            raise AnalysisError("configure_metadata_patterns: statement kind %s not modelled (line %d)" % (
                type(s).__name__, s.lineno))


def _classify(assign, inline):
    """map an assignment of test outcomes to the documented situation"""
    def get(pred):
        for txt, v in assign.items():
            if pred(inline(txt)):
                return v
        return None
    colon = get(lambda t: t == "':' in line")
    period_before = get(lambda t: t.startswith("'.' in line[:"))
    curves = get(lambda t: t == "section_name == 'Curves'")
    param = get(lambda t: t == "section_name == 'Parameter'")
    dd_nocolon = get(lambda t: t == "'..' in line")
    dd_search = get(lambda t: t.startswith("re.search(") and "line" in t)
    dd_before = get(lambda t: "<" in t and "find" in t)
    return colon, period_before, curves, param, dd_nocolon, dd_search, dd_before


def rule_grammar(ctx):
    p = ctx.p
    fi = p.func(CFG_FN)
    results = _Enum(fi).run()
    if len(results) < 4:
        raise AnalysisError("only %d paths enumerated through configure_metadata_patterns" % len(results))
    ctx.stat("grammar_paths", len(results))
    defs = {}
    for s in walk_shallow(fi.node):
        if isinstance(s, ast.Assign) and len(s.targets) == 1 and isinstance(s.targets[0], ast.Name):
            defs.setdefault(s.targets[0].id, []).append(s.value)

    def inline(txt):
        # substitute single-definition locals (double_dot, desc_colon) by their defining expressions
        try:
            e = ast.parse(txt, mode="eval").body
        except SyntaxError:
            return txt

        class T(ast.NodeTransformer):
            def visit_Name(self, node):
                if node.id in defs and len(defs[node.id]) == 1 and node.id not in ("line", "section_name"):
                    v = defs[node.id][0]
                    if isinstance(v, (ast.Call, ast.Compare)):
                        return v
                return node
        return ast.unparse(T().visit(e))

    seen_forms = {}
    for assign, patterns in results:
        colon, period_before, curves, param, dd_nocolon, dd_search, dd_before = _classify(assign, inline)
        if colon is None:
            raise AnalysisError("cannot find the `':' in line` selector among the tests %s" % sorted(assign))
        # expected component sequence
        if colon and period_before is False:
            if bool(dd_search) and bool(curves) and bool(dd_before):
                # a ~Curves line with no period before its first colon but a '..' later on: no documented form covers
                # it (the property speaks of lines *without* a period), so it is not judged
                ctx.note("HDR.GRAMMAR: combination no-period-before-colon + '..' in ~Curves is outside the documented forms; not judged")
                continue
            form = "no-period"
            comps = ["name_nop", "value_nop"]
            first = ["name_nop", "value_nop"]
        else:
            dots = False
            if not colon:
                form = "no-colon"
                dots = bool(dd_nocolon) and bool(curves)
                comps = ["name_dots" if dots else "name", "unit", "value_nocolon"]
                first = ["name_dots" if dots else "name", "unit", "value_time"]
            else:
                form = "standard"
                dots = bool(dd_search) and bool(curves) and bool(dd_before)
                comps = ["name_dots" if dots else "name", "unit", "value", "descr"]
                first = ["name_dots" if dots else "name", "unit", "value_time", "descr"]
            if dots:
                form += "+curve-dots"
        expected = []
        if param:
            expected.append("".join(REF[c] for c in first))
            form += "+parameter"
        expected.append("".join(REF[c] for c in comps))
        key = (form,)
        site = "%s#%s" % (CFG_FN, form)
        got_c = [_canon(x) for x in patterns]
        exp_c = [_canon(x) for x in expected]
        if got_c == exp_c:
            if key not in seen_forms:
                seen_forms[key] = True
                ctx.ok("HDR.GRAMMAR", site, fi, fi.node, "form %s: %d assembled pattern(s) equal the documented form "
                       "structurally (e.g. %r)" % (form, len(patterns), patterns[-1]))
        else:
            why = _explain(patterns, expected, got_c, exp_c)
            ctx.bad("HDR.GRAMMAR", site, fi, fi.node, "for a header line of form %s (tests: %s) the assembled pattern list "
                    "differs from the documented grammar: %s" % (form, {inline(k): v for k, v in assign.items()}, why))
    ctx.floor("HDR.GRAMMAR", 5)


def _explain(patterns, expected, got_c, exp_c):
    if len(patterns) != len(expected):
        return "%d pattern(s) are tried, %d expected (%r vs %r)" % (len(patterns), len(expected), patterns, expected)
    for i, (g, e) in enumerate(zip(got_c, exp_c)):
        if g != e:
            # find the first differing element
            for j, (a, b) in enumerate(zip(g, e)):
                if a != b:
                    return "pattern %d is %r; element %d is %s where the documented form has %s (documented: %r)" % (
                        i + 1, patterns[i], j, _el(a), _el(b), expected[i])
            return "pattern %d is %r, documented %r (different length)" % (i + 1, patterns[i], expected[i])
    return "order differs"


def _el(a):
    if a[0] == "chars":
        return "class %s repeat {%s,%s} %s" % (rx.describe_set(set(a[1])), a[2], a[3], "greedy" if a[4] else "lazy")
    return repr(a)[:120]


EXPECTED_TESTS = {
    "':' in line",
    "'.' in line[:line.find(':')]",
    "'..' in line",
    "section_name == 'Curves'",
    "re.search('[^ ]\\\\.\\\\.', line)",
    "line.find('..') < line.rfind(':')",
    "section_name == 'Parameter'",
}


def rule_select(ctx):
    p = ctx.p
    fi = p.func(CFG_FN)
    defs = {}
    for s in walk_shallow(fi.node):
        if isinstance(s, ast.Assign) and len(s.targets) == 1 and isinstance(s.targets[0], ast.Name):
            defs.setdefault(s.targets[0].id, []).append(s.value)

    class T(ast.NodeTransformer):
        def visit_Name(self, node):
            if node.id in defs and len(defs[node.id]) == 1 and node.id not in ("line", "section_name") and isinstance(defs[node.id][0], (ast.Call, ast.Compare)):
                return defs[node.id][0]
            return node
    got = {}
    for s in walk_shallow(fi.node):
        if isinstance(s, ast.If):
            for atom in _atoms(s.test):
                k, txt = _norm_test(atom)
                e = ast.parse(txt, mode="eval").body
                txt2 = ast.unparse(T().visit(e))
                got[txt2] = atom
    missing = EXPECTED_TESTS - set(got)
    extra = set(got) - EXPECTED_TESTS
    site = CFG_FN + "#selectors"
    appends0 = [s for s in walk_shallow(fi.node) if isinstance(s, ast.Expr) and isinstance(s.value, ast.Call)
                and isinstance(s.value.func, ast.Attribute) and s.value.func.attr == "append"]
    if not appends0:
        # the pattern list is not assembled by appends any more (a comprehension over alternatives, a table ...): the selector
        # census and the order clause are written against the append form
        ctx.undecided("HDR.SELECT", site, fi, fi.node, "configure_metadata_patterns does not assemble its patterns by list appends: the "
                      "special-case selectors and their order are not decided in this form")
        ctx.floor("HDR.SELECT", 0)
        return
    problems = []
    for m in sorted(missing):
        near = [g for g in extra if g.split("(")[0][:12] == m.split("(")[0][:12] or ("find" in g and "find" in m)]
        problems.append("documented selector `%s` is missing%s" % (m, (" (found `%s` instead)" % near[0]) if near else ""))
    for x in sorted(extra):
        if not any(x in pr for pr in problems):
            problems.append("undocumented selector `%s`" % x)
    ctx.check(not problems, "HDR.SELECT", site, fi, fi.node,
              "the special-case selectors are exactly the documented ones (%d tests)" % len(got),
              "; ".join(problems))
    # the time-aware pattern is appended before the regular one
    appends = [s for s in walk_shallow(fi.node) if isinstance(s, ast.Expr) and isinstance(s.value, ast.Call)
               and isinstance(s.value.func, ast.Attribute) and s.value.func.attr == "append"]
    ctx.check(len(appends) == 2 and ordn(appends[0]) < ordn(appends[1]), "HDR.SELECT", CFG_FN + "#order", fi, fi.node,
              "two appends: the ~Parameter time-aware pattern first, the regular pattern second",
              "expected two pattern appends (time-aware first), found %d" % len(appends))
    ctx.floor("HDR.SELECT", 2)


def _atoms(t):
    if isinstance(t, ast.BoolOp):
        out = []
        for v in t.values:
            out += _atoms(v)
        return out
    return [t]


def rule_strip(ctx):
    p = ctx.p
    fi = p.func("reader.read_header_line")
    site = fi.qual
    problems = []
    # match loop
    loops = [s for s in walk_shallow(fi.node) if isinstance(s, ast.For)]
    mloop = None
    for l in loops:
        if any(isinstance(c, ast.Call) and ast.unparse(c.func) in ("re.match",) for c in ast.walk(l)):
            mloop = l
    lazy_first = None
    if mloop is None:
        # m = next((a for a in (re.match(c, line) for c in patterns) if a is not None), None): first hit wins by construction
        gens = [g for g in ast.walk(fi.node) if isinstance(g, (ast.GeneratorExp, ast.ListComp)) and len(g.generators) == 1
                and isinstance(g.elt, ast.Call) and ast.unparse(g.elt.func) == "re.match"]
        nexts = [c for c in ast.walk(fi.node) if isinstance(c, ast.Call) and isinstance(c.func, ast.Name) and c.func.id == "next"]
        if gens and nexts:
            g = gens[0]
            call = g.elt
            tgt = g.generators[0].target
            if not (len(call.args) == 2 and not call.keywords and isinstance(tgt, ast.Name) and ast.unparse(call.args[0]) == tgt.id
                    and ast.unparse(call.args[1]) == fi.params()[0]):
                problems.append("re.match is not applied as re.match(<pattern>, <line>)")
            if not isinstance(g.generators[0].iter, ast.Name) or g.generators[0].ifs:
                problems.append("patterns are tried in the order `%s`" % unparse(g.generators[0].iter))
            lazy_first = g
    if mloop is None and lazy_first is None:
        calls = [ast.unparse(c.func) for c in walk_shallow(fi.node) if isinstance(c, ast.Call) and ast.unparse(c.func).startswith("re.")]
        problems.append("patterns are not applied with re.match in a loop (found %s): re.search/fullmatch change which "
                        "lines parse and where the name starts" % calls)
    elif mloop is not None:
        call = [c for c in ast.walk(mloop) if isinstance(c, ast.Call) and ast.unparse(c.func) == "re.match"][0]
        if not (len(call.args) >= 2 and isinstance(mloop.target, ast.Name) and ast.unparse(call.args[0]) == mloop.target.id
                and ast.unparse(call.args[1]) == fi.params()[0]):
            problems.append("re.match is not applied as re.match(<pattern>, <line>)")
        if len(call.args) > 2 or call.keywords:
            problems.append("re.match is given flags (%s)" % unparse(call))
        brk = [s for s in ast.walk(mloop) if isinstance(s, ast.Break)]
        if not brk:
            problems.append("the first matching pattern does not stop the search: a later, looser pattern overrides it")
        if not (isinstance(mloop.iter, ast.Name)):
            problems.append("patterns are tried in the order `%s`" % unparse(mloop.iter))
    # group post-processing
    gl = None
    for l in loops:
        if "items()" in ast.unparse(l.iter) or "groupdict" in ast.unparse(l.iter):
            gl = l
    delegated = None
    hoisted = []
    if gl is None:
        # the groups are handed to something else (a table of per-field functions, a helper): not the recognised loop
        handed = [c for c in ast.walk(fi.node) if isinstance(c, ast.Call) and "groupdict" in ast.unparse(c)
                  and not (isinstance(c.func, ast.Attribute) and c.func.attr == "groupdict")]
        comps = [c for c in ast.walk(fi.node) if isinstance(c, (ast.DictComp, ast.ListComp, ast.GeneratorExp)) and any(
            "items()" in ast.unparse(g.iter) or "groupdict" in ast.unparse(g.iter) for g in c.generators)]
        if handed or comps:
            delegated = "the matched groups are post-processed by `%s`, not by a loop over the groups in read_header_line" % unparse(
                (comps or handed)[0])[:90]
        else:
            problems.append("no loop over the matched groups")
    else:
        kv = gl.target
        valname = kv.elts[1].id if isinstance(kv, ast.Tuple) and len(kv.elts) == 2 and isinstance(kv.elts[1], ast.Name) else None
        stores = [s for s in ast.walk(gl) if isinstance(s, ast.Assign) and (isinstance(s.targets[0], ast.Subscript) or (
            isinstance(s.targets[0], ast.Name) and s.targets[0].id == valname))]
        # when the value variable is rewritten in place, it must be what is finally stored
        if any(isinstance(s.targets[0], ast.Name) for s in stores):
            final = [s for s in stores if isinstance(s.targets[0], ast.Subscript)]
            if not final or not all(isinstance(s.value, ast.Name) and s.value.id == valname for s in final):
                problems.append("the processed group value is not what is stored")
            stores = [s for s in stores if isinstance(s.targets[0], ast.Name)]
        strip_ok = False
        unit_ok = False
        for s in stores:
            v = s.value
            if isinstance(v, ast.Call) and isinstance(v.func, ast.Attribute) and v.func.attr == "strip":
                if not v.args:
                    strip_ok = True
                    if isinstance(kv, ast.Tuple) and not (isinstance(v.func.value, ast.Name) and v.func.value.id == kv.elts[1].id):
                        problems.append("`%s` does not strip the matched group value" % unparse(s))
                elif isinstance(v.args[0], ast.Constant) and v.args[0].value == ".":
                    # unit rule: guarded by key == 'unit' and endswith('.')
                    guards = []
                    cur = s
                    par = getattr(cur, "_parent", None)
                    while par is not None and par is not gl:
                        if isinstance(par, ast.If):
                            guards.append(ast.unparse(par.test))
                        par = getattr(par, "_parent", None)
                    if any("'unit'" in g and "==" in g for g in guards) and any("endswith('.')" in g for g in guards):
                        unit_ok = True
                    else:
                        problems.append("dots are stripped under %s; only a unit that ends in '.' may lose its "
                                        "leading/trailing dots" % (guards or "no guard"))
                else:
                    problems.append("`%s` strips other characters than blanks" % unparse(s))
            elif isinstance(v, ast.Call) and isinstance(v.func, ast.Attribute) and v.func.attr in ("lstrip", "rstrip", "replace", "upper", "lower"):
                problems.append("group post-processing `%s` is not the documented strip" % unparse(s))
        # the unit rule may be hoisted behind the loop: `if d["unit"].endswith("."): d["unit"] = d["unit"].strip(".")`
        hoisted = []
        for s_ in walk_shallow(fi.node):
            if isinstance(s_, ast.If) and not in_block(s_, [gl]) and ordn(s_) > ordn(gl) and not s_.orelse and len(s_.body) == 1 \
                    and isinstance(s_.body[0], ast.Assign) and len(s_.body[0].targets) == 1:
                t_, v_ = s_.body[0].targets[0], s_.body[0].value
                if isinstance(t_, ast.Subscript) and isinstance(t_.slice, ast.Constant) and t_.slice.value == "unit" \
                        and isinstance(v_, ast.Call) and isinstance(v_.func, ast.Attribute) and v_.func.attr == "strip" and len(v_.args) == 1 \
                        and isinstance(v_.args[0], ast.Constant) and v_.args[0].value == "." and ast.unparse(v_.func.value) == ast.unparse(t_):
                    if ast.unparse(s_.test) == "%s.endswith('.')" % ast.unparse(t_):
                        unit_ok = True
                        hoisted.append(s_.body[0])
                    else:
                        problems.append("dots are stripped from the unit under `%s`; only a unit that ends in '.' may lose its leading/"
                                        "trailing dots" % unparse(s_.test))
                        hoisted.append(s_.body[0])
        if not strip_ok:
            problems.append("matched groups are not stripped of surrounding whitespace")
        if not unit_ok and not any("dots are stripped" in x for x in problems):
            problems.append("the trailing-dot rule for units (issue #36) is missing")
    # nothing rewrites a field after the groups were taken over
    if gl is not None:
        for s_ in walk_shallow(fi.node):
            if isinstance(s_, (ast.Assign, ast.AugAssign)) and not in_block(s_, [gl]) and ordn(s_) > ordn(gl) and not any(s_ is h_ for h_ in hoisted):
                for t in (s_.targets if isinstance(s_, ast.Assign) else [s_.target]):
                    if isinstance(t, ast.Subscript) and isinstance(t.slice, ast.Constant) and t.slice.value in ("name", "unit", "value", "descr"):
                        problems.append("the field %r is rewritten after matching (`%s`): the text of a header line is no longer handed on "
                                        "as written" % (t.slice.value, unparse(s_)[:70]))
    if delegated and not problems:
        ctx.undecided("HDR.STRIP", site, fi, fi.node, delegated)
        ctx.floor("HDR.STRIP", 0)
        return
    ctx.check(not problems, "HDR.STRIP", site, fi, fi.node,
              "patterns tried in order with re.match, first hit wins; every group is strip()ped; a unit ending in '.' "
              "loses only leading/trailing dots", "; ".join(dict.fromkeys(problems)))
    ctx.floor("HDR.STRIP", 1)
