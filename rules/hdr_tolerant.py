"""Rule group HDR (C19): header parsing under ignore_header_errors is total and non-interfering.

HDR.CATCHALL   the raw-line parse call sits in a try with a catch-all handler; with the flag the handler never
               raises/breaks/continues/returns, without it it raises LASHeaderError built from the line; the parsed
               values of a failed line can never be used (no stale reuse from the previous line)
HDR.TOTAL      no partial operation on line-derived data outside a catch-all try, in the per-line region and in
               every lasio function it reaches; constant keys read from the parsed-line dict exist in the producer
HDR.STEER-LOOKUP  the post-section VERS/WRAP/NULL/DLM lookups are membership-guarded
"""
import ast

from sa.astutil import ordn

from sa import AnalysisError, ShapeNotRecognised
from sa.astutil import parents, protecting_try, in_block, unparse, enclosing
from sa.cfg import build_cfg, is_catch_all, is_exc_label
from sa.dataflow import ReachingDefs, Provenance, ControlDependence, target_names
from sa.loader import walk_shallow, walk_expr_shallow
from sa.resolve import get_resolver

PARSE_FUNCS = ("reader.read_line", "reader.read_header_line")
SECTION_FN = "reader.parse_header_items_section"
NUMBER_CTORS = {"int", "float", "complex", "int64", "float64", "int32", "float32", "int_", "float_", "double",
                "longdouble", "Decimal", "Fraction"}
PARTIAL_METHODS = {"index", "groupdict", "group", "groups", "remove", "popitem"}
PARTIAL_BUILTINS = {"next", "min", "max"}


def _line_loop(p):
    fi = p.func(SECTION_FN)
    r = get_resolver(p)
    loops = []
    for sub in walk_shallow(fi.node):
        if isinstance(sub, ast.For):
            calls = [c for c in ast.walk(sub) if isinstance(c, ast.Call)
                     and any(t.qual in PARSE_FUNCS for t in r.callees(fi, c)[0])]
            if calls:
                loops.append((sub, calls))
    if not loops:
        moved = [f.qual for q2, f in sorted(r.closure([fi]).items()) if f is not fi and not isinstance(f.node, ast.Lambda) and any(
            isinstance(x, ast.For) and any(isinstance(c, ast.Call) and any(t.qual in PARSE_FUNCS for t in r.callees(f, c)[0]) for c in ast.walk(x))
            for x in walk_shallow(f.node))]
        if moved:
            raise ShapeNotRecognised("the loop that parses the header lines is no longer in %s itself but in %s: the error-handling "
                                     "clauses are not decided across that structure" % (SECTION_FN, ", ".join(moved)))
        raise AnalysisError("no loop calling read_line/read_header_line found in %s" % SECTION_FN)
    # innermost loop containing the call
    loops.sort(key=lambda lc: -ordn(lc[0]))
    return fi, loops[0][0], loops[0][1]


def _flag_param(fi):
    for name in fi.params():
        if "ignore" in name and "error" in name:
            return name
    raise AnalysisError("parameter ignore_header_errors not found on %s" % fi.qual)


def _test_polarity(test, flag):
    """+1 if test is true exactly when flag is true, -1 if the opposite, None otherwise"""
    if isinstance(test, ast.Name) and test.id == flag:
        return 1
    if isinstance(test, ast.UnaryOp) and isinstance(test.op, ast.Not):
        v = _test_polarity(test.operand, flag)
        return None if v is None else -v
    if isinstance(test, ast.Compare) and len(test.ops) == 1 and isinstance(test.left, ast.Name) and test.left.id == flag:
        c = test.comparators[0]
        if isinstance(c, ast.Constant) and isinstance(c.value, bool):
            pos = isinstance(test.ops[0], (ast.Is, ast.Eq))
            neg = isinstance(test.ops[0], (ast.IsNot, ast.NotEq))
            if pos or neg:
                v = 1 if c.value else -1
                return v if pos else -v
    return None


def rule_catchall(ctx):
    p = ctx.p
    fi, loop, calls = _line_loop(p)
    cfg = build_cfg(p, fi)
    flag = _flag_param(fi)
    cd = ControlDependence(cfg)
    for call in calls:
        site = "%s#parse-call" % fi.qual
        tr = protecting_try(call, stop_at=loop, accept=("all", "exception"))
        if tr is None:
            ctx.bad("HDR.CATCHALL", site, fi, call,
                    "the call %s that parses a raw header line is not inside a try with a catch-all handler: an "
                    "unparsable line raises whatever the regex code raises, even with %s=True" % (unparse(call), flag))
            continue
        ctx.ok("HDR.CATCHALL", site, fi, call, "parse call is inside try/except with a catch-all handler")
        handlers = [h for h in tr.handlers if is_catch_all(h) in ("all", "exception")]
        h = handlers[0]
        # 1. handler: no break/continue/return; raises only when the flag is off; raise is LASHeaderError(line...)
        site_h = "%s#handler" % fi.qual
        jumps = [s for s in ast.walk(h) if isinstance(s, (ast.Break, ast.Continue, ast.Return))]
        if jumps:
            ctx.bad("HDR.CATCHALL", site_h, fi, jumps[0],
                    "the error handler leaves the per-line flow with `%s`: after an unparsable line the rest of the "
                    "section is dropped or the end-of-section test is skipped" % unparse(jumps[0]))
        else:
            ctx.ok("HDR.CATCHALL", site_h, fi, h, "handler contains no break/continue/return")
        raises = [s for s in ast.walk(h) if isinstance(s, ast.Raise)]
        prov = Provenance(cfg)
        ok_raise = False
        for rs in raises:
            nids = cfg.nodes_for(rs)
            guarded = False
            for nid in nids:
                for (tn, lab) in cd.transitive(nid):
                    pol = _test_polarity(cfg.nodes[tn].ast, flag) if cfg.nodes[tn].kind == "test" else None
                    if pol is not None and ((pol == 1 and lab.startswith("false")) or (pol == -1 and lab.startswith("true"))):
                        guarded = True
            site_r = "%s#handler-raise" % fi.qual
            if not guarded:
                ctx.bad("HDR.CATCHALL", site_r, fi, rs,
                        "`%s` in the error handler is not confined to %s being false: a junk line can raise even "
                        "though errors are to be ignored" % (unparse(rs), flag))
                continue
            exc = rs.exc
            good_type = exc is not None and "LASHeaderError" in ast.unparse(exc)
            derives = False
            if exc is not None and nids:
                atoms = prov.atoms(exc, nids[0])
                derives = ("iter",) in atoms
            if good_type and derives:
                ok_raise = True
                ctx.ok("HDR.CATCHALL", site_r, fi, rs, "raise is confined to the flag being off, raises LASHeaderError "
                       "and its message derives from the line in hand")
            elif exc is None:
                ctx.bad("HDR.CATCHALL", site_r, fi, rs, "bare re-raise: without the flag the caller sees the internal "
                        "exception (e.g. AttributeError) instead of LASHeaderError naming the line")
            else:
                ctx.bad("HDR.CATCHALL", site_r, fi, rs, "without the flag the handler must raise LASHeaderError whose "
                        "message derives from the offending line; found `%s`" % unparse(rs))
        if not raises:
            ctx.bad("HDR.CATCHALL", "%s#handler-raise" % fi.qual, fi, h,
                    "the handler never raises: without %s malformed lines are silently skipped instead of "
                    "raising LASHeaderError" % flag)
        # 2. no stale reuse of the parsed values: every use of the variable bound by the parse call that is
        #    reachable from the handler must first pass the parse statement again
        st = enclosing(call, (ast.Assign,))
        if st is not None:
            tnames = []
            for t in st.targets:
                tnames += target_names(t)
            parse_nodes = cfg.nodes_for(st)
            hn = cfg.nodes_for(h)
            for v in tnames:
                uses = []
                for node in cfg.nodes:
                    if node.ast is None or node.id in parse_nodes or node.kind in ("entry", "dispatch", "handler"):
                        continue
                    src = node.ast
                    if node.kind == "for-iter":
                        src = node.ast.iter
                    elif node.kind in ("with-enter", "with-exit"):
                        continue
                    if any(isinstance(s, ast.Name) and s.id == v and isinstance(s.ctx, ast.Load)
                           for s in walk_expr_shallow(src)):
                        uses.append(node.id)
                bad_path = None
                for hnid in hn:
                    pth = cfg.find_path(hnid, uses, avoid=parse_nodes, skip_labels=())
                    if pth:
                        bad_path = pth
                        break
                site_v = "%s#stale(%s)" % (fi.qual, v)
                if bad_path:
                    ctx.bad("HDR.CATCHALL", site_v, fi, cfg.nodes[bad_path[-1]].ast,
                            "after a line failed to parse, `%s` (the values of an earlier line) can still be used "
                            "without being re-assigned: a junk line re-emits or alters a genuine item" % v,
                            cfg.describe_path(bad_path))
                else:
                    ctx.ok("HDR.CATCHALL", site_v, fi, st, "`%s` is only used on paths on which the parse call of the "
                           "same line succeeded" % v)
    ctx.floor("HDR.CATCHALL", 1)


# ---------------------------------------------------------------------------------------------------

def _producer_keys(p):
    """keys of the dict literal returned by read_header_line"""
    fi = p.func("reader.read_header_line")
    keys = None
    rets = [s for s in walk_shallow(fi.node) if isinstance(s, ast.Return) and s.value is not None]

    def dict_keys(v, depth=0):
        if isinstance(v, ast.Dict) and all(isinstance(k, ast.Constant) for k in v.keys):
            return {k.value for k in v.keys}
        if depth > 3:
            return None
        if isinstance(v, ast.Call):
            f = v.func
            if isinstance(f, ast.Name) and f.id in ("dict", "OrderedDict") and len(v.args) == 1:
                return dict_keys(v.args[0], depth + 1)
            if isinstance(f, ast.Attribute) and f.attr == "copy" and not v.args:
                return dict_keys(f.value, depth + 1)
            if isinstance(f, ast.Attribute) and f.attr == "fromkeys" and isinstance(f.value, ast.Name) and f.value.id in ("dict", "OrderedDict") \
                    and v.args and isinstance(v.args[0], (ast.Tuple, ast.List)) and all(
                        isinstance(e, ast.Constant) and isinstance(e.value, str) for e in v.args[0].elts):
                return {e.value for e in v.args[0].elts}      # dict.fromkeys(("name", ..), fill)
            if isinstance(f, ast.Name) and f.id == "deepcopy" and v.args:
                return dict_keys(v.args[0], depth + 1)
        if isinstance(v, ast.Name) and v.id in fi.module.globals:
            out = None
            for gv in fi.module.globals[v.id]:
                ks = dict_keys(gv, depth + 1)
                if ks is None:
                    return None
                out = ks if out is None else (out & ks)
            return out
        return None

    for rt in rets:
        if isinstance(rt.value, ast.Name):
            assigned = False
            for s in walk_shallow(fi.node):
                if isinstance(s, ast.Assign) and any(isinstance(t, ast.Name) and t.id == rt.value.id for t in s.targets):
                    assigned = True
                    ks = dict_keys(s.value)
                    if ks is not None:
                        keys = ks if keys is None else (keys & ks)
            if not assigned:
                ks = dict_keys(rt.value)
                if ks is not None:
                    keys = ks if keys is None else (keys & ks)
        elif isinstance(rt.value, ast.Dict) and all(isinstance(k, ast.Constant) for k in rt.value.keys):
            ks = {k.value for k in rt.value.keys}
            keys = ks if keys is None else (keys & ks)
    if keys is None:
        raise AnalysisError("cannot determine the keys of the dict returned by reader.read_header_line")
    return fi, keys


def _nonempty_guard(node, target_text):
    """is `node` lexically guarded by a test implying len(<target_text>) >= 1 (>= need handled by caller)?"""
    cur = node
    for par in parents(node):
        if isinstance(par, (ast.FunctionDef, ast.Lambda)):
            break
        if isinstance(par, ast.If):
            inbody = in_block(cur, par.body)
            m = _len_bound(par.test, target_text)
            if inbody and m is not None and m >= 1:
                return m
            if not inbody and in_block(cur, par.orelse):
                m2 = _empty_test(par.test, target_text)
                if m2:
                    return 1
        if isinstance(par, ast.IfExp):
            if cur is par.body:
                m = _len_bound(par.test, target_text)
                if m is not None and m >= 1:
                    return m
        if isinstance(par, ast.BoolOp) and isinstance(par.op, ast.And):
            idx = [i for i, v in enumerate(par.values) if v is cur or any(s is cur for s in ast.walk(v))]
            if idx:
                for v in par.values[: idx[0]]:
                    m = _len_bound(v, target_text)
                    if m is not None and m >= 1:
                        return m
        cur = par
    return 0


def _len_bound(test, tt):
    """minimum length of tt implied by test being true, or None"""
    if isinstance(test, ast.BoolOp) and isinstance(test.op, ast.And):
        best = None
        for v in test.values:
            m = _len_bound(v, tt)
            if m is not None:
                best = m if best is None else max(best, m)
        return best
    if isinstance(test, ast.Name) or isinstance(test, ast.Attribute):
        return 1 if ast.unparse(test) == tt else None
    if isinstance(test, ast.Call) and isinstance(test.func, ast.Name) and test.func.id == "len" and test.args:
        return 1 if ast.unparse(test.args[0]) == tt else None
    if isinstance(test, ast.Compare) and len(test.ops) == 1:
        l, op, r = test.left, test.ops[0], test.comparators[0]
        if (isinstance(l, ast.Call) and isinstance(l.func, ast.Name) and l.func.id == "len" and l.args
                and ast.unparse(l.args[0]) == tt and isinstance(r, ast.Constant) and isinstance(r.value, int)):
            if isinstance(op, ast.GtE):
                return r.value
            if isinstance(op, ast.Gt):
                return r.value + 1
            if isinstance(op, ast.Eq):
                return r.value
            if isinstance(op, ast.NotEq) and r.value == 0:
                return 1
    return None


def _empty_test(test, tt):
    """test is true exactly when tt is empty (so the else branch has it non-empty)"""
    if isinstance(test, ast.UnaryOp) and isinstance(test.op, ast.Not):
        return ast.unparse(test.operand) == tt or (
            isinstance(test.operand, ast.Call) and isinstance(test.operand.func, ast.Name)
            and test.operand.func.id == "len" and test.operand.args and ast.unparse(test.operand.args[0]) == tt)
    if isinstance(test, ast.Compare) and len(test.ops) == 1 and isinstance(test.ops[0], ast.Eq):
        l, r = test.left, test.comparators[0]
        if (isinstance(l, ast.Call) and isinstance(l.func, ast.Name) and l.func.id == "len" and l.args
                and ast.unparse(l.args[0]) == tt and isinstance(r, ast.Constant) and r.value == 0):
            return True
        if ast.unparse(l) == tt and isinstance(r, ast.Constant) and r.value == "":
            return True
    return False


def _tuple_result_len(fi, sub):
    """`r = self._helper(...)` ... `if r is not None: r[k]` where every return of the helper (a method of the same class
    or a function of the same module) is a tuple display or None: the guaranteed tuple length under the None guard"""
    if not isinstance(sub.value, ast.Name):
        return 0
    nm = sub.value.id
    defs = [s_ for s_ in walk_shallow(fi.node) if isinstance(s_, ast.Assign) and any(isinstance(t, ast.Name) and t.id == nm for t in s_.targets)]
    if len(defs) != 1 or not isinstance(defs[0].value, ast.Call):
        return 0
    f = defs[0].value.func
    target = None
    if isinstance(f, ast.Attribute) and isinstance(f.value, ast.Name) and f.value.id == "self" and fi.cls is not None:
        target = fi.cls.find_method(f.attr)
    elif isinstance(f, ast.Name):
        target = fi.module.functions.get(f.id)
    if target is None:
        return 0
    rets = [r_ for r_ in walk_shallow(target.node) if isinstance(r_, ast.Return)]
    if not rets:
        return 0
    n = None
    may_none = False
    for r_ in rets:
        if r_.value is None or (isinstance(r_.value, ast.Constant) and r_.value.value is None):
            may_none = True
        elif isinstance(r_.value, ast.Tuple):
            n = len(r_.value.elts) if n is None else min(n, len(r_.value.elts))
        else:
            return 0
    if n is None:
        return 0
    if may_none:
        guarded = False
        cur = getattr(sub, "_parent", None)
        child = sub
        while cur is not None and cur is not fi.node:
            if isinstance(cur, ast.If) and child in cur.body and ast.unparse(cur.test) in ("%s is not None" % nm, nm):
                guarded = True
            child, cur = cur, getattr(cur, "_parent", None)
        if not guarded:
            return 0
    return n


def _needed_len(idx):
    return idx + 1 if idx >= 0 else -idx


def _literal_guarded(fi, call):
    """the text handed to the constructor passed `<regex>.fullmatch(text)` on the way: a guard clause `if not R.fullmatch(t): return/
    raise-free exit` earlier in the function body, or an enclosing `if R.fullmatch(t):` - a recognised literal converts without raising"""
    arg = ast.unparse(call.args[0])

    def is_fm(e, positive):
        neg = False
        while isinstance(e, ast.UnaryOp) and isinstance(e.op, ast.Not):
            e, neg = e.operand, not neg
        return isinstance(e, ast.Call) and isinstance(e.func, ast.Attribute) and e.func.attr == "fullmatch" and e.args \
            and ast.unparse(e.args[-1]) == arg and (neg != positive)
    cur = call
    for par in parents(call):
        if isinstance(par, ast.If) and in_block(cur, par.body) and is_fm(par.test, True):
            return True
        if isinstance(par, ast.If) and in_block(cur, par.orelse) and is_fm(par.test, False):
            return True
        body = getattr(par, "body", None)
        if isinstance(body, list) and any(cur is st for st in body):
            for st in body[:body.index(cur)]:
                if isinstance(st, ast.If) and is_fm(st.test, False) and st.body and isinstance(st.body[-1], (ast.Return, ast.Continue)) and not st.orelse:
                    return True
        if isinstance(par, (ast.FunctionDef, ast.Lambda)):
            break
        cur = par
    return False


def _value_error_caught(call):
    """int(<text>) / float(<text>) inside a try that catches ValueError: the only exception a str argument can cause"""
    f = call.func
    if not (isinstance(f, ast.Name) and f.id in ("int", "float")):
        return False
    cur = call
    for par in parents(call):
        if isinstance(par, (ast.FunctionDef, ast.Lambda)):
            return False
        if isinstance(par, ast.Try) and in_block(cur, par.body):
            for h in par.handlers:
                names = {getattr(n, "id", getattr(n, "attr", "")) for n in ast.walk(h.type)} if h.type is not None else set()
                if "ValueError" in names:
                    return True
        cur = par
    return False


def scan_partial_ops(fi, nodes_iter, tainted, skip_protected_from=None, dict_vars=None, producer_keys=None):
    """yield (node, description) for partial operations on tainted data that are not inside a catch-all try.
    tainted(expr) -> bool"""
    for sub in nodes_iter:
        if protecting_try(sub, stop_at=skip_protected_from) is not None:
            continue
        if isinstance(sub, ast.Subscript) and isinstance(sub.ctx, ast.Load):
            sl = sub.slice
            if isinstance(sl, ast.Slice):
                continue
            cidx = None
            if isinstance(sl, ast.Constant) and isinstance(sl.value, int) and not isinstance(sl.value, bool):
                cidx = sl.value
            elif (isinstance(sl, ast.UnaryOp) and isinstance(sl.op, ast.USub) and isinstance(sl.operand, ast.Constant)
                  and isinstance(sl.operand.value, int)):
                cidx = -sl.operand.value
            if cidx is not None:
                if not tainted(sub.value):
                    continue
                if isinstance(sub.value, (ast.Tuple, ast.List)) and len(sub.value.elts) >= _needed_len(cidx):
                    continue
                tt = ast.unparse(sub.value)
                have = _nonempty_guard(sub, tt)
                if have >= _needed_len(cidx):
                    continue
                if _tuple_result_len(fi, sub) >= _needed_len(cidx):
                    continue
                yield sub, ("constant index %s[%d] on line-derived data without a length guard (IndexError on a "
                            "short/empty field)" % (tt, cidx))
            elif isinstance(sl, ast.Constant) and isinstance(sl.value, str):
                if dict_vars and isinstance(sub.value, ast.Name) and sub.value.id in dict_vars:
                    if sl.value not in producer_keys:
                        yield sub, ("key %r is read from the parsed-line dict but reader.read_header_line only "
                                    "guarantees the keys %s (KeyError)" % (sl.value, sorted(producer_keys)))
            else:
                if _is_loop_position(sl):
                    continue
                if isinstance(sl, ast.Name) and dict_vars and isinstance(sub.value, ast.Name) and sub.value.id in dict_vars:
                    cv = _constant_values(fi, sl.id)
                    if cv is not None and cv <= set(producer_keys):
                        continue      # the key is one of a few constant field names, all guaranteed by the producer
                if _own_dict_key(fi, sub):
                    continue
                if tainted(sl) and not _membership_guard(sub):
                    yield sub, ("subscript %s with a line-derived key/index and no membership guard (KeyError/"
                                "IndexError)" % unparse(sub))
        elif isinstance(sub, ast.Call):
            f = sub.func
            name = f.id if isinstance(f, ast.Name) else (f.attr if isinstance(f, ast.Attribute) else "")
            args_tainted = any(tainted(a) for a in sub.args) or any(tainted(k.value) for k in sub.keywords)
            if name in NUMBER_CTORS and sub.args and args_tainted:
                if _literal_guarded(fi, sub) or _value_error_caught(sub):
                    continue
                yield sub, "number constructor %s on line-derived text outside a catch-all try" % unparse(sub)
            elif isinstance(f, ast.Attribute) and name in PARTIAL_METHODS and (tainted(f.value) or args_tainted):
                yield sub, "partial method call %s on line-derived data outside a catch-all try" % unparse(sub)
            elif isinstance(f, ast.Name) and name in PARTIAL_BUILTINS and args_tainted and len(sub.args) == 1 and not sub.keywords:
                yield sub, "%s() of a possibly empty line-derived sequence outside a catch-all try" % name
            elif isinstance(f, ast.Attribute) and isinstance(f.value, ast.Name) and f.value.id == "re" and name in (
                    "compile", "match", "search", "sub", "fullmatch", "findall", "split") and sub.args and tainted(sub.args[0]):
                yield sub, "line-derived text used as a regular expression in %s (re.error)" % unparse(sub)
            elif isinstance(f, ast.Attribute) and name in ("format", "format_map") and not isinstance(
                    f.value, (ast.Constant, ast.JoinedStr)) and _is_stringy(f.value) and tainted(f.value):
                yield sub, "line-derived text is used as a str.format template in %s" % unparse(sub)
            elif isinstance(f, ast.Name) and name == "getattr" and len(sub.args) == 2 and tainted(sub.args[1]):
                yield sub, "getattr with a line-derived attribute name and no default"
        elif isinstance(sub, ast.Assert):
            if tainted(sub.test):
                yield sub, "assert on line-derived data outside a catch-all try: %s" % unparse(sub)
        elif isinstance(sub, ast.BinOp) and isinstance(sub.op, (ast.Div, ast.FloorDiv, ast.Mod)):
            if isinstance(sub.left, ast.Constant) and isinstance(sub.left.value, str):
                continue
            if isinstance(sub.op, ast.Mod) and _is_stringy(sub.left) and tainted(sub.left):
                yield sub, ("line-derived text is used as a %%-format string in %s (a '%%' in a mnemonic raises "
                            "ValueError/TypeError)" % unparse(sub))
                continue
            if tainted(sub.right) and not isinstance(sub.right, ast.Constant):
                if isinstance(sub.op, ast.Mod) and not isinstance(sub.left, (ast.Name, ast.Attribute, ast.Call, ast.BinOp)):
                    continue
                yield sub, "division/modulo by a line-derived value: %s" % unparse(sub)
        elif isinstance(sub, ast.Assign):
            for t in sub.targets:
                if isinstance(t, (ast.Tuple, ast.List)) and not isinstance(sub.value, (ast.Tuple, ast.List)):
                    if tainted(sub.value) and isinstance(sub.value, ast.Call):
                        cn = sub.value.func.attr if isinstance(sub.value.func, ast.Attribute) else ""
                        if cn == "split" and len(sub.targets) == 1 and _split_unpack_values(sub) is not None:
                            continue      # the text is one of a few constants that all split into that many parts
                        if cn in ("split", "rsplit", "partition", "rpartition") and cn.endswith("split"):
                            yield sub, "tuple-unpacking of %s: the number of parts depends on the line" % unparse(sub.value)


def _member_constants(node, name):
    """constants c1..cn when `node` lies in the true branch of an enclosing `if <name> in (c1, .., cn)` (all string constants)"""
    cur = node
    for par in parents(node):
        if isinstance(par, ast.If) and in_block(cur, par.body):
            t = par.test
            if isinstance(t, ast.Compare) and len(t.ops) == 1 and isinstance(t.ops[0], ast.In) and isinstance(t.left, ast.Name) \
                    and t.left.id == name and isinstance(t.comparators[0], (ast.Tuple, ast.List, ast.Set)) and t.comparators[0].elts \
                    and all(isinstance(e, ast.Constant) and isinstance(e.value, str) for e in t.comparators[0].elts):
                return [e.value for e in t.comparators[0].elts]
        if isinstance(par, (ast.FunctionDef, ast.Lambda)):
            break
        cur = par
    return None


def _split_unpack_values(assign):
    """for `a, b = x.split(sep)` under `if x in (c1, ..)`: per target position the set of constant strings, or None"""
    v = assign.value
    if not (isinstance(v, ast.Call) and isinstance(v.func, ast.Attribute) and v.func.attr == "split" and isinstance(v.func.value, ast.Name)
            and len(v.args) == 1 and isinstance(v.args[0], ast.Constant) and isinstance(v.args[0].value, str) and not v.keywords):
        return None
    consts = _member_constants(assign, v.func.value.id)
    t = assign.targets[0]
    if consts is None or not isinstance(t, (ast.Tuple, ast.List)):
        return None
    parts = [c.split(v.args[0].value) for c in consts]
    if any(len(p_) != len(t.elts) for p_ in parts):
        return None
    return [{p_[i] for p_ in parts} for i in range(len(t.elts))]


def _constant_values(fi, name):
    """the set of constant strings a local can hold when every one of its definitions is a string constant, an element of a tuple
    of constants, or a part of a membership-guarded constant split; None otherwise"""
    out = set()
    found = False
    for a in walk_shallow(fi.node):
        if not isinstance(a, ast.Assign):
            continue
        for t in a.targets:
            if isinstance(t, ast.Name) and t.id == name:
                found = True
                if isinstance(a.value, ast.Constant) and isinstance(a.value.value, str):
                    out.add(a.value.value)
                else:
                    return None
            elif isinstance(t, (ast.Tuple, ast.List)) and any(isinstance(e, ast.Name) and e.id == name for e in t.elts):
                found = True
                i = next(k for k, e in enumerate(t.elts) if isinstance(e, ast.Name) and e.id == name)
                if isinstance(a.value, (ast.Tuple, ast.List)) and len(a.value.elts) == len(t.elts) \
                        and isinstance(a.value.elts[i], ast.Constant) and isinstance(a.value.elts[i].value, str):
                    out.add(a.value.elts[i].value)
                else:
                    vals = _split_unpack_values(a) if len(a.targets) == 1 else None
                    if vals is None:
                        return None
                    out |= vals[i]
    for sub in walk_shallow(fi.node):
        if isinstance(sub, (ast.For, ast.AugAssign, ast.With, ast.NamedExpr, ast.comprehension)):
            tg = sub.target if hasattr(sub, "target") else None
            if tg is not None and any(isinstance(x, ast.Name) and x.id == name for x in ast.walk(tg)):
                return None
    return out if found else None


def _own_dict_key(fi, sub):
    """`D[k]` where every definition of the local D is a dict display that lists the name k as a key, written right after k was
    bound in the same block, and k is bound nowhere else: the key is present by construction"""
    if not (isinstance(sub.value, ast.Name) and isinstance(sub.slice, ast.Name)):
        return False
    d, k = sub.value.id, sub.slice.id
    if _constant_values(fi, k) is None:
        return False
    ddefs = [a for a in walk_shallow(fi.node) if isinstance(a, ast.Assign) and any(isinstance(t, ast.Name) and t.id == d for t in a.targets)]
    kdefs = [a for a in walk_shallow(fi.node) if isinstance(a, ast.Assign) and any(
        isinstance(x, ast.Name) and x.id == k and isinstance(x.ctx, ast.Store) for t in a.targets for x in ast.walk(t))]
    if not ddefs or len(ddefs) != len(kdefs):
        return False
    for a in ddefs:
        if not (isinstance(a.value, ast.Dict) and any(isinstance(kk, ast.Name) and kk.id == k for kk in a.value.keys)):
            return False
        blk = getattr(a._parent, "body", None) if hasattr(a, "_parent") else None
        holder = None
        for fld in ("body", "orelse", "finalbody"):
            b = getattr(a._parent, fld, None)
            if isinstance(b, list) and any(x is a for x in b):
                holder = b
        if holder is None:
            return False
        idx = next(i for i, x in enumerate(holder) if x is a)
        if not any(any(y is x for y in kdefs) for x in holder[:idx]):
            return False
    return True


def _is_loop_position(sl):
    """index is a plain name bound only as a for-loop / comprehension target (a position produced by enumerate/range
    or an element of a list of positions), not a field of the line"""
    if not isinstance(sl, ast.Name):
        return False
    fn = None
    for par in parents(sl):
        if isinstance(par, (ast.FunctionDef, ast.Lambda)):
            fn = par
            break
    if fn is None or isinstance(fn, ast.Lambda):
        return False
    bound_loop = False
    for s_ in walk_shallow(fn):
        if isinstance(s_, (ast.For, ast.comprehension)) and sl.id in target_names(s_.target):
            bound_loop = True
        if isinstance(s_, (ast.Assign, ast.AugAssign)):
            targets = s_.targets if isinstance(s_, ast.Assign) else [s_.target]
            for t in targets:
                if sl.id in target_names(t):
                    return False
    if sl.id in [a.arg for a in fn.args.args]:
        return False
    return bound_loop


def _is_stringy(e):
    """expression built by string concatenation / a name that is assigned one (syntactic, conservative)"""
    if isinstance(e, ast.BinOp) and isinstance(e.op, ast.Add):
        return _is_stringy(e.left) or _is_stringy(e.right)
    if isinstance(e, ast.Constant):
        return isinstance(e.value, str)
    if isinstance(e, ast.JoinedStr):
        return True
    if isinstance(e, ast.Name):
        fn = None
        for par in parents(e):
            if isinstance(par, (ast.FunctionDef, ast.Lambda)):
                fn = par
                break
        if fn is not None and not isinstance(fn, ast.Lambda):
            for s in walk_shallow(fn):
                if isinstance(s, ast.Assign) and any(isinstance(t, ast.Name) and t.id == e.id for t in s.targets):
                    if not isinstance(s.value, ast.Name) and _is_stringy(s.value):
                        return True
    return False


def _membership_guard(sub):
    key = ast.unparse(sub.slice)
    cont = ast.unparse(sub.value)
    cur = sub
    for par in parents(sub):
        if isinstance(par, (ast.FunctionDef, ast.Lambda)):
            break
        if isinstance(par, (ast.If, ast.IfExp)):
            body = par.body if isinstance(par.body, list) else [par.body]
            if in_block(cur, body):
                for c in ast.walk(par.test):
                    if (isinstance(c, ast.Compare) and len(c.ops) == 1 and isinstance(c.ops[0], ast.In)
                            and ast.unparse(c.left) == key and ast.unparse(c.comparators[0]) == cont):
                        return True
        cur = par
    return False


def rule_total(ctx):
    p = ctx.p
    r = get_resolver(p)
    fi, loop, calls = _line_loop(p)
    prod_fi, prod_keys = _producer_keys(p)
    cfg = build_cfg(p, fi)
    prov = Provenance(cfg)
    # the fields a pattern does not capture come back as text (''): the consumers strip / test them without a None guard
    for sub in walk_shallow(prod_fi.node):
        fills = None
        if isinstance(sub, ast.Call) and isinstance(sub.func, ast.Attribute) and sub.func.attr == "fromkeys" and sub.args \
                and isinstance(sub.args[0], (ast.Tuple, ast.List)) and {e.value for e in sub.args[0].elts if isinstance(e, ast.Constant)} >= set(prod_keys):
            fills = [sub.args[1]] if len(sub.args) > 1 else [None]
        elif isinstance(sub, ast.Dict) and sub.keys and all(isinstance(k, ast.Constant) for k in sub.keys) \
                and {k.value for k in sub.keys} >= set(prod_keys):
            fills = list(sub.values)
        if fills is None:
            continue
        not_text = [f for f in fills if f is None or (isinstance(f, ast.Constant) and not isinstance(f.value, str))]
        ctx.check(not not_text, "HDR.TOTAL", "reader.read_header_line#default-fields", prod_fi, sub,
                  "fields the matching pattern does not capture default to text",
                  "the default of a field the matching pattern does not capture is %s, not text: a line such as `NAME : VALUE` (no unit, "
                  "no description group) hands None to the section parser, whose strip()/comparison outside the error handler raises "
                  "AttributeError whatever ignore_header_errors says" % (
                      "" if not not_text else "None (no fill value)" if not_text[0] is None else unparse(not_text[0])))

    # region = the loop body; statements inside a catch-all try *body* are protected
    def region_nodes():
        for st in loop.body:
            for sub in walk_expr_shallow(st):
                yield sub

    def tainted_in_region(expr):
        nids = cfg.node_of_expr(expr)
        if not nids:
            return True
        atoms = prov.atoms(expr, nids[0])
        return ("iter",) in atoms

    # variable names holding the parsed-line dict in the region
    dict_vars = set()
    for call in calls:
        st = enclosing(call, (ast.Assign,))
        if st is not None:
            for t in st.targets:
                dict_vars |= set(target_names(t))
    n = 0
    found = list(scan_partial_ops(fi, region_nodes(), tainted_in_region, skip_protected_from=loop,
                                  dict_vars=dict_vars, producer_keys=prod_keys))
    site = "%s#per-line-region" % fi.qual
    n += 1
    if found:
        for node, msg in found:
            ctx.bad("HDR.TOTAL", site + ":" + type(node).__name__, fi, node, msg)
    else:
        ctx.ok("HDR.TOTAL", site, fi, loop, "no partial operation on line-derived data outside the catch-all try in "
               "the per-line code of the header loop")

    # closure of lasio functions reached from unprotected calls of the region
    def stop(f, node):
        return protecting_try(node) is not None

    roots = []
    for st in loop.body:
        for sub in walk_expr_shallow(st):
            if isinstance(sub, ast.Call) and protecting_try(sub, stop_at=loop) is None:
                for t in r.callees(fi, sub)[0]:
                    if t not in roots:
                        roots.append(t)
            elif isinstance(sub, (ast.Attribute, ast.Subscript, ast.Compare)) and protecting_try(sub, stop_at=loop) is None:
                for t in r.implicit_callees(fi, sub):
                    if t not in roots:
                        roots.append(t)
    clos = r.closure(roots, stop=stop)
    ctx.stat("hdr_total_closure", len(clos))
    ctx.note("HDR.TOTAL closure: " + ", ".join(sorted(clos)))
    keyed_funcs = {}
    for q, cf in sorted(clos.items()):
        node = cf.node
        data_class = cf.cls is not None and cf.cls.name in ("SectionItems", "HeaderItem", "CurveItem")
        params = [x for x in cf.params() if x not in ("self", "cls") or (data_class and x == "self")]
        pset = set(params)
        ccfg = build_cfg(p, cf)
        cprov = Provenance(ccfg)

        def tainted(expr, ccfg=ccfg, cprov=cprov, pset=pset):
            nids = ccfg.node_of_expr(expr)
            at = nids[0] if nids else ccfg.entry
            atoms = cprov.atoms(expr, at)
            for a in atoms:
                if a[0] == "param" and a[1] in pset:
                    return True
                if a[0] == "attr" and a[1].startswith("self."):
                    return True
            return False
        kw = node.args.kwarg.arg if (not isinstance(node, ast.Lambda) and node.args.kwarg) else None
        dv = {kw} if kw else set()
        it = walk_shallow(node) if not isinstance(node, ast.Lambda) else ast.walk(node.body)
        found = list(scan_partial_ops(cf, it, tainted, dict_vars=dv, producer_keys=prod_keys))
        # recursion whose depth follows the data: f(x) calling f(<slice of x>) - RecursionError on long/nested input
        if not isinstance(node, ast.Lambda):
            for c in walk_shallow(node):
                if isinstance(c, ast.Call) and protecting_try(c) is None:
                    nm = c.func.attr if isinstance(c.func, ast.Attribute) else getattr(c.func, "id", None)
                    if nm == cf.name and any(isinstance(x, ast.Subscript) and isinstance(x.slice, ast.Slice) and isinstance(x.value, ast.Name)
                                             and x.value.id in pset for a in c.args for x in ast.walk(a)):
                        found.append((c, "`%s` recurses on a slice of its own argument: the recursion depth follows the text of the line "
                                         "(RecursionError on deeply nested input)" % unparse(c)))
        n += 1
        site = "%s#closure" % q
        if found:
            for nd, msg in found:
                ctx.bad("HDR.TOTAL", site + ":" + type(nd).__name__, cf, nd,
                        msg + " [reached from the header loop outside its error handler]")
        else:
            ctx.ok("HDR.TOTAL", site, cf, node, "no unprotected partial operation on its inputs", nontrivial=True)
    if "reader.SectionParser.metadata" not in clos or "las_items.HeaderItem.__init__" not in clos:
        spi = p.functions.get("reader.SectionParser.__init__")
        dyn = spi is not None and any(isinstance(c_, ast.Call) and isinstance(c_.func, ast.Name) and c_.func.id == "getattr" and len(c_.args) >= 2
                                      and not isinstance(c_.args[1], ast.Constant) for c_ in ast.walk(spi.node))
        if dyn:
            raise ShapeNotRecognised("SectionParser picks its item builder with getattr(self, <computed name>): the functions reachable from "
                                     "the header loop cannot be enumerated, so the closure part of HDR.TOTAL is not decided")
        raise AnalysisError("HDR.TOTAL: closure of the header loop lost SectionParser.metadata/HeaderItem.__init__ "
                            "(resolver regression): %s" % sorted(clos))
    ctx.floor("HDR.TOTAL", 8)


def rule_steer_lookup(ctx):
    """LASFile.read: the VERS/WRAP/NULL/DLM lookups after each header section are membership-guarded
    (a section without them must not raise)."""
    p = ctx.p
    from rules.common import host_sections
    fi = host_sections(p)
    n = 0
    for sub in walk_shallow(fi.node):
        if isinstance(sub, ast.Assign) and len(sub.targets) == 1 and isinstance(sub.targets[0], ast.Name):
            tname = sub.targets[0].id
            v = sub.value
            if isinstance(v, ast.Compare) and len(v.ops) == 1 and isinstance(v.comparators[0], ast.Constant):
                v = v.left        # a steering value kept as a boolean: `wrapped = <items>.WRAP.value == "YES"`
            mn = None
            # X.MNEM.value  or X["MNEM"].value
            if isinstance(v, ast.Attribute) and v.attr == "value":
                b = v.value
                if isinstance(b, ast.Attribute):
                    mn, cont = b.attr, ast.unparse(b.value)
                elif isinstance(b, ast.Subscript) and isinstance(b.slice, ast.Constant):
                    mn, cont = b.slice.value, ast.unparse(b.value)
            if mn is None:
                continue
            n += 1
            guarded = False
            cur = sub
            for par in parents(sub):
                if isinstance(par, ast.If) and in_block(cur, par.body):
                    for c in ast.walk(par.test):
                        if (isinstance(c, ast.Compare) and len(c.ops) == 1 and isinstance(c.ops[0], ast.In)
                                and isinstance(c.left, ast.Constant) and c.left.value == mn
                                and ast.unparse(c.comparators[0]) == cont):
                            guarded = True
                cur = par
            site = "las.LASFile.read#lookup(%s)" % mn
            ctx.check(guarded, "HDR.STEER-LOOKUP", site, fi, sub,
                      "lookup of %s is guarded by `%r in %s`" % (mn, mn, cont),
                      "lookup %s is not guarded by a membership test: a header section without %s raises" % (unparse(sub), mn))
    if n == 0:
        ctx.undecided("HDR.STEER-LOOKUP", "las.LASFile.read#lookup", fi, fi.node, "no `x = <items>.<MNEM>.value` lookup found")
    ctx.floor("HDR.STEER-LOOKUP", 4)


def _word_alternation(pattern):
    """the literal words of a pattern that is nothing but an alternation of words (optionally grouped), else None; an
    end anchor makes it a whole-word test and is reported as such"""
    import re as _re
    anchored = False
    pat = pattern
    if pat.startswith("^"):
        pat = pat[1:]
    for tail in ("$", "\\Z"):
        if pat.endswith(tail):
            pat, anchored = pat[:-len(tail)], True
    while pat.startswith("(") and pat.endswith(")") and pat.count("(") == 1:
        pat = pat[1:-1]
        for lead in ("?:", "?i:"):
            if pat.startswith(lead):
                pat = pat[len(lead):]
    if not pat or not _re.fullmatch(r"[A-Za-z0-9_]+(?:\|[A-Za-z0-9_]+)*", pat):
        return None
    return pat.split("|"), anchored


def rule_mnemonic_tests(ctx):
    """HDR.MNEM-TEST: a header item's mnemonic is identified by equality / membership, or by a regular expression that has to
    match the whole of it.  `<alternation of words>.match(<mnemonic>)` is a *prefix* test: NULLVAL would be taken for NULL."""
    from sa.consts import fold, module_env, NotConst, Regex
    p = ctx.p
    assert _word_alternation("VERS|WRAP|DLM") == (["VERS", "WRAP", "DLM"], False)      # positive control of the classifier
    assert _word_alternation("(?:NULL)$") == (["NULL"], True) and _word_alternation(r"\s*~") is None
    n = 0
    for q, fi in sorted(p.functions.items()):
        if fi.module.name not in ("las", "reader", "las_items") or isinstance(fi.node, ast.Lambda):
            continue
        env = module_env(p, fi.module.name)
        defs = {}
        for sub in walk_shallow(fi.node):
            if isinstance(sub, ast.Assign) and len(sub.targets) == 1 and isinstance(sub.targets[0], ast.Name):
                defs.setdefault(sub.targets[0].id, []).append(sub.value)

        def from_mnemonic(e, depth=0):
            for x in ast.walk(e):
                if isinstance(x, ast.Attribute) and x.attr in ("mnemonic", "original_mnemonic", "useful_mnemonic"):
                    return True
            if depth < 3:
                for x in ast.walk(e):
                    if isinstance(x, ast.Name):
                        for v in defs.get(x.id, ()):
                            if not (isinstance(v, ast.Name) and v.id == x.id) and from_mnemonic(v, depth + 1):
                                return True
            return False

        def regexes(e, depth=0):
            """the regular expressions an expression may denote, or None"""
            try:
                v = fold(e, env)
                if isinstance(v, Regex):
                    return [v]
                if isinstance(v, str):
                    return [Regex(v, 0)]
            except NotConst:
                pass
            except Exception:  # noqa - not a constant the folder understands
                return None
            if isinstance(e, ast.Name) and depth < 2 and e.id in defs:
                out = []
                for v in defs[e.id]:
                    r_ = regexes(v, depth + 1)
                    if r_ is None:
                        return None
                    out.extend(r_)
                return out
            # TABLE[<key>] / TABLE.get(<key>[, d]) over a constant table of expressions
            tab = None
            if isinstance(e, ast.Subscript):
                tab = e.value
            elif isinstance(e, ast.Call) and isinstance(e.func, ast.Attribute) and e.func.attr == "get" and e.args:
                tab = e.func.value
            if tab is not None:
                try:
                    t = fold(tab, env)
                except Exception:  # noqa
                    return None
                if isinstance(t, dict) and t and all(isinstance(v, Regex) for v in t.values()):
                    return list(t.values())
            return None

        for c in walk_shallow(fi.node):
            if not (isinstance(c, ast.Call) and isinstance(c.func, ast.Attribute) and c.func.attr in ("match", "search") and c.args):
                continue
            if isinstance(c.func.value, ast.Name) and c.func.value.id == "re":
                if len(c.args) < 2:
                    continue
                pat_e, subj = c.args[0], c.args[1]
            else:
                pat_e, subj = c.func.value, c.args[0]
            if not from_mnemonic(subj):
                continue
            rs = regexes(pat_e)
            if not rs:
                continue
            n += 1
            site = "%s#%s(%s)" % (q, c.func.attr, unparse(subj, 30))
            loose = [r_ for r_ in rs if (_word_alternation(r_.pattern) or (None, True))[1] is False]
            if loose:
                ctx.bad("HDR.MNEM-TEST", site, fi, c, "the mnemonic %s is tested with %s() against the word list /%s/ without an end "
                        "anchor: every mnemonic that merely starts with one of the words (%s...) is taken for it"
                        % (unparse(subj, 30), c.func.attr, loose[0].pattern, _word_alternation(loose[0].pattern)[0][0] + "VAL"))
            else:
                ctx.ok("HDR.MNEM-TEST", site, fi, c, "regular expression applied to a mnemonic is not a bare word list used as a prefix test")
    ctx.ok("HDR.MNEM-TEST", "lasio#mnemonic-regex-tests", p.func("las.LASFile.read"), p.func("las.LASFile.read").node,
           "%d regular-expression test(s) on mnemonics in las/reader/las_items; classifier self-test passed" % n, nontrivial=False)


def rule_no_state(ctx):
    """The per-line parsing code keeps no state between lines: neither the line parser nor anything the header loop
    reaches writes module-level objects, and the dict handed back for a line is built inside the call."""
    from sa.effects import get_effects, fmt_path
    p = ctx.p
    r = get_resolver(p)
    ea = get_effects(p)
    fi, loop, calls = _line_loop(p)
    roots = [fi, p.func("reader.read_header_line"), p.func("reader.configure_metadata_patterns")]
    if p.has_func("reader.read_line"):
        roots.append(p.func("reader.read_line"))
    clos = r.closure(roots)
    n = 0
    for q, cf in sorted(clos.items()):
        n += 1
        bad = [e for e in ea.local_effects(cf) if e.path[0][0] == "global"]
        site = "%s#module-state" % q
        if bad:
            e = bad[0]
            ctx.bad("HDR.NO-STATE", site, cf, e.node, "%s writes module-level state %s while parsing a header line: "
                    "fields of one line (or one read) leak into the next" % (q, fmt_path(e.path)))
        else:
            ctx.ok("HDR.NO-STATE", site, cf, cf.node, "writes no module-level object")
    # the returned dict must be fresh per call
    rf = p.func("reader.read_header_line")
    rp = ea.return_paths(rf)
    glob = [x for x in rp if x[0][0] == "global"]
    ctx.check(not glob, "HDR.NO-STATE", "reader.read_header_line#returned-dict", rf, rf.node,
              "the dict returned for a line is created inside the call",
              "read_header_line returns (an alias of) module-level object %s: all lines share one dict"
              % ", ".join(fmt_path(x) for x in glob))
    ctx.floor("HDR.NO-STATE", 8)


def rule_flag_forward(ctx):
    """HDR.FLAG-FORWARD: LASFile.read hands its ignore_header_errors / ignore_comments / mnemonic_case arguments to the
    header parser unchanged, for every section"""
    p = ctx.p
    r = get_resolver(p)
    from rules.common import host_sections
    fr = host_sections(p)
    calls = [c for c in walk_shallow(fr.node) if isinstance(c, ast.Call) and any(t.qual == SECTION_FN for t in r.callees(fr, c)[0])]
    if not calls:
        raise AnalysisError("LASFile.read does not call %s" % SECTION_FN)
    for i, c in enumerate(calls):
        kw = {k.arg: k.value for k in c.keywords}
        for name in ("ignore_header_errors", "mnemonic_case"):
            v = kw.get(name)
            ok = isinstance(v, ast.Name) and v.id == name
            ctx.check(ok, "HDR.FLAG-FORWARD", "las.LASFile.read#%s@%d" % (name, i + 1), fr, c,
                      "%s is forwarded to the header parser unchanged" % name,
                      "the header parser is called with %s=%s instead of the caller's value: for some sections the flag is not "
                      "honoured (a junk line there raises although errors are to be ignored)" % (name, unparse(v) if v is not None else "<default>"))
    ctx.floor("HDR.FLAG-FORWARD", 2)


def rule_every_line(ctx):
    """HDR.EVERY-LINE / HDR.RAW-LINE: inside a header section every line that is neither blank nor a comment (by its first
    character) nor the next title is parsed, and what is parsed is the line of the file with surrounding whitespace removed -
    nothing else is skipped, folded, normalised or rewritten before read_header_line sees it"""
    p = ctx.p
    fi, loop, calls = _line_loop(p)
    cfg = build_cfg(p, fi)
    cd = ControlDependence(cfg)
    prov = Provenance(cfg)
    linevar = None
    if isinstance(loop.target, ast.Name):
        linevar = loop.target.id
    elif isinstance(loop.target, ast.Tuple) and isinstance(loop.target.elts[-1], ast.Name):
        linevar = loop.target.elts[-1].id
    cparams = [x for x in fi.params() if "comment" in x]
    for call in calls:
        site = "%s#parse-call" % fi.qual
        extra = []
        for nid in cfg.node_of_expr(call):
            for (tn, lab) in cd.transitive(nid):
                t = cfg.nodes[tn].ast
                if cfg.nodes[tn].kind != "test" or t is None or not in_block(t, loop.body):
                    continue
                if any(isinstance(par_, ast.ExceptHandler) for par_ in parents(t)):
                    continue      # tests of the error handler decide what happens after a failed parse, not whether a line is parsed
                txt = ast.unparse(t)
                names = {x.id for x in ast.walk(t) if isinstance(x, ast.Name)}
                is_blank = (names <= {linevar, "len"} and not any(isinstance(c, ast.Call) and isinstance(c.func, ast.Attribute) for c in ast.walk(t)))
                is_comment = bool(names & set(cparams))
                is_title = "startswith('~')" in txt or (".match(" in txt and ("TITLE" in txt.upper() or ("re.compile(" in txt and "~" in txt)))
                is_end = any(isinstance(c, ast.Compare) and "line_no" in ast.unparse(c) for c in ast.walk(t)) and linevar not in names
                if not (is_blank or is_comment or is_title or is_end):
                    extra.append(txt)
        ctx.check(not extra, "HDR.EVERY-LINE", site, fi, call,
                  "a header line is parsed unless it is blank, a comment or the next title",
                  "whether a header line is parsed also depends on %s: such lines are silently dropped, and in ~Curves a dropped line "
                  "shifts every later curve onto its neighbour's data column" % sorted(set(extra)))
        # provenance of the text that is parsed
        arg = call.args[0] if call.args else None
        if arg is not None:
            nids = cfg.node_of_expr(call)
            atoms = prov.atoms(arg, nids[0]) if nids else set()
            cn = {a[1] for a in atoms if a[0] == "callname"} - {"strip", "rstrip", "lstrip", "enumerate", "readline", "iter", "next"}
            ctx.check(not cn, "HDR.RAW-LINE", "%s#parsed-text" % fi.qual, fi, call,
                      "the text handed to the line parser is the file's line, stripped of surrounding whitespace only",
                      "the header line passes through %s before it is parsed: name, unit, value and description no longer come out as "
                      "written (e.g. NFKC turns the unit `µs/ft` into `μs/ft`)" % sorted(cn))
    ctx.floor("HDR.EVERY-LINE", 1)


def rule_parser_stateless(ctx):
    """HDR.PARSER-STATELESS: a SectionParser is configured once per section (__init__); building an item from one line never
    changes the parser (no store to self.<attr> in metadata / curves / params / num / strip_brackets / __call__), so one line -
    junk or not - cannot change how the following lines of the section are read"""
    p = ctx.p
    cls = p.cls("reader.SectionParser")
    r = get_resolver(p)
    n = 0
    # the per-line side of the class: what __call__ (and the builders it dispatches to) reach; helpers that only __init__ calls
    # configure the parser and may of course store into it
    roots = [cls.methods[m_] for m_ in ("__call__", "metadata", "curves", "params") if m_ in cls.methods]
    per_line = {f_.qual for f_ in r.closure(roots).values() if f_.cls is cls} | {f_.qual for f_ in roots}
    for m, fi in sorted(cls.methods.items()):
        if m == "__init__" or fi.qual not in per_line:
            continue
        stores = []
        for sub in walk_shallow(fi.node):
            if isinstance(sub, (ast.Assign, ast.AugAssign)):
                for t in (sub.targets if isinstance(sub, ast.Assign) else [sub.target]):
                    base = t
                    while isinstance(base, (ast.Attribute, ast.Subscript)):
                        base = base.value
                    if isinstance(t, (ast.Attribute, ast.Subscript)) and isinstance(base, ast.Name) and base.id == "self":
                        stores.append(sub)
            if isinstance(sub, ast.Call) and isinstance(sub.func, ast.Attribute) and sub.func.attr in ("update", "append", "setdefault", "pop", "clear") \
                    and ast.unparse(sub.func.value).startswith("self."):
                stores.append(sub)
        n += 1
        site = "%s#no-state-change" % fi.qual
        if stores:
            ctx.bad("HDR.PARSER-STATELESS", site, fi, stores[0], "`%s` changes the SectionParser while a line is being built: every later "
                    "line of the section is read differently because of this one (a junk line can flip value and description of all "
                    "genuine items after it)" % unparse(stores[0])[:70])
        else:
            ctx.ok("HDR.PARSER-STATELESS", site, fi, fi.node, "%s leaves the parser unchanged" % m, nontrivial=m in ("metadata", "curves", "params"))
    ctx.floor("HDR.PARSER-STATELESS", 3)


def rule_generator_resume(ctx):
    """HDR.GEN-RESUME: an exception that leaves a generator finishes it - every later next() raises StopIteration.  A loop that
    calls next(<generator>) in a try, handles some exception other than StopIteration and then carries on with the same generator
    therefore does not skip one bad element: it silently loses every element after it (all header lines after the first junk line)."""
    p = ctx.p
    n = 0
    for q, fi in sorted(p.functions.items()):
        if isinstance(fi.node, ast.Lambda) or fi.module.name not in ("reader", "las"):
            continue
        for loop in [x for x in walk_shallow(fi.node) if isinstance(x, (ast.While, ast.For))]:
            for tr in [x for x in ast.walk(loop) if isinstance(x, ast.Try)]:
                nexts = [c for st in tr.body for c in ast.walk(st) if isinstance(c, ast.Call) and isinstance(c.func, ast.Name) and c.func.id == "next"
                         and c.args and isinstance(c.args[0], ast.Name)]
                if not nexts:
                    continue
                gen = nexts[0].args[0].id
                # is it a generator of the package?  (bound from a call of a function that yields, or a parameter fed with one)
                r = get_resolver(p)
                srcs = [a_.value for a_ in walk_shallow(fi.node) if isinstance(a_, ast.Assign) and any(isinstance(t, ast.Name) and t.id == gen for t in a_.targets)]
                is_gen = gen in fi.params() or any(isinstance(v, ast.Call) and any(
                    any(isinstance(y, (ast.Yield, ast.YieldFrom)) for y in ast.walk(t.node)) for t in r.callees(fi, v)[0]) for v in srcs)
                if not is_gen:
                    continue
                for h in tr.handlers:
                    names = {getattr(x, "id", getattr(x, "attr", "")) for x in ast.walk(h.type)} if h.type is not None else {"<all>"}
                    if names <= {"StopIteration"}:
                        continue
                    leaves = bool(h.body) and isinstance(h.body[-1], (ast.Break, ast.Return, ast.Raise))
                    n += 1
                    site = "%s#resume(%s)" % (fi.qual, gen)
                    ctx.check(leaves, "HDR.GEN-RESUME", site, fi, h,
                              "after an exception out of next(%s) the loop is left" % gen,
                              "the loop in %s catches %s raised out of next(%s) and goes on to ask the same generator for the next element: a "
                              "generator that has raised is finished, so every remaining element (every header line after the first "
                              "unparsable one) is silently dropped" % (fi.qual, sorted(names), gen))
    if n == 0:
        ctx.ok("HDR.GEN-RESUME", "lasio#resume", None, 0, "no loop resumes a generator after catching an exception it raised", nontrivial=False)
