"""Rule groups WR (layout) and ORD (C03, C11, C12, also C16): header line layout, order tables, reader/writer agreement.

WR.MEASURE     stage order in writer.write per section: refresh/unit alignment -> value normalisation -> width
               measurement -> formatting; no stage can be followed by an earlier one (CFG reachability)
WR.ORDER-KEY   every order lookup in the writer is keyed by the item's original_mnemonic (what is emitted)
WR.ORIG-MNEM   the emitted mnemonic field derives from original_mnemonic (formatters, to_csv defaults)
WR.TEMPLATE    line template `<mnem>.<unit><pad><rhs> : <tail>`: '.' directly followed by the unit, ' : ' before the tail
WR.COPY-VERS   the substituted VERS item is stored into deepcopy(las.version) only
HDR.POST       reader post-processing: case mapping on the name only (upper/lower under the matching option),
               bracket stripping on the unit only, fields passed to the item constructor in (name, unit, value, descr) order
ORD.TABLE      one order table, decoded with the same convention by reader and writer; complete for all versions/sections
ORD.BIJECTION  writer's (before-colon, after-colon) field choice per order constant inverts the reader's assignment
ORD.KEY-NORM   reader and writer normalise the lookup key identically
"""
import ast

from sa import AnalysisError
from sa.astutil import unparse, enclosing, in_block
from sa.cfg import build_cfg, EXC
from sa.consts import fold, NotConst, module_env
from sa.dataflow import Provenance, ControlDependence, target_names
from sa.effects import get_effects, fmt_path
from sa.loader import walk_shallow, walk_expr_shallow
from sa.resolve import get_resolver

WRITE = "writer.write"
SECTIONS = ("Version", "Well", "Curves", "Parameter")



def _nested_funcs(fi):
    """[(FuncInfo, return expressions)] of the nested defs / lambdas of fi"""
    out = []
    for nm, nf in fi.nested.items():
        if isinstance(nf.node, ast.Lambda):
            out.append((nf, [nf.node.body]))
        else:
            out.append((nf, [r_.value for r_ in walk_shallow(nf.node) if isinstance(r_, ast.Return) and r_.value is not None]))
    return out


def _helper_funcs(ctx_p, ff):
    """nested functions of ff plus the module-level functions of its module that are called from inside ff (a padding
    helper may be a lambda, a nested def or a private module-level function)"""
    out = list(_nested_funcs(ff))
    called = {c.func.id for c in ast.walk(ff.node) if isinstance(c, ast.Call) and isinstance(c.func, ast.Name)}
    for nm, mf in ff.module.functions.items():
        if nm in called and mf is not ff:
            out.append((mf, [r_.value for r_ in walk_shallow(mf.node) if isinstance(r_, ast.Return) and r_.value is not None]))
    return out


def _resolve_local(nf, e):
    """replace a plain local name by its single defining expression inside nf (padding = " " * ...)"""
    if isinstance(e, ast.Name) and not isinstance(nf.node, ast.Lambda):
        defs = [s_.value for s_ in walk_shallow(nf.node) if isinstance(s_, ast.Assign) and any(isinstance(t, ast.Name) and t.id == e.id for t in s_.targets)]
        if len(defs) == 1:
            return defs[0]
    return e


def _formatters(ff):
    """nested functions whose result is `<template string> % (a, b, c)`"""
    out = []
    for nf, rets in _nested_funcs(ff):
        for b in rets:
            if isinstance(b, ast.BinOp) and isinstance(b.op, ast.Mod) and isinstance(b.left, ast.Constant) and isinstance(b.left.value, str):
                out.append((nf, b))
            elif isinstance(b, ast.Call) and isinstance(b.func, ast.Attribute) and b.func.attr == "format" and isinstance(b.func.value, ast.Constant) \
                    and isinstance(b.func.value.value, str) and not b.keywords and b.func.value.value.count("{}") == len(b.args) \
                    and "{" not in b.func.value.value.replace("{}", "") and "%" not in b.func.value.value:
                # "{}.{} : {}".format(a, b, c) is "%s.%s : %s" % (a, b, c)
                syn = ast.BinOp(left=ast.Constant(value=b.func.value.value.replace("{}", "%s")), op=ast.Mod(),
                                right=ast.Tuple(elts=list(b.args), ctx=ast.Load()))
                ast.copy_location(syn, b)
                ast.fix_missing_locations(syn)
                for ch in ast.walk(syn):
                    for c2 in ast.iter_child_nodes(ch):
                        if not hasattr(c2, "_parent") or c2 in (syn.left, syn.right):
                            c2._parent = ch
                syn._parent = getattr(b, "_parent", None)
                out.append((nf, syn))
    return out

def _callee_quals(r, fi, call):
    return {t.qual for t in r.callees(fi, call)[0]}


def rule_measure(ctx):
    p = ctx.p
    r = get_resolver(p)
    ea = get_effects(p)
    fw = p.func(WRITE)
    cfg = build_cfg(p, fw)
    # stages
    align, measure, normalise, fmt = [], {}, {}, {}
    for node in cfg.nodes:
        if node.ast is None or node.kind not in ("stmt", "test"):
            continue
        for c in walk_expr_shallow(node.ast):
            if not isinstance(c, ast.Call):
                continue
            qs = _callee_quals(r, fw, c)
            if qs & {"las.LASFile.update_start_stop_step", "las.LASFile.update_units_from_index_curve"}:
                align.append((node.id, c))
            if "writer.get_section_widths" in qs:
                items = c.args[1] if len(c.args) > 1 else None
                paths = ea.paths_of(items, fw) if items is not None else set()
                for pth in paths:
                    measure.setdefault(pth, []).append((node.id, c))
            if "writer.standardize_value" in qs:
                st = node.ast
                if isinstance(st, ast.Assign) and isinstance(st.targets[0], ast.Attribute):
                    for pth in ea.paths_of(st.targets[0].value, fw):
                        normalise.setdefault(pth[:-1] if pth and pth[-1] == ("elem", "*") else pth, []).append((node.id, c))
    # formatting nodes: calls of a formatter function value (result of get_formatter_function) on an item
    fvars = set()
    for s in walk_shallow(fw.node):
        if isinstance(s, ast.Assign) and isinstance(s.value, ast.Call) and "writer.get_formatter_function" in _callee_quals(r, fw, s.value):
            for t in s.targets:
                if isinstance(t, ast.Name):
                    fvars.add(t.id)
    # private helpers of the writer module that format the items they are given
    fmt_helpers = {}
    for q, hf in p.functions.items():
        if hf.module.name == "writer" and hf.parent is None and hf is not fw and not isinstance(hf.node, ast.Lambda):
            if any(isinstance(c, ast.Call) and "writer.get_formatter_function" in _callee_quals(r, hf, c) for c in walk_shallow(hf.node)):
                fmt_helpers[q] = hf
    for node in cfg.nodes:
        if node.ast is None or node.kind != "stmt":
            continue
        for c in walk_expr_shallow(node.ast):
            if isinstance(c, ast.Call) and isinstance(c.func, ast.Name) and c.func.id in fvars and c.args:
                for pth in ea.paths_of(c.args[0], fw):
                    fmt.setdefault(pth[:-1] if pth and pth[-1] == ("elem", "*") else pth, []).append((node.id, c))
            elif isinstance(c, ast.Call) and (_callee_quals(r, fw, c) & set(fmt_helpers)) and c.args:
                for a in c.args:
                    for pth in ea.paths_of(a, fw):
                        if len(pth) >= 3 and pth[1] == ("attr", "sections"):
                            fmt.setdefault(pth, []).append((node.id, c))
    if not measure or not fmt:
        raise AnalysisError("writer.write: cannot find the width measurements / formatter calls (measure=%d, fmt=%d)" % (len(measure), len(fmt)))
    n = 0
    for sec, ms in sorted(measure.items(), key=lambda kv: fmt_path(kv[0])):
        name = fmt_path(sec)
        site = "%s#stages(%s)" % (WRITE, name)
        problems = []
        path = None
        ns = normalise.get(sec, [])
        fs = fmt.get(sec, [])
        if not fs:
            continue
        n += 1
        for (mn, mc) in ms:
            for (nn, nc) in ns:
                pth = cfg.find_path(mn, [nn], skip_labels=EXC)
                if pth:
                    problems.append("the column widths of %s are measured (line %d) before its values are normalised by "
                                    "standardize_value (line %d): an empty value that becomes 0 no longer fits and is glued "
                                    "to the unit, and a second write differs from the first" % (name, mc.lineno, nc.lineno))
                    path = cfg.describe_path(pth)
            for (fn_, fc) in fs:
                if not cfg.find_path(mn, [fn_], skip_labels=EXC):
                    problems.append("items of %s are formatted (line %d) on a path that does not pass the width measurement" % (name, fc.lineno))
        for (fn_, fc) in fs:
            for (nn, nc) in ns:
                # normalisation inside the formatting loop *before* the format call of the same item is the pre-fix
                # shape only if the measurement came first (caught above); here: a normalisation strictly after formatting
                pass
        if "Well" in name:
            for (an, ac) in align:
                for (nn, nc) in ns:
                    pth = cfg.find_path(nn, [an], skip_labels=EXC)
                    if pth:
                        problems.append("%s (line %d) runs after ~Well values were normalised (line %d): the unit it sets on "
                                        "STRT/STOP/STEP is not seen by standardize_value until the next write, so the header "
                                        "drifts from one load/save cycle to the next" % (unparse(ac.func), ac.lineno, nc.lineno))
                        path = cfg.describe_path(pth)
                for (mn, mc) in ms:
                    pth = cfg.find_path(mn, [an], skip_labels=EXC)
                    if pth:
                        problems.append("%s (line %d) changes STRT/STOP/STEP after the ~Well column widths were measured "
                                        "(line %d)" % (unparse(ac.func), ac.lineno, mc.lineno))
        if problems:
            for m in dict.fromkeys(problems):
                ctx.bad("WR.MEASURE", site, fw, ms[0][1], m, path)
        else:
            ctx.ok("WR.MEASURE", site, fw, ms[0][1], "%s: alignment -> normalisation (%d store site(s)) -> measurement -> "
                   "formatting, and no later stage can be followed by an earlier one" % (name, len(ns)))
    # the measurement covers every item: widths are collected per item (list / generator), not keyed by a name that duplicates share
    fg = p.func("writer.get_section_widths")
    keyed = [s_ for s_ in walk_shallow(fg.node) if isinstance(s_, ast.Assign) and isinstance(s_.targets[0], ast.Subscript)
             and not isinstance(s_.targets[0].slice, ast.Constant) and "len(" in ast.unparse(s_.value)]
    mx = [c for c in walk_shallow(fg.node) if isinstance(c, ast.Call) and isinstance(c.func, ast.Name) and c.func.id == "max"]
    # a running maximum (`if w > widest: widest = w` inside the loop over the items) is a max() written out
    running = 0
    for lp_ in [x for x in walk_shallow(fg.node) if isinstance(x, ast.For)]:
        for iff in [x for x in ast.walk(lp_) if isinstance(x, ast.If) and isinstance(x.test, ast.Compare) and len(x.test.ops) == 1
                    and isinstance(x.test.ops[0], (ast.Gt, ast.GtE, ast.Lt, ast.LtE))]:
            sides = {ast.unparse(iff.test.left), ast.unparse(iff.test.comparators[0])}
            if any(isinstance(a_, ast.Assign) and len(a_.targets) == 1 and {ast.unparse(a_.targets[0]), ast.unparse(a_.value)} == sides
                   for a_ in iff.body):
                running += 1
    if not keyed and len(mx) + running < 2:
        ctx.undecided("WR.MEASURE", "writer.get_section_widths#all-items", fg, fg.node, "the widths are not taken with max() over the items "
                      "(nor as a running maximum): how every item is covered is not decided in this form")
        ctx.floor("WR.MEASURE", 2)
        return
    ctx.check(not keyed and len(mx) + running >= 2, "WR.MEASURE", "writer.get_section_widths#all-items", fg, keyed[0] if keyed else fg.node,
              "left and middle widths are the maxima over all items of the section",
              "per-item widths are stored as `%s`: items that share a mnemonic overwrite each other, so the widest of them may not "
              "be measured and its unit is glued to its value" % (unparse(keyed[0]) if keyed else "?"))
    ctx.floor("WR.MEASURE", 2)


def rule_order_key(ctx):
    p = ctx.p
    r = get_resolver(p)
    n = 0
    quals = [q for q, f in sorted(p.functions.items()) if f.module.name == "writer" and f.parent is None and not isinstance(f.node, ast.Lambda)]
    for q in quals:
        fi = p.func(q)
        cfg = build_cfg(p, fi)
        prov = Provenance(cfg)
        ovars = set()
        for s in walk_shallow(fi.node):
            if isinstance(s, ast.Assign) and isinstance(s.value, ast.Call) and "writer.get_section_order_function" in _callee_quals(r, fi, s.value):
                for t in s.targets:
                    if isinstance(t, ast.Name):
                        ovars.add(t.id)
        ovars |= {x for x in fi.params() if "order" in x and "func" in x}
        k = 0
        for node in cfg.nodes:
            if node.ast is None or node.kind not in ("stmt", "test", "for-iter"):
                continue
            src = node.ast.iter if node.kind == "for-iter" else node.ast
            for c in walk_expr_shallow(src):
                if isinstance(c, ast.Call) and isinstance(c.func, ast.Name) and c.func.id in ovars and c.args:
                    k += 1
                    n += 1
                    atoms = prov.atoms(c.args[0], node.id)
                    attrs = {a[1] for a in atoms if a[0] == "attrname"}
                    site = "%s#order-lookup@%d" % (q, k)
                    ok = "original_mnemonic" in attrs and not (attrs & {"mnemonic", "useful_mnemonic"})
                    calls = {a[1] for a in atoms if a[0] == "callname"} & {"items", "keys", "iteritems", "iterkeys"}
                    if calls:
                        ok = False
                    ctx.check(ok, "WR.ORDER-KEY", site, fi, c,
                              "value/descr order is looked up by the item's original_mnemonic (the name that is written)",
                              "the value/descr order is looked up with `%s` (derived from %s), not the original_mnemonic that "
                              "is written: for a duplicated STRT/STOP/STEP/NULL ('NULL:2') in a 1.2 file the wrong order is "
                              "used and value and description are swapped on re-reading" % (
                                  unparse(c.args[0]), sorted(attrs | calls) or "other data"))
    ctx.floor("WR.ORDER-KEY", 2)


def rule_orig_mnem(ctx):
    p = ctx.p
    ff = p.func("writer.get_formatter_function")
    n = 0
    fmts = _formatters(ff)
    if len(fmts) < 2 and not (fmts and _generic_formatter(ff) is not None):
        raise AnalysisError("cannot find the two line-formatting functions in writer.get_formatter_function")
    for nf, body in fmts:
        n += 1
        tup = body.right
        site = "%s#%s" % (ff.qual, nf.name)
        first = tup.elts[0] if isinstance(tup, ast.Tuple) and tup.elts else None
        first = _resolve_local(nf, first) if first is not None else None
        attrs = {a.attr for a in ast.walk(first) if isinstance(a, ast.Attribute)} if first is not None else set()
        attrs -= {"ljust", "rjust", "center", "format"}
        ctx.check("original_mnemonic" in attrs and not (attrs & {"mnemonic", "useful_mnemonic"}), "WR.ORIG-MNEM", site, nf, body,
                  "the mnemonic field of the written line is item.original_mnemonic",
                  "the written mnemonic comes from %s: session names ('RHO:1', 'UNKNOWN') are written to file and duplicates/"
                  "blanks do not survive a round trip" % (sorted(attrs) or unparse(first)))
    # to_csv default header names
    fc = p.func("las.LASFile.to_csv")
    for s in walk_shallow(fc.node):
        if isinstance(s, ast.Assign) and len(s.targets) == 1 and isinstance(s.targets[0], ast.Name) and s.targets[0].id == "mnemonics" \
                and isinstance(s.value, ast.ListComp) and "curves" in ast.unparse(s.value.generators[0].iter):
            n += 1
            attrs = {a.attr for a in ast.walk(s.value.elt) if isinstance(a, ast.Attribute)}
            ctx.check(attrs == {"original_mnemonic"}, "WR.ORIG-MNEM", fc.qual + "#default-mnemonics", fc, s,
                      "to_csv's default header row uses original mnemonics",
                      "to_csv's default header row uses %s" % sorted(attrs))
    ctx.floor("WR.ORIG-MNEM", 2)


def _generic_formatter(ff):
    """get_formatter_function builds ONE formatter whose fields are picked by names computed outside it (`getattr(item, key)` /
    `item[key]`, key a variable of get_formatter_function set from the order): the per-order rules cannot see its fields"""
    keys = set()
    for a in walk_shallow(ff.node):
        if isinstance(a, ast.Assign):
            for t in a.targets:
                keys |= set(target_names(t))
    keys -= set(ff.params())
    if not keys:
        return None
    for x in ast.walk(ff.node):
        if isinstance(x, ast.Call) and isinstance(x.func, ast.Name) and x.func.id == "getattr" and len(x.args) >= 2 \
                and isinstance(x.args[1], ast.Name) and x.args[1].id in keys:
            return x
        if isinstance(x, ast.Subscript) and isinstance(x.slice, ast.Name) and x.slice.id in keys and isinstance(x.ctx, ast.Load):
            return x
    return None


def rule_template(ctx):
    p = ctx.p
    ff = p.func("writer.get_formatter_function")
    gen = _generic_formatter(ff)
    if gen is not None:
        ctx.undecided("WR.TEMPLATE", ff.qual + "#template", ff, gen, "one formatter serves both orders and picks its fields by computed name "
                      "(`%s`): field-by-field template rules are not decided in this form" % unparse(gen))
        ctx.floor("WR.TEMPLATE", 0)
        return
    n = 0
    for nf, b in _formatters(ff):
        n += 1
        tpl = b.left.value
        parts = tpl.split("%s")
        site = "%s#%s:template" % (ff.qual, _order_of(nf, ff) or nf.name)
        pr = []
        if len(parts) != 4:
            pr.append("template %r does not have three fields" % tpl)
        else:
            if parts[0] != "":
                pr.append("text %r precedes the mnemonic" % parts[0])
            if parts[1] != ".":
                pr.append("mnemonic and unit are separated by %r; the reader needs '.' directly followed by the unit "
                          "(a blank after the period makes the unit empty and moves it into the value)" % parts[1])
            if ":" not in parts[2] or not parts[2].startswith(" "):
                pr.append("value and description are separated by %r; the reader needs a ':' set off by a blank" % parts[2])
            if parts[2].count(":") != 1:
                pr.append("separator %r contains more than one ':'" % parts[2])
        # the three fields are item attributes, verbatim or through str(): no `or`, conditional or arithmetic on them
        if isinstance(b.right, ast.Tuple):
            for el in b.right.elts:
                for x in ast.walk(el):
                    helper_names = {nm for nm in ff.nested} | {t_.id for a_ in walk_shallow(ff.node) if isinstance(a_, ast.Assign)
                                                               and isinstance(a_.value, ast.Lambda) for t_ in a_.targets if isinstance(t_, ast.Name)}
                    pad_helpers = {f_.name for f_, rets_ in _helper_funcs(p, ff) if any(
                        (isinstance(b_, ast.Call) and isinstance(b_.func, ast.Attribute) and b_.func.attr in ("ljust", "rjust", "center")) or
                        (isinstance(b_, ast.BinOp) and isinstance(b_.op, ast.Add) and " * " in ast.unparse(b_)) for b_ in rets_)}
                    foreign_call = (isinstance(x, ast.Call) and isinstance(x.func, ast.Name) and x.func.id not in ("str", "repr")
                                    and x.func.id not in helper_names and x.func.id not in pad_helpers)
                    if foreign_call:
                        pr.append("field `%s` passes through `%s(...)` before it is written: what is written is no longer str(<field>), so a "
                                  "value can change on a write/read cycle (e.g. rounded to fewer digits than the data it is compared with)"
                                  % (unparse(el)[:50], x.func.id))
                        break
                    if isinstance(x, (ast.BoolOp, ast.IfExp, ast.BinOp, ast.Compare)) or (
                            isinstance(x, ast.Call) and isinstance(x.func, ast.Attribute) and x.func.attr in ("strip", "replace", "upper", "lower", "format")):
                        pr.append("field `%s` is transformed (`%s`): e.g. `x or ''` writes the legitimate values 0 and 0.0 as an "
                                  "empty field in one layout but not in the other" % (unparse(el), unparse(x)))
                        break
        ctx.check(not pr, "WR.TEMPLATE", site, nf, b, "template %r: MNEM.UNIT<pad>RHS : TAIL" % tpl, "; ".join(dict.fromkeys(pr)))
    if n < 2:
        raise AnalysisError("cannot find the two line-formatting functions in writer.get_formatter_function")
    # middle field builder: unit + blanks + right-hand item (lambda or def, padding possibly in a local)
    mid = None
    for nf, rets in _helper_funcs(p, ff):
        for b in rets:
            if isinstance(b, ast.BinOp) and isinstance(b.op, ast.Add) and len(nf.params()) in (2, 3):
                mid = (nf, b)
    if mid is None:
        ctx.undecided("WR.TEMPLATE", ff.qual + "#middle", ff, ff.node, "no separate middle-field builder (unit + blanks + value) found")
    else:
        nf, b = mid
        params = nf.params()
        flat = []

        def flatten(e):
            if isinstance(e, ast.BinOp) and isinstance(e.op, ast.Add):
                flatten(e.left)
                flatten(e.right)
            else:
                flat.append(_resolve_local(nf, e) if not (isinstance(e, ast.Name) and e.id in params) else e)
        flatten(b)
        pr = []
        if not (isinstance(flat[0], ast.Name) and flat[0].id == params[0]) and not (
                isinstance(flat[0], ast.Call) and any(isinstance(x, ast.Name) and x.id == params[0] for x in ast.walk(flat[0]))):
            pr.append("the middle field does not start with the unit")
        if not (isinstance(flat[-1], ast.Name) and flat[-1].id == params[1]):
            pr.append("the middle field does not end with the right-hand item")
        pads = [e for e in flat[1:-1]]
        if not any(isinstance(e, ast.BinOp) and isinstance(e.op, ast.Mult) and any(
                isinstance(c, ast.Constant) and c.value == " " for c in ast.walk(e)) for e in pads):
            pr.append("no blank padding between unit and value")
        for e in pads:
            for c in ast.walk(e):
                if isinstance(c, ast.Constant) and isinstance(c.value, str) and c.value not in (" ",):
                    pr.append("padding uses %r instead of blanks" % c.value)
        ctx.check(not pr, "WR.TEMPLATE", ff.qual + "#middle", nf, b, "middle field = unit + blanks + right-hand item", "; ".join(pr))
    # mnemonic pad: ljust
    for nf, rets in _helper_funcs(p, ff):
        for b in rets:
            if isinstance(b, ast.Call) and isinstance(b.func, ast.Attribute) and b.func.attr in ("ljust", "rjust", "center"):
                ctx.check(b.func.attr == "ljust", "WR.TEMPLATE", ff.qual + "#mnemonic-pad", nf, b,
                          "mnemonic is left-justified (padding between the mnemonic and the period)",
                          "mnemonic is padded with %s: leading blanks become part of the line start" % b.func.attr)
    ctx.floor("WR.TEMPLATE", 3)


def _order_of(nf, ff):
    """the order constant under whose `if order == C` branch the formatter nf is defined / returned"""
    node = nf.node
    cur = node
    par = getattr(cur, "_parent", None)
    while par is not None and par is not ff.node:
        if isinstance(par, ast.If) and isinstance(par.test, ast.Compare) and isinstance(par.test.comparators[0], ast.Constant):
            return par.test.comparators[0].value
        par = getattr(par, "_parent", None)
    return None


def rule_copy_vers(ctx):
    p = ctx.p
    ea = get_effects(p)
    fw = p.func(WRITE)
    n = 0
    for s in walk_shallow(fw.node):
        if isinstance(s, ast.Assign) and len(s.targets) == 1:
            t = s.targets[0]
            key = None
            if isinstance(t, ast.Attribute) and t.attr == "VERS":
                key, recv = "VERS", t.value
            elif isinstance(t, ast.Subscript) and isinstance(t.slice, ast.Constant) and t.slice.value == "VERS":
                key, recv = "VERS", t.value
            if key is None:
                continue
            n += 1
            site = "%s#vers-store@%d" % (WRITE, n)
            ok = False
            why = ""
            if isinstance(recv, ast.Name):
                defs = [d for d in walk_shallow(fw.node) if isinstance(d, ast.Assign) and any(isinstance(x, ast.Name) and x.id == recv.id for x in d.targets)]
                if defs and all(isinstance(d.value, ast.Call) and (ast.unparse(d.value.func) in ("deepcopy", "copy.deepcopy"))
                                and d.value.args and "version" in ast.unparse(d.value.args[0]) for d in defs):
                    ok = True
                else:
                    why = "`%s` is defined by %s" % (recv.id, [unparse(d.value) for d in defs])
            else:
                why = "the receiver is `%s`" % unparse(recv)
            ctx.check(ok, "WR.COPY-VERS", site, fw, s,
                      "the VERS item for the requested version is stored into deepcopy(las.version)",
                      "the substituted VERS item must go into a deepcopy of the ~Version section (%s): the in-memory VERS "
                      "would change, or the copy loses the section's case-insensitive lookup so VERS is appended next to "
                      "'vers' instead of replacing it" % why)
    if n == 0:
        ctx.bad("WR.COPY-VERS", WRITE + "#vers-store", fw, fw.node, "writer.write never substitutes the VERS item for the "
                "requested version")
    ctx.floor("WR.COPY-VERS", 2)


# ------------------------------------------------------------------------------------------------ reader side

def rule_hdr_post(ctx):
    p = ctx.p
    fi = p.func("reader.parse_header_items_section")
    cfg = build_cfg(p, fi)
    cd = ControlDependence(cfg)
    optp = [x for x in fi.params() if "case" in x]
    if not optp:
        raise AnalysisError("parse_header_items_section has no mnemonic_case parameter")
    opt = optp[0]
    seen = {}
    problems = []
    for node in cfg.nodes:
        a = node.ast
        if node.kind == "stmt" and isinstance(a, ast.Assign) and isinstance(a.targets[0], ast.Subscript) \
                and isinstance(a.targets[0].slice, ast.Constant) and isinstance(a.targets[0].slice.value, str):
            key = a.targets[0].slice.value
            v = a.value
            if key != "name":
                problems.append("the parsed field %r is rewritten (`%s`) before the item is built" % (key, unparse(a)))
                continue
            if not (isinstance(v, ast.Call) and isinstance(v.func, ast.Attribute) and v.func.attr in ("upper", "lower")
                    and ast.unparse(v.func.value) == ast.unparse(a.targets[0])):
                problems.append("the mnemonic is mapped by `%s`, not by exactly upper()/lower()" % unparse(v))
                continue
            fn = v.func.attr
            tests = [(cfg.nodes[tn].ast, lab.startswith("true")) for (tn, lab) in cd.transitive(node.id) if cfg.nodes[tn].kind == "test"]
            ok = any(pol and isinstance(t, ast.Compare) and len(t.ops) == 1 and isinstance(t.ops[0], ast.Eq)
                     and isinstance(t.left, ast.Name) and t.left.id == opt and isinstance(t.comparators[0], ast.Constant)
                     and t.comparators[0].value == fn for t, pol in tests)
            if not ok:
                problems.append("%s() is applied to the mnemonic without %s == %r" % (fn, opt, fn))
            seen[fn] = True
    for fn in ("upper", "lower"):
        if fn not in seen:
            problems.append("mnemonic_case=%r no longer maps the mnemonics with %s()" % (fn, fn))
    ctx.check(not problems, "HDR.POST", fi.qual + "#case-mapping", fi, fi.node,
              "only the name is case-mapped: upper() under mnemonic_case == 'upper', lower() under 'lower'",
              "; ".join(dict.fromkeys(problems)))
    # item constructors: (name, strip_brackets(unit), value, descr)
    for m in ("metadata", "curves", "params"):
        fm = p.func("reader.SectionParser." + m)
        kw = fm.node.args.kwarg.arg if fm.node.args.kwarg else "keys"
        ctor = [c for c in walk_shallow(fm.node) if isinstance(c, ast.Call) and isinstance(c.func, ast.Name) and c.func.id in ("HeaderItem", "CurveItem")]
        pr = []
        if len(ctor) != 1:
            pr.append("expected one item constructor, found %d" % len(ctor))
        for c in ctor:
            args = list(c.args)
            for k in c.keywords:
                pr.append("keyword argument %s=" % k.arg) if k.arg not in ("mnemonic", "unit", "value", "descr") else None
            if len(args) >= 4:
                def fields(e, depth=0):
                    out = {s.slice.value for s in ast.walk(e) if isinstance(s, ast.Subscript) and isinstance(s.value, ast.Name)
                           and s.value.id == kw and isinstance(s.slice, ast.Constant)}
                    # a local that holds the field (the result of an expanded helper): the fields of its definitions
                    if depth < 3:
                        for x in ast.walk(e):
                            if isinstance(x, ast.Name) and x.id != kw and isinstance(x.ctx, ast.Load):
                                for a_ in walk_shallow(fm.node):
                                    if isinstance(a_, ast.Assign) and any(isinstance(t, ast.Name) and t.id == x.id for t in a_.targets):
                                        out |= fields(a_.value, depth + 1)
                    return out
                a0 = args[0]
                if isinstance(a0, ast.Name):
                    dfs_ = [a_.value for a_ in walk_shallow(fm.node) if isinstance(a_, ast.Assign) and any(isinstance(t, ast.Name) and t.id == a0.id for t in a_.targets)]
                    if len(dfs_) == 1:
                        a0 = dfs_[0]          # `mnemonic = keys["name"]` kept in a local
                if fields(a0) != {"name"} or not isinstance(a0, ast.Subscript):
                    pr.append("mnemonic argument is `%s`" % unparse(args[0]))
                if fields(args[1]) != {"unit"}:
                    pr.append("unit argument is `%s`" % unparse(args[1]))
                elif not (isinstance(args[1], ast.Call) and isinstance(args[1].func, ast.Attribute) and args[1].func.attr == "strip_brackets"):
                    pr.append("unit is not passed through strip_brackets")
                for i, nm in ((2, "value"), (3, "descr")):
                    if any(isinstance(x, ast.Call) and isinstance(x.func, ast.Attribute) and x.func.attr == "strip_brackets" for x in ast.walk(args[i])):
                        pr.append("brackets are stripped from the %s" % nm)
                if m != "metadata":
                    if fields(args[2]) != {"value"}:
                        pr.append("value argument is `%s`" % unparse(args[2]))
                    if fields(args[3]) != {"descr"}:
                        pr.append("description argument is `%s`" % unparse(args[3]))
            else:
                pr.append("item constructor has %d positional arguments" % len(args))
        ctx.check(not pr, "HDR.POST", fm.qual + "#item-fields", fm, fm.node,
                  "%s() builds the item as (name, strip_brackets(unit), value, descr)" % m, "; ".join(pr))
    # strip_brackets: removes exactly one enclosing [] or () pair
    fb = p.func("reader.SectionParser.strip_brackets")
    rets = [s for s in walk_shallow(fb.node) if isinstance(s, ast.Return)]
    txt = ast.unparse(fb.node)
    ok = ("x[1:-1]" in txt or "[1:-1]" in txt) and "'['" in txt and "']'" in txt and "'('" in txt and "')'" in txt and len(rets) == 2
    ctx.check(ok, "HDR.POST", fb.qual, fb, fb.node, "strip_brackets removes one enclosing [] or () pair, else returns the stripped text",
              "strip_brackets no longer removes exactly one enclosing [] or () pair")
    ctx.floor("HDR.POST", 5)


def _decode_shape(fi, table_expr_pred):
    """how a function decodes an order-table entry: (default index, pair loop ok, store ok)"""
    default_idx = None
    pair_loop = False
    store = False
    for s in walk_shallow(fi.node):
        if isinstance(s, ast.Assign) and isinstance(s.value, ast.Subscript) and isinstance(s.value.slice, ast.Constant) \
                and isinstance(s.value.slice.value, int) and "order" in ast.unparse(s.targets[0]):
            default_idx = s.value.slice.value
        if isinstance(s, ast.For) and isinstance(s.iter, ast.Subscript) and isinstance(s.iter.slice, ast.Slice) \
                and isinstance(s.iter.slice.lower, ast.Constant) and s.iter.slice.lower.value == 1 and s.iter.slice.upper is None \
                and isinstance(s.target, ast.Tuple) and len(s.target.elts) == 2:
            o, ms = s.target.elts[0].id, s.target.elts[1].id
            for inner in ast.walk(s):
                if isinstance(inner, ast.For) and inner is not s and isinstance(inner.iter, ast.Name) and inner.iter.id == ms:
                    pair_loop = True
                    mv = inner.target.id if isinstance(inner.target, ast.Name) else None
                    for st in ast.walk(inner):
                        if isinstance(st, ast.Assign) and isinstance(st.targets[0], ast.Subscript) and isinstance(st.targets[0].slice, ast.Name) \
                                and st.targets[0].slice.id == mv and isinstance(st.value, ast.Name) and st.value.id == o:
                            store = True
        if isinstance(s, ast.DictComp) and len(s.generators) == 2:
            g1, g2 = s.generators
            if (isinstance(g1.iter, ast.Subscript) and isinstance(g1.iter.slice, ast.Slice) and isinstance(g1.iter.slice.lower, ast.Constant)
                    and g1.iter.slice.lower.value == 1 and g1.iter.slice.upper is None and isinstance(g1.target, ast.Tuple) and len(g1.target.elts) == 2
                    and not g1.ifs and not g2.ifs):
                o, ms = g1.target.elts[0].id, g1.target.elts[1].id
                if isinstance(g2.iter, ast.Name) and g2.iter.id == ms and isinstance(g2.target, ast.Name):
                    pair_loop = True
                    if isinstance(s.key, ast.Name) and s.key.id == g2.target.id and isinstance(s.value, ast.Name) and s.value.id == o:
                        store = True
    return default_idx, pair_loop, store


def rule_ord_table(ctx):
    p = ctx.p
    env = module_env(p, "defaults")
    try:
        table = env("ORDER_DEFINITIONS")
    except NotConst as e:
        raise AnalysisError("cannot fold defaults.ORDER_DEFINITIONS: %s" % e)
    dmod = p.module("defaults")
    node = dmod.globals["ORDER_DEFINITIONS"][0]
    fi = p.func("defaults.get_default_items")
    problems = []
    for need in (1.2, 2.0):
        if need not in table:
            problems.append("version %s, which the writer admits, is not a key of the order table" % need)
    for ver, secs in table.items():
        for sname in SECTIONS:
            if sname not in secs:
                problems.append("version %s has no entry for ~%s" % (ver, sname))
                continue
            ent = secs[sname]
            if not ent or ent[0] not in ("value:descr", "descr:value"):
                problems.append("version %s ~%s: default order is %r" % (ver, sname, ent[0] if ent else None))
            for extra in ent[1:]:
                if not (isinstance(extra, (tuple, list)) and len(extra) == 2 and extra[0] in ("value:descr", "descr:value")
                        and isinstance(extra[1], (list, tuple)) and all(isinstance(m, str) for m in extra[1])):
                    problems.append("version %s ~%s: malformed exception entry %r" % (ver, sname, extra))
        if sname in secs and ver in (2.0, 2.1, 3.0):
            for sname2 in SECTIONS:
                if secs.get(sname2) and secs[sname2][0] != "value:descr":
                    problems.append("version %s ~%s default order is %r (2.x/3.0 are value:descr throughout)" % (ver, sname2, secs[sname2][0]))
    # documented 1.2 content: ~Well is descr:value except STRT/STOP/STEP/NULL
    for ver in (1.0, 1.2):
        if ver in table and "Well" in table[ver]:
            ent = table[ver]["Well"]
            exc = {}
            for o, ms in ent[1:]:
                for m in ms:
                    exc[m] = o
            if ent[0] != "descr:value" or {m.upper() for m, o in exc.items() if o == "value:descr"} != {"STRT", "STOP", "STEP", "NULL"}:
                problems.append("version %s ~Well must be descr:value with exactly STRT/STOP/STEP/NULL as value:descr "
                                "(found default %r, exceptions %s)" % (ver, ent[0], sorted(exc)))
            ups = {m for m in exc if m.isupper()}
            los = {m for m in exc if m.islower()}
            if {m.lower() for m in ups} != los:
                problems.append("version %s ~Well: upper- and lower-case exception mnemonics differ (%s vs %s)" % (ver, sorted(ups), sorted(los)))
    ctx.check(not problems, "ORD.TABLE", "defaults.ORDER_DEFINITIONS#content", fi, node,
              "order table: versions %s x sections %s complete, orders well-formed, 1.x ~Well exceptions as documented" % (
                  sorted(table), list(SECTIONS)), "; ".join(dict.fromkeys(problems)))
    # both decoders use the same constant and the same convention
    rd = p.func("reader.SectionParser.__init__")
    wr = p.func("writer.get_section_order_function")
    r = get_resolver(p)
    for fi2, role in ((rd, "reader"), (wr, "writer")):
        txt = ast.unparse(fi2.node)
        uses = "ORDER_DEFINITIONS" in txt
        # the decoding may live in a private helper the function calls
        d, pl, st = None, False, False
        for cand in [fi2] + [f for q, f in sorted(r.closure([fi2]).items()) if f is not fi2 and f.module.name in ("reader", "writer", "defaults")]:
            d2, pl2, st2 = _decode_shape(cand, None)
            d = d if d is not None else d2
            pl, st = pl or pl2, st or st2
        pr = []
        if not uses:
            pr.append("does not decode defaults.ORDER_DEFINITIONS")
        if d != 0:
            pr.append("takes element %s as the default order (element 0 is the default)" % d)
        if not pl or not st:
            pr.append("does not decode elements 1.. as (order, [mnemonics]) pairs into orders[mnemonic] = order")
        ctx.check(not pr, "ORD.TABLE", "%s#decoder" % fi2.qual, fi2, fi2.node,
                  "%s decodes the shared table: [0] default, [1:] (order, mnemonics) pairs" % role, "%s: %s" % (role, "; ".join(pr)))
    # section names used by both sides are keys of the table
    keys = set()
    for secs in table.values():
        keys |= set(secs)
    names = set()
    names_complete = True
    for s in walk_shallow(rd.node):
        if isinstance(s, ast.Assign) and any(isinstance(t, ast.Attribute) and t.attr == "section_name2" for t in s.targets):
            if isinstance(s.value, ast.Constant):
                names.add(s.value.value)
            elif not (isinstance(s.value, ast.Name) and s.value.id in rd.params()):
                names_complete = False   # e.g. taken from a dispatch table row
        elif isinstance(s, ast.Assign) and len(s.targets) == 1 and isinstance(s.targets[0], ast.Tuple) and any(
                isinstance(t, ast.Attribute) and t.attr == "section_name2" for t in s.targets[0].elts):
            # `method, self.section_name2 = <row of a class-level table>`: the names are column k of that table
            k_ = [i for i, t in enumerate(s.targets[0].elts) if isinstance(t, ast.Attribute) and t.attr == "section_name2"][0]
            row = s.value
            if isinstance(row, ast.Name):
                dfs = [a.value for a in walk_shallow(rd.node) if isinstance(a, ast.Assign) and any(isinstance(t, ast.Name) and t.id == row.id for t in a.targets)]
                row = dfs[0] if len(dfs) == 1 else None
            tab = None
            if isinstance(row, ast.Call) and isinstance(row.func, ast.Attribute) and row.func.attr == "get":
                tab = row.func.value
            elif isinstance(row, ast.Subscript):
                tab = row.value
            got = None
            if isinstance(tab, ast.Attribute) and isinstance(tab.value, ast.Name) and tab.value.id in ("self", "cls") and rd.cls is not None:
                vals = [a.value for a in rd.cls.node.body if isinstance(a, ast.Assign) and any(isinstance(t, ast.Name) and t.id == tab.attr for t in a.targets)]
                if len(vals) == 1 and isinstance(vals[0], ast.Dict) and all(
                        isinstance(v, ast.Tuple) and len(v.elts) > k_ and isinstance(v.elts[k_], ast.Constant) for v in vals[0].values):
                    got = {v.elts[k_].value for v in vals[0].values}
            if got is None:
                names_complete = False
            else:
                names |= got
    fw = p.func(WRITE)
    wnames = set()
    for c in walk_shallow(fw.node):
        if isinstance(c, ast.Call) and isinstance(c.func, ast.Name) and c.func.id == "get_section_order_function" and c.args and isinstance(c.args[0], ast.Constant):
            wnames.add(c.args[0].value)
    if not names_complete:
        ctx.undecided("ORD.TABLE", "ORDER_DEFINITIONS#section-names", rd, rd.node, "the section names of SectionParser are not all "
                      "literal assignments to section_name2")
        ctx.check(names <= keys and wnames <= keys, "ORD.TABLE", "ORDER_DEFINITIONS#section-names:keys", fw, fw.node,
                  "section names used literally by reader and writer are keys of the table", "names %s / %s are not all keys of "
                  "ORDER_DEFINITIONS" % (sorted(names), sorted(wnames)))
    else:
        ctx.check(names <= keys and wnames <= keys and names == wnames, "ORD.TABLE", "ORDER_DEFINITIONS#section-names", fw, fw.node,
                  "reader and writer use the same section names %s, all keys of the table" % sorted(names),
                  "section names differ: reader %s, writer %s, table %s" % (sorted(names), sorted(wnames), sorted(keys)))
    ctx.floor("ORD.TABLE", 4)


def rule_ord_bijection(ctx):
    p = ctx.p
    ff = p.func("writer.get_formatter_function")
    # writer: order constant -> (middle field, tail field)
    wmap = {}
    for nf, body in _formatters(ff):
        const = _order_of(nf, ff)
        if const is None or not (isinstance(body.right, ast.Tuple) and len(body.right.elts) == 3):
            continue
        el = body.right.elts
        mids = [a.attr for a in ast.walk(el[1]) if isinstance(a, ast.Attribute) and a.attr in ("value", "descr")]
        tails = [a.attr for a in ast.walk(el[2]) if isinstance(a, ast.Attribute) and a.attr in ("value", "descr")]
        units = [a.attr for a in ast.walk(el[1]) if isinstance(a, ast.Attribute) and a.attr == "unit"]
        wmap[const] = (mids[0] if len(mids) == 1 else None, tails[0] if len(tails) == 1 else None, bool(units))
    fm = p.func("reader.SectionParser.metadata")
    kw = fm.node.args.kwarg.arg if fm.node.args.kwarg else "keys"
    rmap = {}
    for s in ast.walk(fm.node):
        if isinstance(s, ast.If) and isinstance(s.test, ast.Compare) and isinstance(s.test.comparators[0], ast.Constant) \
                and isinstance(s.test.comparators[0].value, str) and ":" in s.test.comparators[0].value:
            const = s.test.comparators[0].value
            m = {}
            for st in s.body:
                if isinstance(st, ast.Assign) and isinstance(st.targets[0], ast.Name) and isinstance(st.value, ast.Subscript) \
                        and isinstance(st.value.slice, ast.Constant):
                    m[st.targets[0].id] = st.value.slice.value
            rmap[const] = m
    site = "writer/reader#order-bijection"
    problems = []
    gen = _generic_formatter(ff)
    if gen is not None and not wmap:
        ctx.undecided("ORD.BIJECTION", site, ff, gen, "one formatter serves both orders and picks its fields by computed name (`%s`): "
                      "the writer's (before-colon, after-colon) choice per order constant is not decided in this form" % unparse(gen))
        ctx.floor("ORD.BIJECTION", 0)
        return
    if not rmap and wmap:
        ctx.undecided("ORD.BIJECTION", site, fm, fm.node, "SectionParser.metadata() has no `<order> == \"value:descr\"` style branch at all: "
                      "the reader picks value and description by computed field names, which this rule does not evaluate")
        ctx.floor("ORD.BIJECTION", 0)
        return
    for const in ("value:descr", "descr:value"):
        if const not in wmap:
            problems.append("writer has no formatter for order %r" % const)
            continue
        if const not in rmap:
            problems.append("reader has no branch for order %r" % const)
            continue
        mid, tail, hasunit = wmap[const]
        a, b = const.split(":")
        if (mid, tail) != (a, b):
            problems.append("writer formats order %r as <unit><%s> : <%s>; the constant says <%s> : <%s> (get_section_widths "
                            "measures the first component)" % (const, mid, tail, a, b))
        if not hasunit:
            problems.append("writer's middle field for %r lacks the unit" % const)
        # reader: before-colon group is 'value', after-colon group is 'descr'
        rm = rmap[const]
        if rm.get(mid) != "value" or rm.get(tail) != "descr":
            problems.append("for order %r the writer puts %s before the colon and %s after it, but the reader assigns %s: "
                            "value and description are swapped on re-reading" % (const, mid, tail, rm))
    # get_section_widths measures i[<first component>]
    fg = p.func("writer.get_section_widths")
    txt = ast.unparse(fg.node)
    if "split(':')[0]" not in txt:
        problems.append("get_section_widths does not measure the first component of the order (`order.split(':')[0]`)")
    ctx.check(not problems, "ORD.BIJECTION", site, ff, ff.node,
              "for both order constants the writer's (before-colon, after-colon) choice is inverted by the reader's assignment",
              "; ".join(problems))
    ctx.floor("ORD.BIJECTION", 1)


def rule_key_norm(ctx):
    """reader and writer apply the same normalisation to the mnemonic before looking up its order"""
    p = ctx.p
    fm = p.func("reader.SectionParser.metadata")
    rnorm = None
    for c in walk_shallow(fm.node):
        if isinstance(c, ast.Call) and isinstance(c.func, ast.Attribute) and c.func.attr == "get" and "orders" in ast.unparse(c.func.value) and c.args:
            rnorm = sorted({x.func.attr for x in ast.walk(c.args[0]) if isinstance(x, ast.Call) and isinstance(x.func, ast.Attribute)})
        if isinstance(c, ast.Subscript) and "orders" in ast.unparse(c.value) and isinstance(c.ctx, ast.Load):
            rnorm = sorted({x.func.attr for x in ast.walk(c.slice) if isinstance(x, ast.Call) and isinstance(x.func, ast.Attribute)})
    fo = p.func("writer.get_section_order_function")
    wnorm = None
    for nf, rets in _nested_funcs(fo):
        for body in rets:
            for c in ast.walk(body):
                if isinstance(c, ast.Call) and isinstance(c.func, ast.Attribute) and c.func.attr == "get" and c.args:
                    wnorm = sorted({x.func.attr for x in ast.walk(c.args[0]) if isinstance(x, ast.Call) and isinstance(x.func, ast.Attribute)})
                if isinstance(c, ast.Subscript) and isinstance(c.ctx, ast.Load) and "orders" in ast.unparse(c.value):
                    wnorm = sorted({x.func.attr for x in ast.walk(c.slice) if isinstance(x, ast.Call) and isinstance(x.func, ast.Attribute)})
    if rnorm is None or wnorm is None:
        ctx.undecided("ORD.KEY-NORM", "reader/writer#order-lookup-key", fm, fm.node, "order lookups not found in a recognised form "
                      "(reader %s, writer %s)" % (rnorm, wnorm))
        return
    # the reader's order decision is the table lookup and nothing else: the variable that receives it has no other definition
    for s_ in walk_shallow(fm.node):
        if isinstance(s_, ast.Assign) and len(s_.targets) == 1 and isinstance(s_.targets[0], ast.Name) and isinstance(s_.value, ast.Call) \
                and isinstance(s_.value.func, ast.Attribute) and s_.value.func.attr == "get" and "orders" in ast.unparse(s_.value.func.value):
            ov = s_.targets[0].id
            others = [x for x in walk_shallow(fm.node) if isinstance(x, (ast.Assign, ast.AugAssign)) and x is not s_ and any(
                isinstance(t, ast.Name) and t.id == ov for t in (x.targets if isinstance(x, ast.Assign) else [x.target]))]
            ctx.check(not others, "ORD.KEY-NORM", "%s#order-source" % fm.qual, fm, others[0] if others else s_,
                      "the value/description order of a line comes from the order table only",
                      "`%s` overrides the order looked up in the table%s: the writer decides from the table alone, so the two sides "
                      "disagree for such lines and value and description come back swapped" % (
                          unparse(others[0]) if others else "", ""))
    # plus normalisation applied at the writer's call sites (order_func(x.upper()))
    ctx.check(rnorm == wnorm, "ORD.KEY-NORM", "reader/writer#order-lookup-key", fm, fm.node,
              "reader and writer look the order up with the same key normalisation (%s)" % (rnorm or "none"),
              "the reader normalises the lookup key with %s, the writer with %s: for a mixed-case STRT/STOP/STEP/NULL in a "
              "1.2 ~Well section the two sides choose different value/description orders" % (rnorm or "nothing", wnorm or "nothing"))
    ctx.floor("ORD.KEY-NORM", 1)


def rule_version_consistency(ctx):
    """WR.COPY-VERS / WR.ORDER-KEY (version clauses): the copy of ~Version that is written differs from las.version in the VERS
    item only (nothing is deleted from it), and the version handed to get_section_order_function is the very version that the
    written VERS item declares - not a value derived from it (a 1.0 file written with the 2.0 layout but declaring 1.0 is read
    back with value and description swapped)"""
    p = ctx.p
    fw = p.func(WRITE)
    # the copy
    copies = {t.id for s_ in walk_shallow(fw.node) if isinstance(s_, ast.Assign) and isinstance(s_.value, ast.Call)
              and ast.unparse(s_.value.func).endswith("deepcopy") and s_.value.args and "version" in ast.unparse(s_.value.args[0])
              for t in s_.targets if isinstance(t, ast.Name)}
    dels = []
    for sub in walk_shallow(fw.node):
        if isinstance(sub, ast.Delete):
            for t in sub.targets:
                if isinstance(t, ast.Subscript) and isinstance(t.value, ast.Name) and t.value.id in copies:
                    dels.append(sub)
        if isinstance(sub, ast.Call) and isinstance(sub.func, ast.Attribute) and sub.func.attr in ("pop", "remove", "__delitem__", "clear") \
                and isinstance(sub.func.value, ast.Name) and sub.func.value.id in copies:
            dels.append(sub)
    if copies:
        ctx.check(not dels, "WR.COPY-VERS", WRITE + "#copy-complete", fw, dels[0] if dels else fw.node,
                  "nothing is removed from the written copy of ~Version", "`%s` removes an item from the ~Version copy that is written: the "
                  "1.2 and the 2.0 output of one object then differ in more than VERS/WRAP" % (unparse(dels[0])[:60] if dels else ""))
    # the version variable: the one tested where the VERS item is set
    vnames = set()
    for sub in walk_shallow(fw.node):
        if isinstance(sub, ast.If) and isinstance(sub.test, ast.Compare) and isinstance(sub.test.left, ast.Name) \
                and any(isinstance(a_, ast.Assign) and "VERS" in ast.unparse(a_.targets[0]) for a_ in ast.walk(sub)):
            vnames.add(sub.test.left.id)
    calls = [c for c in walk_shallow(fw.node) if isinstance(c, ast.Call) and isinstance(c.func, ast.Name) and c.func.id == "get_section_order_function"
             and len(c.args) >= 2]
    if not vnames or not calls:
        ctx.undecided("WR.ORDER-KEY", WRITE + "#layout-version", fw, fw.node, "version test / order-function calls not found in a recognised form")
        return
    for i, c in enumerate(calls):
        a = c.args[1]
        ctx.check(isinstance(a, ast.Name) and a.id in vnames, "WR.ORDER-KEY", WRITE + "#layout-version@%d" % (i + 1), fw, c,
                  "the layout of section %s is looked up for the version that the VERS item declares" % unparse(c.args[0]),
                  "the layout is looked up for `%s`, not for `%s` which decides the VERS item: a file can declare one version and be laid "
                  "out for another, and the reader (which goes by VERS) swaps value and description" % (unparse(a), sorted(vnames)[0]))


def rule_loop_closures(ctx):
    """WR.LATE-BINDING: a function object created inside a loop (lambda / def, also inside a comprehension) that reads the loop
    variable as a free variable sees the value the variable has when the function is *called*; stored for later (a table of
    per-column formatters) every entry then uses the last value of the loop.  Binding through a default argument (`j=j`) is the
    accepted form."""
    p = ctx.p
    n = 0
    bad = []
    for q, fi in sorted(p.functions.items()):
        if fi.module.name not in ("writer", "las", "excel") or isinstance(fi.node, ast.Lambda):
            continue
        for sub in walk_shallow(fi.node):
            loops = []
            if isinstance(sub, ast.For):
                loops.append((set(target_names(sub.target)), sub.body))
            elif isinstance(sub, (ast.ListComp, ast.SetComp, ast.DictComp, ast.GeneratorExp)):
                tv = set()
                for g in sub.generators:
                    tv |= set(target_names(g.target))
                loops.append((tv, [sub.elt] if not isinstance(sub, ast.DictComp) else [sub.key, sub.value]))
            for tv, body in loops:
                for st in body:
                    for fn in ast.walk(st):
                        if not isinstance(fn, (ast.Lambda, ast.FunctionDef)):
                            continue
                        a = fn.args
                        bound = {x.arg for x in a.args + a.kwonlyargs + getattr(a, "posonlyargs", [])}
                        if a.vararg:
                            bound.add(a.vararg.arg)
                        if a.kwarg:
                            bound.add(a.kwarg.arg)
                        inner = fn.body if isinstance(fn.body, list) else [fn.body]
                        bound |= {x.id for b_ in inner for x in ast.walk(b_) if isinstance(x, ast.Name) and isinstance(x.ctx, ast.Store)}
                        free = {x.id for b_ in inner for x in ast.walk(b_) if isinstance(x, ast.Name) and isinstance(x.ctx, ast.Load)} - bound
                        n += 1
                        captured = sorted(free & tv)
                        if not captured:
                            continue
                        # called on the spot (inside the same iteration) is fine: only flag functions that outlive the iteration
                        par = getattr(fn, "_parent", None)
                        immediate = isinstance(par, ast.Call) and par.func is fn
                        if not immediate:
                            bad.append((fi, fn, captured))
    site = "writer#functions-created-in-loops"
    if bad:
        fi, fn, captured = bad[0]
        ctx.bad("WR.LATE-BINDING", site, fi, fn, "`%s` in %s is created inside a loop and reads the loop variable %s when it is called, not "
                "when it is created: every function of the table uses the last value (all columns formatted like the last one)" % (
                    unparse(fn)[:70], fi.qual, captured))
    else:
        ctx.ok("WR.LATE-BINDING", site, None, 0, "no stored function reads a loop variable late (%d functions created in loops)" % n,
               nontrivial=n > 0)
