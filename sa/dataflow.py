"""Reaching definitions, provenance (origin atoms of an expression) and control dependence on a CFG."""
import ast

from . import networkx
from .loader import walk_expr_shallow
from .cfg import is_exc_label


def target_names(t):
    """names bound by an assignment target"""
    out = []
    if isinstance(t, ast.Name):
        out.append(t.id)
    elif isinstance(t, (ast.Tuple, ast.List)):
        for e in t.elts:
            out += target_names(e)
    elif isinstance(t, ast.Starred):
        out += target_names(t.value)
    return out


def node_defs(node):
    """variable names defined at CFG node"""
    a = node.ast
    k = node.kind
    out = []
    if a is None:
        return out
    if k == "entry":
        args = a.args
        for x in getattr(args, "posonlyargs", []) + args.args + args.kwonlyargs:
            out.append(x.arg)
        if args.vararg:
            out.append(args.vararg.arg)
        if args.kwarg:
            out.append(args.kwarg.arg)
        return out
    if k == "for-iter":
        out += target_names(a.target)
    elif k == "with-enter":
        for it in a.items:
            if it.optional_vars is not None:
                out += target_names(it.optional_vars)
    elif k == "handler":
        if a.name:
            out.append(a.name)
    elif k == "stmt":
        if isinstance(a, ast.Assign):
            for t in a.targets:
                out += target_names(t)
        elif isinstance(a, (ast.AugAssign, ast.AnnAssign)):
            out += target_names(a.target)
        elif isinstance(a, (ast.FunctionDef, ast.ClassDef, ast.AsyncFunctionDef)):
            out.append(a.name)
        elif isinstance(a, (ast.Import, ast.ImportFrom)):
            for al in a.names:
                out.append((al.asname or al.name).split(".")[0])
    if k in ("stmt", "test"):
        for sub in walk_expr_shallow(a):
            if isinstance(sub, ast.NamedExpr):
                out += target_names(sub.target)
    return out


class ReachingDefs(object):
    def __init__(self, cfg):
        self.cfg = cfg
        self.defs_at = {n.id: set(node_defs(n)) for n in cfg.nodes}
        self.IN = {n.id: frozenset() for n in cfg.nodes}
        self.OUT = {n.id: frozenset() for n in cfg.nodes}
        work = [n.id for n in cfg.nodes]
        inwork = set(work)
        while work:
            n = work.pop()
            inwork.discard(n)
            ins = set()
            for p, lab in cfg.pred[n]:
                ins |= self.OUT[p]
            ins = frozenset(ins)
            self.IN[n] = ins
            d = self.defs_at[n]
            if d:
                out = frozenset({(v, dn) for (v, dn) in ins if v not in d} | {(v, n) for v in d})
            else:
                out = ins
            if out != self.OUT[n]:
                self.OUT[n] = out
                for s, lab in cfg.succ[n]:
                    if s not in inwork:
                        inwork.add(s)
                        work.append(s)

    def reaching(self, var, at):
        """definition node ids of `var` reaching the entry of node `at`"""
        return sorted(dn for (v, dn) in self.IN[at] if v == var)


class Provenance(object):
    """Backward origin atoms of expressions.

    atoms:  ("param", name) ("const", value) ("global", name) ("attr", text) ("call", callee text, lineno)
            ("subscript", text) ("iter",) ("op", opname)
    """

    def __init__(self, cfg, rd=None, through_calls=True):
        self.cfg = cfg
        self.rd = rd or ReachingDefs(cfg)
        self.through_calls = through_calls
        self._memo = {}

    def atoms(self, expr, at, _seen=None):
        seen = _seen if _seen is not None else set()
        out = set()
        self._expr(expr, at, out, seen)
        return out

    def defs_of(self, name, at):
        return self.rd.reaching(name, at)

    def _name(self, name, at, out, seen):
        key = (name, at)
        if key in seen:
            return
        seen.add(key)
        dns = self.rd.reaching(name, at)
        if not dns:
            out.add(("global", name))
            return
        for dn in dns:
            self._def(name, dn, out, seen)

    def _def(self, name, dn, out, seen):
        node = self.cfg.nodes[dn]
        a = node.ast
        if node.kind == "entry":
            out.add(("param", name))
        elif node.kind == "for-iter":
            out.add(("iter",))
            self._expr(a.iter, dn, out, seen)
        elif node.kind == "with-enter":
            for it in a.items:
                if it.optional_vars is not None and name in target_names(it.optional_vars):
                    self._expr(it.context_expr, dn, out, seen)
        elif node.kind == "handler":
            out.add(("exception",))
        elif isinstance(a, ast.Assign):
            for t in a.targets:
                if name in target_names(t):
                    self._unpack(t, a.value, name, dn, out, seen)
        elif isinstance(a, ast.AugAssign):
            out.add(("op", type(a.op).__name__))
            self._expr(a.value, dn, out, seen)
            self._name(name, dn, out, seen)
        elif isinstance(a, ast.AnnAssign):
            if a.value is not None:
                self._expr(a.value, dn, out, seen)
        elif isinstance(a, (ast.FunctionDef, ast.ClassDef)):
            out.add(("def", name))
        elif isinstance(a, (ast.Import, ast.ImportFrom)):
            out.add(("import", name))
        else:
            for sub in walk_expr_shallow(a):
                if isinstance(sub, ast.NamedExpr) and name in target_names(sub.target):
                    self._expr(sub.value, dn, out, seen)

    def _unpack(self, target, value, name, dn, out, seen):
        if isinstance(target, ast.Name):
            self._expr(value, dn, out, seen)
            return
        if isinstance(target, (ast.Tuple, ast.List)):
            if isinstance(value, (ast.Tuple, ast.List)) and len(value.elts) == len(target.elts) and not any(
                    isinstance(e, ast.Starred) for e in target.elts):
                for t, v in zip(target.elts, value.elts):
                    if name in target_names(t):
                        self._unpack(t, v, name, dn, out, seen)
                return
            idx = None
            for i, t in enumerate(target.elts):
                if name in target_names(t):
                    idx = i
            out.add(("unpack", idx))
            self._expr(value, dn, out, seen)

    def _expr(self, e, at, out, seen):
        if e is None:
            return
        if isinstance(e, ast.Name):
            self._name(e.id, at, out, seen)
        elif isinstance(e, ast.Constant):
            try:
                hash(e.value)
                out.add(("const", e.value))
            except TypeError:
                out.add(("const", repr(e.value)))
        elif isinstance(e, ast.Attribute):
            out.add(("attr", ast.unparse(e)))
            out.add(("attrname", e.attr))
            self._expr(e.value, at, out, seen)
        elif isinstance(e, ast.Call):
            out.add(("call", ast.unparse(e.func), e.lineno))
            out.add(("callname", call_name(e)))
            if self.through_calls:
                if isinstance(e.func, ast.Attribute):
                    self._expr(e.func.value, at, out, seen)
                for a in e.args:
                    self._expr(a.value if isinstance(a, ast.Starred) else a, at, out, seen)
                for k in e.keywords:
                    self._expr(k.value, at, out, seen)
        elif isinstance(e, ast.Subscript):
            out.add(("subscript", ast.unparse(e)))
            self._expr(e.value, at, out, seen)
            self._expr(e.slice, at, out, seen)
        elif isinstance(e, (ast.Lambda, ast.FunctionDef)):
            out.add(("lambda", getattr(e, "lineno", 0)))
        elif isinstance(e, (ast.ListComp, ast.SetComp, ast.GeneratorExp, ast.DictComp)):
            out.add(("comprehension",))
            bound = set()
            for g in e.generators:
                bound |= set(target_names(g.target))
            for sub in ast.iter_child_nodes(e):
                if isinstance(sub, ast.comprehension):
                    self._expr_excluding(sub.iter, at, out, seen, bound)
                    for c in sub.ifs:
                        self._expr_excluding(c, at, out, seen, bound)
                else:
                    self._expr_excluding(sub, at, out, seen, bound)
        else:
            if isinstance(e, ast.BinOp):
                out.add(("op", type(e.op).__name__))
            elif isinstance(e, ast.UnaryOp):
                out.add(("op", type(e.op).__name__))
            elif isinstance(e, ast.Compare):
                for op in e.ops:
                    out.add(("op", type(op).__name__))
            for sub in ast.iter_child_nodes(e):
                if isinstance(sub, ast.expr) or isinstance(sub, (ast.keyword, ast.Slice, ast.FormattedValue)):
                    if isinstance(sub, ast.keyword):
                        self._expr(sub.value, at, out, seen)
                    else:
                        self._expr(sub, at, out, seen)

    def _expr_excluding(self, e, at, out, seen, bound):
        """comprehension bodies: names bound by the comprehension are not looked up outside"""
        for sub in walk_expr_shallow(e):
            if isinstance(sub, ast.Name) and sub.id in bound:
                sub._bound_in_comp = True
        tmp = set()
        self._expr_skipbound(e, at, tmp, seen)
        out |= tmp

    def _expr_skipbound(self, e, at, out, seen):
        if isinstance(e, ast.Name) and getattr(e, "_bound_in_comp", False):
            out.add(("compvar", e.id))
            return
        if isinstance(e, (ast.Name, ast.Constant)):
            self._expr(e, at, out, seen)
            return
        if isinstance(e, ast.Attribute):
            out.add(("attr", ast.unparse(e)))
            out.add(("attrname", e.attr))
            self._expr_skipbound(e.value, at, out, seen)
            return
        if isinstance(e, ast.Call):
            out.add(("call", ast.unparse(e.func), e.lineno))
            out.add(("callname", call_name(e)))
            if isinstance(e.func, ast.Attribute):
                self._expr_skipbound(e.func.value, at, out, seen)
            for a in e.args:
                self._expr_skipbound(a.value if isinstance(a, ast.Starred) else a, at, out, seen)
            for k in e.keywords:
                self._expr_skipbound(k.value, at, out, seen)
            return
        if isinstance(e, ast.Subscript):
            out.add(("subscript", ast.unparse(e)))
        for sub in ast.iter_child_nodes(e):
            if isinstance(sub, ast.keyword):
                self._expr_skipbound(sub.value, at, out, seen)
            elif isinstance(sub, ast.comprehension):
                self._expr_skipbound(sub.iter, at, out, seen)
                for c in sub.ifs:
                    self._expr_skipbound(c, at, out, seen)
            elif isinstance(sub, (ast.expr, ast.Slice, ast.FormattedValue)):
                self._expr_skipbound(sub, at, out, seen)


def call_name(call):
    f = call.func
    if isinstance(f, ast.Name):
        return f.id
    if isinstance(f, ast.Attribute):
        return f.attr
    return ast.unparse(f)


class ControlDependence(object):
    """Control dependence on the CFG without exception edges (Ferrante et al.)."""

    def __init__(self, cfg):
        self.cfg = cfg
        nx = networkx()
        g = {}
        VEXIT = -1
        for n in cfg.nodes:
            g.setdefault(n.id, [])
        for n in cfg.nodes:
            for t, lab in cfg.succ[n.id]:
                if is_exc_label(lab):
                    continue
                g[n.id].append((t, lab))
        g[VEXIT] = []
        for n in cfg.nodes:
            if n.id in (cfg.exit, cfg.raise_exit) or not g[n.id]:
                g[n.id] = g[n.id] + [(VEXIT, "end")]
        self.g = g
        # post-dominators = dominators of the reverse graph rooted at VEXIT
        if nx is not None:
            R = nx.DiGraph()
            R.add_nodes_from(g)
            for a, outs in g.items():
                for b, lab in outs:
                    R.add_edge(b, a)
            ip = dict(nx.immediate_dominators(R, VEXIT))
            ip[VEXIT] = VEXIT
        else:
            ip = _idom_fallback(g, VEXIT)
        self.ipdom = ip
        self.deps = {n: set() for n in g}
        for a, outs in g.items():
            if len(outs) < 2:
                continue
            for b, lab in outs:
                if a not in ip or b not in ip:
                    continue
                stop = ip.get(a)
                cur = b
                guard = 0
                while cur != stop and cur is not None and guard < 10000:
                    self.deps[cur].add((a, lab))
                    nxt = ip.get(cur)
                    if nxt == cur:
                        break
                    cur = nxt
                    guard += 1

    def direct(self, n):
        return set(self.deps.get(n, ()))

    def transitive(self, n):
        out = set()
        work = [n]
        seen = set()
        while work:
            x = work.pop()
            if x in seen:
                continue
            seen.add(x)
            for (a, lab) in self.deps.get(x, ()):
                if (a, lab) not in out:
                    out.add((a, lab))
                    work.append(a)
        return out


def _idom_fallback(g, root):
    """iterative dominators on the reversed graph (used only if networkx is unavailable)"""
    rev = {n: [] for n in g}
    for a, outs in g.items():
        for b, lab in outs:
            rev[b].append(a)
    # reverse graph: edges b->a ; dominators from root
    succ = rev
    pred = {n: [] for n in g}
    for a, outs in succ.items():
        for b in outs:
            pred[b].append(a)
    order = []
    seen = set()

    def dfs(n):
        stack = [(n, iter(succ[n]))]
        seen.add(n)
        while stack:
            x, it = stack[-1]
            for y in it:
                if y not in seen:
                    seen.add(y)
                    stack.append((y, iter(succ[y])))
                    break
            else:
                order.append(x)
                stack.pop()
    dfs(root)
    rpo = list(reversed(order))
    idx = {n: i for i, n in enumerate(rpo)}
    idom = {root: root}
    changed = True
    while changed:
        changed = False
        for n in rpo[1:]:
            ps = [p for p in pred[n] if p in idom]
            if not ps:
                continue
            new = ps[0]
            for p in ps[1:]:
                a, b = p, new
                while a != b:
                    while idx[a] > idx[b]:
                        a = idom[a]
                    while idx[b] > idx[a]:
                        b = idom[b]
                new = a
            if idom.get(n) != new:
                idom[n] = new
                changed = True
    return idom
