"""Small AST helpers shared by the rules."""
import ast

from .cfg import is_catch_all


def parents(node):
    cur = getattr(node, "_parent", None)
    while cur is not None:
        yield cur
        cur = getattr(cur, "_parent", None)


def enclosing(node, types):
    for p in parents(node):
        if isinstance(p, types):
            return p
    return None


def in_block(node, block):
    """is `node` (transitively) inside one of the statements of list `block`?"""
    ids = {id(s) for s in block}
    cur = node
    while cur is not None:
        if id(cur) in ids:
            return True
        cur = getattr(cur, "_parent", None)
    return False


def protecting_try(node, stop_at=None, accept=("all", "exception")):
    """innermost enclosing Try whose *body* contains node and which has a catch-all handler"""
    cur = node
    for p in parents(node):
        if p is stop_at:
            return None
        if isinstance(p, (ast.FunctionDef, ast.Lambda, ast.AsyncFunctionDef)):
            return None
        if isinstance(p, ast.Try) and in_block(cur, p.body):
            for h in p.handlers:
                if is_catch_all(h) in accept:
                    return p
        cur = p
    return None


def names_in(node):
    return {n.id for n in ast.walk(node) if isinstance(n, ast.Name)}


def const_str_set(node):
    """set of strings if node is a tuple/list/set of string constants (or a single one), else None"""
    if isinstance(node, ast.Constant) and isinstance(node.value, str):
        return {node.value}
    if isinstance(node, (ast.Tuple, ast.List, ast.Set)):
        out = set()
        for e in node.elts:
            if isinstance(e, ast.Constant) and isinstance(e.value, str):
                out.add(e.value)
            else:
                return None
        return out
    return None


def unparse(node, n=90):
    t = " ".join(ast.unparse(node).split())
    return t if len(t) <= n else t[: n - 3] + "..."


def call_func_text(call):
    return ast.unparse(call.func)


def is_name(node, name):
    return isinstance(node, ast.Name) and node.id == name


def strip_calls(node, methods=("strip", "lstrip", "rstrip")):
    """peel .strip()-like calls: returns (inner expr, list of methods peeled outermost-first)"""
    peeled = []
    while (isinstance(node, ast.Call) and isinstance(node.func, ast.Attribute) and node.func.attr in methods):
        peeled.append(node.func.attr)
        node = node.func.value
    return node, peeled


def ordn(node):
    """textual position of a node in the normalised tree (falls back to the line number)"""
    return getattr(node, "_ord", getattr(node, "lineno", 0))
