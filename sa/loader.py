"""Parse the lasio package under $LASIO_SRC (default /repo) and index its definitions.

Qualified names are ``<module>.<func>``, ``<module>.<Class>.<method>``, nested definitions
``<outer>.<inner>`` and lambdas ``<outer>.<lambda#k>`` (k = order of appearance in the enclosing
function).  Nothing is imported.
"""
import ast
import hashlib
import os

from . import AnalysisError


class FuncInfo(object):
    def __init__(self, qual, module, cls, node, parent):
        self.qual = qual
        self.module = module          # ModuleInfo
        self.cls = cls                # ClassInfo or None
        self.node = node              # FunctionDef / Lambda
        self.parent = parent          # enclosing FuncInfo or None
        self.nested = {}              # short name -> FuncInfo

    @property
    def name(self):
        return self.qual.rsplit(".", 1)[-1]

    @property
    def file(self):
        return self.module.relpath

    @property
    def line(self):
        return self.node.lineno

    def params(self):
        a = self.node.args
        names = [x.arg for x in getattr(a, "posonlyargs", [])] + [x.arg for x in a.args]
        if a.vararg:
            names.append(a.vararg.arg)
        names += [x.arg for x in a.kwonlyargs]
        if a.kwarg:
            names.append(a.kwarg.arg)
        return names

    def __repr__(self):
        return "<func %s>" % self.qual


class ClassInfo(object):
    def __init__(self, qual, module, node):
        self.qual = qual
        self.module = module
        self.node = node
        self.methods = {}
        self.base_names = [ast.unparse(b) for b in node.bases]
        self.bases = []   # resolved ClassInfo objects (lasio-internal only)

    @property
    def name(self):
        return self.node.name

    def mro(self):
        out = [self]
        for b in self.bases:
            for c in b.mro():
                if c not in out:
                    out.append(c)
        return out

    def find_method(self, name):
        for c in self.mro():
            if name in c.methods:
                return c.methods[name]
        return None

    def external_bases(self):
        ext = []
        for c in self.mro():
            for bn in c.base_names:
                if not any(b.name == bn.split(".")[-1] for b in c.bases):
                    ext.append(bn)
        return ext


class ModuleInfo(object):
    def __init__(self, name, path, relpath, source, raw_trees=None):
        self.name = name
        self.path = path
        self.relpath = relpath
        self.source = source
        self.tree = ast.parse(source, filename=path)
        self.normalized = {}
        if os.environ.get("LASIO_SA_NORMALIZE", "1") != "0":
            from .normalize import normalize, extern_helpers
            ext = extern_helpers(self.tree, name, raw_trees or {})
            self.normalized = normalize(self.tree, ext, name)
        self.lines = source.splitlines()
        # alias -> ("module", modname) | ("name", modname, attr)
        self.imports = {}
        self.functions = {}
        self.classes = {}
        self.globals = {}   # name -> list of assigned value nodes (module level)


class Project(object):
    def __init__(self, root=None):
        self.root = os.path.abspath(root or os.environ.get("LASIO_SRC") or "/repo")
        self.pkg = os.path.join(self.root, "lasio")
        if not os.path.isdir(self.pkg):
            raise AnalysisError("no lasio package under %s" % self.root)
        self.modules = {}
        self.functions = {}
        self.classes = {}
        h = hashlib.sha256()
        sources = {}
        for fn in sorted(os.listdir(self.pkg)):
            if not fn.endswith(".py"):
                continue
            path = os.path.join(self.pkg, fn)
            with open(path, encoding="utf-8") as f:
                sources[fn] = (path, f.read())
        # raw trees of every module (private constants propagated) so that private helpers imported from another module of the
        # package can be inlined where they are used
        raw_trees = {}
        if os.environ.get("LASIO_SA_NORMALIZE", "1") != "0":
            from .normalize import propagate_constants
            for fn, (path, src) in sources.items():
                try:
                    t = ast.parse(src, filename=path)
                except SyntaxError as e:
                    raise AnalysisError("cannot parse %s: %s" % (path, e))
                propagate_constants(t, fn[:-3])
                raw_trees[fn[:-3]] = t
        for fn, (path, src) in sorted(sources.items()):
            h.update(fn.encode())
            h.update(src.encode("utf-8"))
            name = fn[:-3]
            try:
                mod = ModuleInfo(name, path, "lasio/" + fn, src, raw_trees)
            except SyntaxError as e:
                raise AnalysisError("cannot parse %s: %s" % (path, e))
            self.modules[name] = mod
        self.digest = h.hexdigest()
        if os.environ.get("LASIO_SA_NORMALIZE", "1") != "0":
            from .normalize import propagate_default_params, fold_constant_strings, lower_getsetattr, inline_helpers, \
                inline_expression_helpers, extern_helpers, _collapse_result_copies
            trees = {m.name: m.tree for m in self.modules.values()}
            for t in trees.values():
                for c in t.body:
                    if isinstance(c, ast.ClassDef):
                        for f in c.body:
                            if isinstance(f, ast.FunctionDef):
                                f._parent_class = c.name
            for _round in range(3):
                n = propagate_default_params(trees)
                for m in self.modules.values():
                    k = fold_constant_strings(m.tree)
                    if k:
                        _collapse_result_copies(m.tree)      # pruned branches leave `tmp = x; use(tmp)` chains behind
                    n += k
                    lower_getsetattr(m.tree)
                    ext = extern_helpers(m.tree, m.name, raw_trees)
                    n += inline_helpers(m.tree, ext, m.name)
                    n += inline_expression_helpers(m.tree, ext)
                if not n:
                    break
        for m in self.modules.values():
            for node in ast.walk(m.tree):
                for child in ast.iter_child_nodes(node):
                    child._parent = node
            # textual order after normalisation (expanded helper bodies keep the helper's line numbers, for reporting)
            k = 0
            stack = [m.tree]
            while stack:
                node = stack.pop()
                node._ord = k
                k += 1
                stack.extend(reversed(list(ast.iter_child_nodes(node))))
        for mod in self.modules.values():
            self._index_module(mod)
        for cls in self.classes.values():
            for bn in cls.base_names:
                target = self._resolve_class_name(cls.module, bn)
                if target is not None:
                    cls.bases.append(target)
        self._cache = {}

    # -- indexing -------------------------------------------------------------------------
    def _index_module(self, mod):
        for node in mod.tree.body:
            self._index_imports(mod, node)
            if isinstance(node, (ast.Try, ast.If)):
                for sub in ast.walk(node):
                    self._index_imports(mod, sub)
        for node in mod.tree.body:
            if isinstance(node, (ast.FunctionDef, ast.AsyncFunctionDef)):
                self._index_function(mod, None, None, node, mod.name)
            elif isinstance(node, ast.ClassDef):
                cq = mod.name + "." + node.name
                ci = ClassInfo(cq, mod, node)
                self.classes[cq] = ci
                mod.classes[node.name] = ci
                for sub in node.body:
                    if isinstance(sub, (ast.FunctionDef, ast.AsyncFunctionDef)):
                        fi = self._index_function(mod, ci, None, sub, cq, register=False)
                        # property setters share the name: keep getter under the name, setter as name.setter
                        key = sub.name
                        for d in sub.decorator_list:
                            if isinstance(d, ast.Attribute) and d.attr in ("setter", "deleter"):
                                key = sub.name + "." + d.attr
                        fi.qual = cq + "." + key
                        ci.methods[key] = fi
                        self.functions[fi.qual] = fi
                        self._index_nested(mod, ci, fi)
            elif isinstance(node, (ast.Assign, ast.AnnAssign, ast.AugAssign)):
                targets = node.targets if isinstance(node, ast.Assign) else [node.target]
                for t in targets:
                    if isinstance(t, ast.Name):
                        mod.globals.setdefault(t.id, []).append(node.value)

    def _index_imports(self, mod, node):
        if isinstance(node, ast.Import):
            for a in node.names:
                mod.imports[a.asname or a.name.split(".")[0]] = ("module", a.name)
        elif isinstance(node, ast.ImportFrom):
            base = node.module or ""
            for a in node.names:
                alias = a.asname or a.name
                if node.level and not base:
                    mod.imports[alias] = ("module", "lasio." + a.name)
                elif node.level:
                    mod.imports[alias] = ("name", "lasio." + base, a.name)
                else:
                    mod.imports[alias] = ("name", base, a.name)

    def _index_function(self, mod, cls, parent, node, prefix, register=True):
        qual = prefix + "." + node.name
        fi = FuncInfo(qual, mod, cls, node, parent)
        if register:
            self.functions[qual] = fi
            if parent is None and cls is None:
                mod.functions[node.name] = fi
            self._index_nested(mod, cls, fi)
        return fi

    def _index_nested(self, mod, cls, fi):
        k = 0
        for sub in walk_shallow(fi.node):
            if isinstance(sub, (ast.FunctionDef, ast.AsyncFunctionDef)):
                q = fi.qual + "." + sub.name
                nf = FuncInfo(q, mod, cls, sub, fi)
                self.functions[q] = nf
                fi.nested[sub.name] = nf
                self._index_nested(mod, cls, nf)
            elif isinstance(sub, ast.Lambda):
                k += 1
                q = fi.qual + ".<lambda#%d>" % k
                nf = FuncInfo(q, mod, cls, sub, fi)
                self.functions[q] = nf
                fi.nested["<lambda#%d>" % k] = nf
                sub._lambda_info = nf
                self._index_nested(mod, cls, nf)

    def _resolve_class_name(self, mod, name):
        short = name.split(".")[-1]
        if "." not in name and short in mod.classes:
            return mod.classes[short]
        head = name.split(".")[0]
        imp = mod.imports.get(head)
        if imp:
            if imp[0] == "name" and imp[1].startswith("lasio."):
                m = self.modules.get(imp[1].split(".", 1)[1])
                if m and imp[2] in m.classes:
                    return m.classes[imp[2]]
            if imp[0] == "module" and imp[1].startswith("lasio.") and "." in name:
                m = self.modules.get(imp[1].split(".", 1)[1])
                if m and short in m.classes:
                    return m.classes[short]
        return None

    # -- lookups --------------------------------------------------------------------------
    def func(self, qual, *alternatives):
        for q in (qual,) + alternatives:
            if q in self.functions:
                return self.functions[q]
        raise AnalysisError("anchor function %s not found in %s" % (qual, self.root))

    def has_func(self, qual):
        return qual in self.functions

    def cls(self, qual):
        if qual in self.classes:
            return self.classes[qual]
        raise AnalysisError("anchor class %s not found in %s" % (qual, self.root))

    def module(self, name):
        if name in self.modules:
            return self.modules[name]
        raise AnalysisError("anchor module %s not found in %s" % (name, self.root))

    def all_functions(self, modules=None):
        for q, f in sorted(self.functions.items()):
            if modules is None or f.module.name in modules:
                yield f

    def cached(self, key, builder):
        if key not in self._cache:
            self._cache[key] = builder()
        return self._cache[key]


def walk_shallow(func_node):
    """Yield nodes of a function body without descending into nested defs/lambdas/classes
    (the nested definition node itself is yielded)."""
    if isinstance(func_node, ast.Lambda):
        stack = [func_node.body]
    else:
        stack = list(reversed(func_node.body))
    while stack:
        n = stack.pop()
        yield n
        if isinstance(n, (ast.FunctionDef, ast.AsyncFunctionDef, ast.Lambda, ast.ClassDef)):
            continue
        stack.extend(reversed(list(ast.iter_child_nodes(n))))


def walk_expr_shallow(node):
    """Walk an arbitrary node, not descending into nested function definitions / lambdas."""
    stack = [node]
    first = True
    while stack:
        n = stack.pop()
        yield n
        if not first and isinstance(n, (ast.FunctionDef, ast.AsyncFunctionDef, ast.Lambda, ast.ClassDef)):
            continue
        first = False
        stack.extend(reversed(list(ast.iter_child_nodes(n))))
