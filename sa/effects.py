"""May-write effect summaries over access paths.

A path is a tuple (root, field, field, ...):
  root  ("param", name) | ("global", module, name) | ("fresh",) | ("closure", name)
  field ("attr", name) | ("elem", key)      key = constant or "*"
LASFile's section properties are canonicalised: las.well == las.sections["Well"] etc.

SectionItems / HeaderItem are *modelled by contract* (their hooks dispatch on runtime types); the contract itself
is what the C13/C15 rules verify against las_items.py:
  S[K] = item / S.K = item        -> ("replace", S[K])
  S[K] = other / S.K = other      -> ("store",   S[K].value)
  S.append/insert/pop/remove/extend/sort/reverse/clear, del S[K], S.get(.., add=True) -> ("struct", S)
  S.assign_duplicate_suffixes()   -> ("store", S[*].mnemonic)      (session name only)
  item.mnemonic = v               -> ("store", item.mnemonic) + ("store", item.original_mnemonic)
  item.set_session_mnemonic_only  -> ("store", item.mnemonic)
All other lasio functions are summarised from their code and propagated through the call graph with
argument/receiver binding.
"""
import ast

from .loader import walk_shallow, walk_expr_shallow
from .resolve import get_resolver, _is_property

FRESH = (("fresh",),)
SECTION_PROPS = {"version": "Version", "well": "Well", "curves": "Curves", "params": "Parameter", "other": "Other"}
LIST_MUTATORS = {"append", "insert", "pop", "remove", "extend", "sort", "reverse", "clear", "__setitem__",
                 "__delitem__", "__iadd__"}
DICT_MUTATORS = {"update", "setdefault", "popitem", "pop", "clear", "__setitem__", "__delitem__"}
ARRAY_MUTATORS = {"fill", "sort", "resize", "itemset", "put", "partition", "byteswap", "setfield", "setflags"}
ALIAS_PRESERVING_CALLS = {"asarray", "asanyarray", "ascontiguousarray", "ravel", "reshape", "view", "squeeze",
                          "transpose", "values", "itervalues", "iter", "list_view"}
NP_INPLACE_FUNCS = {"put", "place", "copyto", "putmask", "fill_diagonal", "shuffle"}
CONTAINER_CLASSES = {"SectionItems"}
ITEM_CLASSES = {"HeaderItem", "CurveItem"}
MODELLED_CLASSES = CONTAINER_CLASSES | ITEM_CLASSES


def fmt_path(p):
    out = ""
    root = p[0]
    if root[0] == "param":
        out = root[1]
    elif root[0] == "global":
        out = "<global %s.%s>" % (root[1], root[2])
    elif root[0] == "closure":
        out = "<closure %s>" % root[1]
    else:
        out = "<fresh>"
    for f in p[1:]:
        if f[0] == "attr":
            out += "." + f[1]
        else:
            out += "[%s]" % (f[1],)
    return out


class Effect(object):
    __slots__ = ("kind", "path", "fi", "node", "rhs", "via")

    def __init__(self, kind, path, fi, node, rhs=None, via=()):
        self.kind, self.path, self.fi, self.node, self.rhs, self.via = kind, path, fi, node, rhs, via

    def key(self):
        return (self.kind, self.path)

    def __repr__(self):
        return "<%s %s @%s:%s>" % (self.kind, fmt_path(self.path), self.fi.qual, getattr(self.node, "lineno", "?"))


def is_fresh(p):
    return p[0][0] == "fresh"


class EffectAnalysis(object):
    def __init__(self, project):
        self.p = project
        self.r = get_resolver(project)
        self._env = {}
        self._local = {}
        self._summary = {}
        self._retpaths = {}
        self._in_progress = set()

    # ------------------------------------------------------------------ paths
    def canon(self, path, fi=None):
        """canonicalise LASFile section properties to .sections[<Name>]"""
        out = [path[0]]
        for f in path[1:]:
            if f[0] == "attr" and f[1] in SECTION_PROPS:
                out.append(("attr", "sections"))
                out.append(("elem", SECTION_PROPS[f[1]]))
            else:
                out.append(f)
        return tuple(out)

    def env(self, fi):
        if fi.qual in self._env:
            return self._env[fi.qual]
        env = {}
        self._env[fi.qual] = env
        for pn in fi.params():
            env[pn] = {(("param", pn),)}
        node = fi.node
        if isinstance(node, ast.Lambda):
            return env
        for _ in range(4):
            changed = False
            for sub in walk_shallow(node):
                if isinstance(sub, ast.Assign):
                    vp = self.paths_of(sub.value, fi)
                    for t in sub.targets:
                        changed |= self._bind(env, t, sub.value, vp, fi)
                elif isinstance(sub, ast.AnnAssign) and sub.value is not None:
                    changed |= self._bind(env, sub.target, sub.value, self.paths_of(sub.value, fi), fi)
                elif isinstance(sub, (ast.For, ast.comprehension)):
                    changed |= self._bind_loop(env, sub.target, sub.iter, fi)
                elif isinstance(sub, ast.With):
                    for it in sub.items:
                        if isinstance(it.optional_vars, ast.Name):
                            changed |= _add(env, it.optional_vars.id, {FRESH[0:1]})
                elif isinstance(sub, ast.NamedExpr) and isinstance(sub.target, ast.Name):
                    changed |= _add(env, sub.target.id, self.paths_of(sub.value, fi))
            if not changed:
                break
        return env

    def _bind(self, env, target, value, vpaths, fi):
        ch = False
        if isinstance(target, ast.Name):
            ch |= _add(env, target.id, vpaths)
        elif isinstance(target, (ast.Tuple, ast.List)):
            if isinstance(value, (ast.Tuple, ast.List)) and len(value.elts) == len(target.elts):
                for t, v in zip(target.elts, value.elts):
                    ch |= self._bind(env, t, v, self.paths_of(v, fi), fi)
            else:
                for t in target.elts:
                    if isinstance(t, ast.Starred):
                        t = t.value
                    ch |= self._bind(env, t, None, {p + (("elem", "*"),) if not is_fresh(p) else p for p in vpaths}, fi)
        return ch

    def _bind_loop(self, env, target, it, fi):
        ch = False
        cn = it.func.attr if isinstance(it, ast.Call) and isinstance(it.func, ast.Attribute) else (
            it.func.id if isinstance(it, ast.Call) and isinstance(it.func, ast.Name) else None)
        if cn == "enumerate" and it.args and isinstance(target, ast.Tuple) and len(target.elts) == 2:
            return self._bind_loop(env, target.elts[1], it.args[0], fi)
        if cn == "zip" and isinstance(target, ast.Tuple) and len(target.elts) == len(it.args):
            for t, a in zip(target.elts, it.args):
                ch |= self._bind_loop(env, t, a, fi)
            return ch
        if cn in ("items", "iteritems") and isinstance(target, ast.Tuple) and len(target.elts) == 2:
            base = self.paths_of(it.func.value, fi)
            return self._bind(env, target.elts[1], None, _elem(base), fi)
        if cn in ("reversed", "sorted", "list", "tuple", "iter") and it.args:
            return self._bind_loop(env, target, it.args[0], fi)
        base = self.paths_of(it, fi)
        return self._bind(env, target, None, _elem(base), fi)

    def _loop_binding(self, name_node, fi):
        """if the Name is used inside a for-loop / comprehension that binds it, only that loop's binding counts
        (loop variables are commonly re-used across consecutive loops)"""
        from .dataflow import target_names
        cur = name_node
        par = getattr(cur, "_parent", None)
        while par is not None and not isinstance(par, (ast.FunctionDef, ast.AsyncFunctionDef, ast.Lambda)):
            if isinstance(par, ast.For) and cur is not par.iter and name_node.id in target_names(par.target):
                tmp = {}
                self._bind_loop(tmp, par.target, par.iter, fi)
                return set(tmp.get(name_node.id, set()))
            if isinstance(par, (ast.ListComp, ast.SetComp, ast.GeneratorExp, ast.DictComp)):
                for g in par.generators:
                    if name_node.id in target_names(g.target) and cur is not g.iter:
                        tmp = {}
                        self._bind_loop(tmp, g.target, g.iter, fi)
                        return set(tmp.get(name_node.id, set()))
            cur = par
            par = getattr(par, "_parent", None)
        return None

    def lookup_name(self, name, fi):
        env = self.env(fi)
        if name in env:
            return set(env[name])
        par = fi.parent
        while par is not None:
            penv = self.env(par)
            if name in penv:
                # closure variable: express in terms of the parent's paths
                return set(penv[name])
            par = par.parent
        mod = fi.module
        if name in mod.globals:
            return {(("global", mod.name, name),)}
        imp = mod.imports.get(name)
        if imp and imp[0] == "name" and imp[1].startswith("lasio."):
            m = self.p.modules.get(imp[1].split(".", 1)[1])
            if m is not None and imp[2] in m.globals:
                return {(("global", m.name, imp[2]),)}
        return set()

    def paths_of(self, e, fi):
        """set of paths the value of expression e may alias"""
        if e is None:
            return set()
        if isinstance(e, ast.Name):
            lb = self._loop_binding(e, fi)
            if lb is not None:
                return lb
            return self.lookup_name(e.id, fi)
        if isinstance(e, ast.Attribute):
            # module attribute -> global
            bts = self.r.type_of(fi, e.value)
            for bt in bts:
                if bt[0] == "mod" and bt[1].startswith("lasio."):
                    m = self.p.modules.get(bt[1].split(".", 1)[1])
                    if m is not None and e.attr in m.globals:
                        return {(("global", m.name, e.attr),)}
                    return set()
            base = self.paths_of(e.value, fi)
            out = set()
            # property getters: substitute their return path
            prop = None
            for bt in bts:
                if bt[0] == "inst":
                    m = bt[1].find_method(e.attr)
                    if m is not None and _is_property(m.node) and e.attr not in SECTION_PROPS:
                        prop = m
            for p in base:
                if is_fresh(p):
                    out.add(p)
                elif prop is not None:
                    rps = self.return_paths(prop)
                    if not rps:
                        out.add(FRESH[0:1])
                    for rp in rps:
                        out |= self._subst(rp, {"self": {p}})
                else:
                    out.add(self.canon(p + (("attr", e.attr),)))
            return out
        if isinstance(e, ast.Subscript):
            base = self.paths_of(e.value, fi)
            if isinstance(e.slice, ast.Slice):
                return base
            key = e.slice.value if isinstance(e.slice, ast.Constant) else "*"
            if isinstance(e.slice, ast.UnaryOp) and isinstance(e.slice.op, ast.USub) and isinstance(e.slice.operand, ast.Constant):
                key = -e.slice.operand.value
            return {self.canon(p + (("elem", key),)) if not is_fresh(p) else p for p in base}
        if isinstance(e, ast.IfExp):
            return self.paths_of(e.body, fi) | self.paths_of(e.orelse, fi)
        if isinstance(e, ast.BoolOp):
            out = set()
            for v in e.values:
                out |= self.paths_of(v, fi)
            return out
        if isinstance(e, ast.Starred):
            return self.paths_of(e.value, fi)
        if isinstance(e, ast.Call):
            f = e.func
            cn = f.attr if isinstance(f, ast.Attribute) else (f.id if isinstance(f, ast.Name) else "")
            if cn in ("deepcopy",):
                return {FRESH[0:1]}
            if isinstance(f, ast.Attribute) and cn in ALIAS_PRESERVING_CALLS:
                bts = self.r.type_of(fi, f.value)
                if any(bt[0] == "mod" for bt in bts):
                    return self.paths_of(e.args[0], fi) if e.args else {FRESH[0:1]}
                return self.paths_of(f.value, fi)
            if isinstance(f, ast.Attribute) and cn in ("get", "__getitem__", "pop") and e.args:
                base = self.paths_of(f.value, fi)
                key = e.args[0].value if isinstance(e.args[0], ast.Constant) else "*"
                return {self.canon(p + (("elem", key),)) if not is_fresh(p) else p for p in base}
            targets, ext = self.r.callees(fi, e)
            out = set()
            for t in targets:
                if t.name == "__init__":
                    out.add(FRESH[0:1])
                    continue
                binding = self.bind_args(t, e, fi)
                for rp in self.return_paths(t):
                    s = self._subst(rp, binding)
                    out |= s if isinstance(s, set) else {s}
            if not targets:
                out.add(FRESH[0:1])
            return out
        return {FRESH[0:1]} if isinstance(e, (ast.List, ast.Dict, ast.Tuple, ast.Set, ast.ListComp, ast.DictComp,
                                               ast.SetComp, ast.GeneratorExp, ast.BinOp, ast.Constant,
                                               ast.JoinedStr, ast.Compare, ast.UnaryOp, ast.Lambda)) else set()

    def return_paths(self, fi):
        if fi.qual in self._retpaths:
            return self._retpaths[fi.qual]
        self._retpaths[fi.qual] = set()
        out = set()
        node = fi.node
        if isinstance(node, ast.Lambda):
            out |= self.paths_of(node.body, fi)
        else:
            for sub in walk_shallow(node):
                if isinstance(sub, ast.Return) and sub.value is not None:
                    out |= self.paths_of(sub.value, fi)
        out = {p for p in out if p[0][0] in ("param", "global", "fresh")}
        self._retpaths[fi.qual] = out
        return out

    def bind_args(self, callee, call, fi):
        """param name -> set of caller paths"""
        params = callee.params()
        binding = {}
        offset = 0
        is_method = callee.cls is not None and callee.parent is None and params and params[0] in ("self", "cls")
        if is_method:
            if callee.name == "__init__" and not (isinstance(call.func, ast.Attribute) and call.func.attr == "__init__"):
                binding[params[0]] = {FRESH[0:1]}
            elif isinstance(call.func, ast.Attribute):
                recv = call.func.value
                if isinstance(recv, ast.Call) and isinstance(recv.func, ast.Name) and recv.func.id == "super":
                    binding[params[0]] = self.lookup_name("self", fi)
                else:
                    binding[params[0]] = self.paths_of(recv, fi)
            elif isinstance(call.func, ast.Name):
                # instance being called (__call__) or class constructor
                binding[params[0]] = self.paths_of(call.func, fi) if callee.name == "__call__" else {FRESH[0:1]}
            offset = 1
        pos = params[offset:]
        for i, a in enumerate(call.args):
            if isinstance(a, ast.Starred):
                continue
            if i < len(pos):
                binding[pos[i]] = self.paths_of(a, fi)
        for k in call.keywords:
            if k.arg is not None:
                binding[k.arg] = self.paths_of(k.value, fi)
        return binding

    def _subst(self, path, binding):
        root = path[0]
        if root[0] == "param":
            bases = binding.get(root[1])
            if bases is None:
                return {FRESH[0:1]}
            out = set()
            for b in bases:
                out.add(b if is_fresh(b) else self.canon(b + path[1:]))
            return out
        return {path}

    # ------------------------------------------------------------------ local effects
    def recv_classes(self, fi, expr):
        names = set()
        for t in self.r.type_of(fi, expr):
            if t[0] in ("inst", "super"):
                for c in t[1].mro():
                    names.add(c.name)
        return names

    def value_is_item(self, fi, expr):
        """True / False / None(unknown): is the stored value a HeaderItem/CurveItem instance?"""
        # a copy has the type of what is copied; an element of a module-level table of items is an item
        if isinstance(expr, ast.Call) and ast.unparse(expr.func) in ("deepcopy", "copy.deepcopy", "copy.copy", "copy") and len(expr.args) >= 1:
            return self.value_is_item(fi, expr.args[0])
        if isinstance(expr, ast.Subscript) and isinstance(expr.value, ast.Name):
            gv = fi.module.globals.get(expr.value.id, [])
            if len(gv) == 1 and isinstance(gv[0], ast.Dict) and gv[0].values and all(
                    isinstance(v, ast.Call) and isinstance(v.func, ast.Name) and v.func.id in ITEM_CLASSES for v in gv[0].values):
                return True
        ts = self.r.type_of(fi, expr)
        if any(t[0] == "inst" and (set(c.name for c in t[1].mro()) & ITEM_CLASSES) for t in ts):
            return True
        if isinstance(expr, (ast.Constant, ast.JoinedStr, ast.BinOp, ast.List, ast.Dict, ast.Tuple, ast.Compare)):
            return False
        if isinstance(expr, ast.Call):
            targets, ext = self.r.callees(fi, expr)
            if targets and all(t.name != "__init__" for t in targets):
                rts = []
                for t in targets:
                    rts += self.r.return_type(t)
                if not any(x[0] == "inst" and (set(c.name for c in x[1].mro()) & ITEM_CLASSES) for x in rts):
                    return False
            if ext is not None and not targets:
                return False
        return None

    def local_effects(self, fi):
        if fi.qual in self._local:
            return self._local[fi.qual]
        effs = []
        self._local[fi.qual] = effs
        node = fi.node
        it = ast.walk(node.body) if isinstance(node, ast.Lambda) else walk_shallow(node)
        declared_global = set()
        for sub in (walk_shallow(node) if not isinstance(node, ast.Lambda) else []):
            if isinstance(sub, (ast.Global, ast.Nonlocal)):
                declared_global |= set(sub.names)
        for sub in it:
            if isinstance(sub, (ast.Assign, ast.AugAssign, ast.AnnAssign)):
                targets = sub.targets if isinstance(sub, ast.Assign) else [sub.target]
                rhs = getattr(sub, "value", None)
                for t in targets:
                    self._store_target(fi, t, rhs, sub, effs, declared_global, aug=isinstance(sub, ast.AugAssign))
            elif isinstance(sub, ast.Delete):
                for t in sub.targets:
                    if isinstance(t, ast.Subscript):
                        for pth in self.paths_of(t.value, fi):
                            if not is_fresh(pth):
                                effs.append(Effect("struct", pth, fi, sub))
                    elif isinstance(t, ast.Attribute):
                        for pth in self.paths_of(t.value, fi):
                            if not is_fresh(pth):
                                effs.append(Effect("store", self.canon(pth + (("attr", t.attr),)), fi, sub))
            elif isinstance(sub, (ast.For,)):
                # loop target that is an attribute/subscript (rare)
                if isinstance(sub.target, (ast.Attribute, ast.Subscript)):
                    self._store_target(fi, sub.target, None, sub, effs, declared_global)
            elif isinstance(sub, ast.Call):
                self._call_effects(fi, sub, effs)
        return effs

    def _store_target(self, fi, t, rhs, stmt, effs, declared_global, aug=False):
        if isinstance(t, (ast.Tuple, ast.List)):
            for e in t.elts:
                self._store_target(fi, e.value if isinstance(e, ast.Starred) else e, None, stmt, effs, declared_global)
            return
        if isinstance(t, ast.Name):
            if t.id in declared_global:
                effs.append(Effect("global", (("global", fi.module.name, t.id),), fi, stmt, rhs))
            elif aug:
                # x += ... on an aliased mutable (list +=) mutates in place
                for pth in self.lookup_name(t.id, fi):
                    if not is_fresh(pth) and pth[0][0] != "param" or (pth[0][0] == "param" and len(pth) > 1):
                        effs.append(Effect("struct", pth, fi, stmt, rhs))
            return
        if isinstance(t, ast.Attribute):
            rc = self.recv_classes(fi, t.value)
            for pth in self.paths_of(t.value, fi):
                if is_fresh(pth):
                    continue
                if rc & CONTAINER_CLASSES and not self._plain_container_attr(t.attr):
                    isitem = self.value_is_item(fi, rhs) if rhs is not None else None
                    ep = self.canon(pth + (("elem", t.attr),))
                    if isitem in (True, None):
                        effs.append(Effect("replace", ep, fi, stmt, rhs))
                    if isitem in (False, None):
                        effs.append(Effect("store", ep + (("attr", "value"),), fi, stmt, rhs))
                elif rc & ITEM_CLASSES and t.attr == "mnemonic":
                    effs.append(Effect("store", pth + (("attr", "mnemonic"),), fi, stmt, rhs))
                    effs.append(Effect("store", pth + (("attr", "original_mnemonic"),), fi, stmt, rhs))
                else:
                    effs.append(Effect("store", self.canon(pth + (("attr", t.attr),)), fi, stmt, rhs))
            return
        if isinstance(t, ast.Subscript):
            rc = self.recv_classes(fi, t.value)
            key = t.slice.value if isinstance(t.slice, ast.Constant) else "*"
            for pth in self.paths_of(t.value, fi):
                if is_fresh(pth):
                    continue
                if rc & CONTAINER_CLASSES:
                    isitem = self.value_is_item(fi, rhs) if rhs is not None else None
                    ep = self.canon(pth + (("elem", key),))
                    if isitem in (True, None):
                        effs.append(Effect("replace", ep, fi, stmt, rhs))
                    if isitem in (False, None):
                        effs.append(Effect("store", ep + (("attr", "value"),), fi, stmt, rhs))
                else:
                    effs.append(Effect("store", self.canon(pth + (("elem", key),)), fi, stmt, rhs))

    def _plain_container_attr(self, attr):
        return attr in ("mnemonic_transforms",)

    def _call_effects(self, fi, call, effs):
        f = call.func
        if isinstance(f, ast.Attribute):
            cn = f.attr
            recv = f.value
            is_super = isinstance(recv, ast.Call) and isinstance(recv.func, ast.Name) and recv.func.id == "super"
            rc = self.recv_classes(fi, recv) if not is_super else set()
            rpaths = self.lookup_name("self", fi) if is_super else self.paths_of(recv, fi)
            rpaths = {p for p in rpaths if not is_fresh(p)}
            if is_super:
                # super().append/insert/__setitem__/__delitem__/__setattr__
                if cn in LIST_MUTATORS | DICT_MUTATORS:
                    kind = "replace" if cn == "__setitem__" else "struct"
                    for pth in rpaths:
                        effs.append(Effect(kind, pth + ((("elem", "*"),) if kind == "replace" else ()), fi, call))
                elif cn == "__setattr__" and call.args:
                    a0 = call.args[0]
                    attr = a0.value if isinstance(a0, ast.Constant) else "*"
                    for pth in rpaths:
                        effs.append(Effect("store", pth + (("attr", attr),), fi, call))
                return
            if rc & CONTAINER_CLASSES:
                if cn in ("append", "insert", "pop", "remove", "extend", "sort", "reverse", "clear", "__delitem__"):
                    for pth in rpaths:
                        effs.append(Effect("struct", pth, fi, call))
                    return
                if cn in ("set_item", "__setitem__", "set_item_value", "__setattr__") and call.args:
                    key = call.args[0].value if isinstance(call.args[0], ast.Constant) else "*"
                    val = call.args[1] if len(call.args) > 1 else None
                    isitem = True if cn == "set_item" else (False if cn == "set_item_value" else (
                        self.value_is_item(fi, val) if val is not None else None))
                    for pth in rpaths:
                        ep = self.canon(pth + (("elem", key),))
                        if isitem in (True, None):
                            effs.append(Effect("replace", ep, fi, call, val))
                        if isitem in (False, None):
                            effs.append(Effect("store", ep + (("attr", "value"),), fi, call, val))
                    return
                if cn == "assign_duplicate_suffixes":
                    for pth in rpaths:
                        effs.append(Effect("store", pth + (("elem", "*"), ("attr", "mnemonic")), fi, call))
                    return
                if cn == "get":
                    addkw = [k for k in call.keywords if k.arg == "add"]
                    add3 = call.args[2] if len(call.args) > 2 else None
                    expr = addkw[0].value if addkw else add3
                    if expr is not None and not (isinstance(expr, ast.Constant) and expr.value in (False, None, 0)):
                        for pth in rpaths:
                            effs.append(Effect("struct", pth, fi, call))
                    return
                if cn in ("keys", "values", "items", "iterkeys", "itervalues", "iteritems", "dictview", "index",
                          "count", "copy", "mnemonic_compare", "__contains__", "__getitem__", "__str__", "__len__",
                          "__iter__"):
                    return
            if rc & ITEM_CLASSES:
                if cn == "set_session_mnemonic_only":
                    for pth in rpaths:
                        effs.append(Effect("store", pth + (("attr", "mnemonic"),), fi, call))
                    return
                if cn in ("__setattr__",) and call.args:
                    a0 = call.args[0]
                    attr = a0.value if isinstance(a0, ast.Constant) else "*"
                    for pth in rpaths:
                        effs.append(Effect("store", pth + (("attr", attr),), fi, call))
                        if attr == "mnemonic":
                            effs.append(Effect("store", pth + (("attr", "original_mnemonic"),), fi, call))
                    return
                if cn in ("__getitem__", "__repr__", "json", "_repr_pretty_", "useful_mnemonic"):
                    return
            # generic container / array mutators on tracked objects
            if not (rc - MODELLED_CLASSES) or not rc:
                if cn in LIST_MUTATORS | DICT_MUTATORS | ARRAY_MUTATORS and rpaths:
                    # str/format etc. never reach here; only mutator names
                    for pth in rpaths:
                        effs.append(Effect("struct", pth, fi, call))
            # numpy in-place functions: np.put(arr, ...)
            bts = self.r.type_of(fi, recv)
            if any(bt[0] == "mod" for bt in bts) and cn in NP_INPLACE_FUNCS and call.args:
                for pth in self.paths_of(call.args[0], fi):
                    if not is_fresh(pth):
                        effs.append(Effect("struct", pth, fi, call))
            for k in call.keywords:
                if k.arg == "out":
                    for pth in self.paths_of(k.value, fi):
                        if not is_fresh(pth):
                            effs.append(Effect("struct", pth, fi, call))
        elif isinstance(f, ast.Name):
            if f.id == "setattr" and len(call.args) >= 2:
                a1 = call.args[1]
                attr = a1.value if isinstance(a1, ast.Constant) else "*"
                for pth in self.paths_of(call.args[0], fi):
                    if not is_fresh(pth):
                        effs.append(Effect("store", self.canon(pth + (("attr", attr),)), fi, call))
            elif f.id == "delattr" and len(call.args) >= 2:
                for pth in self.paths_of(call.args[0], fi):
                    if not is_fresh(pth):
                        effs.append(Effect("store", pth + (("attr", "*"),), fi, call))

    # ------------------------------------------------------------------ transitive summaries
    def modelled(self, fi):
        """methods of contract-modelled classes are not propagated into (their effect is the contract)"""
        return fi.cls is not None and fi.cls.name in MODELLED_CLASSES

    def summary(self, fi, depth=0):
        """effects of fi (and everything it calls) expressed over fi's own params / globals"""
        if fi.qual in self._summary:
            return self._summary[fi.qual]
        if fi.qual in self._in_progress or depth > 12:
            return []
        self._in_progress.add(fi.qual)
        out = {}
        for e in self.local_effects(fi):
            if e.path[0][0] in ("param", "global", "closure"):
                out.setdefault(e.key(), e)
        node = fi.node
        it = ast.walk(node.body) if isinstance(node, ast.Lambda) else walk_shallow(node)
        for sub in it:
            callees = []
            if isinstance(sub, ast.Call):
                targets, ext = self.r.callees(fi, sub)
                for t in targets:
                    callees.append((t, self.bind_args(t, sub, fi), sub))
            elif isinstance(sub, ast.Attribute):
                for t in self.r.implicit_callees(fi, sub):
                    if self.modelled(t):
                        continue
                    b = {"self": self.paths_of(sub.value, fi)}
                    callees.append((t, b, sub))
            for t, binding, site in callees:
                if self.modelled(t) and not (fi.cls is not None and fi.cls.name in MODELLED_CLASSES):
                    # contract-modelled: handled by _call_effects / _store_target at this call site
                    continue
                for ce in self.summary(t, depth + 1):
                    for np_ in self._subst(ce.path, binding) if ce.path[0][0] == "param" else [ce.path]:
                        if is_fresh(np_):
                            continue
                        ne = Effect(ce.kind, np_, ce.fi, ce.node, ce.rhs, via=(fi.qual,) + ce.via)
                        out.setdefault(ne.key(), ne)
        # nested functions defined here and their closure effects
        for nf in fi.nested.values():
            for ce in self.summary(nf, depth + 1):
                if ce.path[0][0] in ("param",):
                    # parameter of the nested function: only matters when called; approximated by the
                    # call-site propagation above
                    if ce.path[0][1] in nf.params():
                        continue
                out.setdefault(ce.key(), Effect(ce.kind, ce.path, ce.fi, ce.node, ce.rhs, via=(fi.qual,) + ce.via))
        self._in_progress.discard(fi.qual)
        res = list(out.values())
        self._summary[fi.qual] = res
        return res


def _add(env, name, paths):
    cur = env.setdefault(name, set())
    before = len(cur)
    cur |= set(paths)
    return len(cur) != before


def _elem(paths):
    return {p + (("elem", "*"),) if not is_fresh(p) else p for p in paths}


def get_effects(project):
    return project.cached("effects", lambda: EffectAnalysis(project))
