"""Callee resolution and a light, flow-insensitive receiver typing for the lasio package.

Types are small tuples:
  ("inst", ClassInfo)   instance of a lasio class
  ("cls", ClassInfo)    the class object itself
  ("func", FuncInfo)    a lasio function / bound method / lambda
  ("mod", name)         a module (lasio-internal: "lasio.reader"; external: "re", "numpy" ...)
  ("ext", text)         something external / unknown but named
The *type-seed table* below records repository facts confirmed by reading (DESIGN.md 3.1).
"""
import ast

from .loader import walk_shallow, walk_expr_shallow

# (class name, attribute) -> class names of the value
ATTR_SEEDS = {
    ("LASFile", "version"): ["SectionItems"],
    ("LASFile", "well"): ["SectionItems"],
    ("LASFile", "curves"): ["SectionItems"],
    ("LASFile", "params"): ["SectionItems"],
    ("ExcelConverter", "las"): ["LASFile"],
}
# (function qualname, parameter) -> class names
PARAM_SEEDS = {
    ("writer.write", "las"): ["LASFile"],
    ("writer.get_section_widths", "items"): ["SectionItems"],
    ("excel.ExcelConverter.__init__", "las"): ["LASFile"],
    ("excel.ExcelConverter.set_las", "las"): ["LASFile"],
    ("las.LASFile.insert_curve_item", "curve_item"): ["CurveItem"],
    ("las.LASFile.append_curve_item", "curve_item"): ["CurveItem"],
    ("las.LASFile.replace_curve_item", "curve_item"): ["CurveItem"],
    ("las_items.SectionItems.append", "newitem"): ["HeaderItem", "CurveItem"],
    ("las_items.SectionItems.insert", "newitem"): ["HeaderItem", "CurveItem"],
    ("las_items.SectionItems.set_item", "newitem"): ["HeaderItem", "CurveItem"],
    ("las_items.SectionItems.__setitem__", "newitem"): ["HeaderItem", "CurveItem"],
    ("las.JSONEncoder.default", "obj"): ["LASFile"],
}
# iterating / integer-indexing / key-indexing an instance of these yields instances of those
ELEMENT_SEEDS = {"SectionItems": ["HeaderItem", "CurveItem"]}
# methods returning self / an element
RETURNS_SELF = {"las_items.SectionItems.values"}
RETURNS_ELEMENT = {"las_items.SectionItems.__getitem__", "las_items.SectionItems.get",
                   "las_items.SectionItems.__getattr__", "las.LASFile.get_curve"}
# dict-valued attribute: LASFile.sections[<const>] -> SectionItems (except "Other": str)
SECTIONS_ATTR = ("LASFile", "sections")

import io as _io
import logging as _logging

BUILTIN_CONTAINER_METHODS = set()
for _t in (str, bytes, list, dict, set, tuple, frozenset, int, float, _io.TextIOWrapper, _io.StringIO, _io.BytesIO,
           _logging.Logger):
    BUILTIN_CONTAINER_METHODS |= {n for n in dir(_t) if not n.startswith("__")}
BUILTIN_CONTAINER_METHODS |= {"trace_lasio", "groupdict", "group", "groups", "findall", "match", "search", "sub",
                              "fullmatch", "wrap", "writerow", "astype", "reshape", "copy", "tolist", "cell",
                              "save", "create_sheet", "absolute", "items", "get_content_charset", "set_index"}


class Resolver(object):
    def __init__(self, project):
        self.p = project
        self.cls_by_name = {}
        for c in project.classes.values():
            self.cls_by_name.setdefault(c.name, c)
        self._env = {}
        self.unresolved = []
        self.resolved = 0
        self.total = 0
        self._func_attr_targets = None

    # ---- helpers ----
    def _classes(self, names):
        return [("inst", self.cls_by_name[n]) for n in names if n in self.cls_by_name]

    def _lasio_module(self, modname):
        if modname.startswith("lasio."):
            return self.p.modules.get(modname.split(".", 1)[1])
        return None

    def name_type(self, fi, name):
        """types of a bare name used inside fi"""
        env = self.env(fi)
        if name in env:
            return env[name]
        # enclosing function scopes
        par = fi.parent
        while par is not None:
            e = self.env(par)
            if name in e:
                return e[name]
            par = par.parent
        mod = fi.module
        if name in mod.globals and name not in mod.functions and name not in mod.classes:
            return [("ext", "global:" + name)]
        if name in mod.functions:
            return [("func", mod.functions[name])]
        if name in mod.classes:
            return [("cls", mod.classes[name])]
        imp = mod.imports.get(name)
        if imp:
            if imp[0] == "module":
                return [("mod", imp[1])]
            m = self._lasio_module(imp[1])
            if m is not None:
                if imp[2] in m.functions:
                    return [("func", m.functions[imp[2]])]
                if imp[2] in m.classes:
                    return [("cls", m.classes[imp[2]])]
                return [("ext", imp[1] + "." + imp[2])]
            return [("ext", imp[1] + "." + imp[2])]
        return []

    def env(self, fi):
        if fi.qual in self._env:
            return self._env[fi.qual]
        env = {}
        self._env[fi.qual] = env
        node = fi.node
        params = fi.params()
        if fi.cls is not None and params and fi.parent is None and not _is_static(node):
            env[params[0]] = [("inst", fi.cls)]
        for pn in params:
            seed = PARAM_SEEDS.get((fi.qual, pn))
            if seed:
                env[pn] = self._classes(seed)
        # nested defs / lambdas bound to names
        for nm, nf in fi.nested.items():
            if not nm.startswith("<lambda"):
                env[nm] = [("func", nf)]
        if isinstance(node, ast.Lambda):
            return env
        for _ in range(3):
            for sub in walk_shallow(node):
                if isinstance(sub, ast.Assign):
                    for t in sub.targets:
                        self._bind(fi, env, t, sub.value)
                elif isinstance(sub, (ast.For, ast.comprehension)):
                    elt = self.element_type(fi, sub.iter)
                    tgt = sub.target
                    if isinstance(sub.iter, ast.Call) and _callname(sub.iter) == "enumerate" and sub.iter.args:
                        elt = self.element_type(fi, sub.iter.args[0])
                        if isinstance(tgt, ast.Tuple) and len(tgt.elts) == 2:
                            tgt = tgt.elts[1]
                    elif isinstance(sub.iter, ast.Call) and _callname(sub.iter) == "items" and isinstance(tgt, ast.Tuple):
                        elt = []
                    if isinstance(tgt, ast.Name) and elt:
                        _merge(env, tgt.id, elt)
                elif isinstance(sub, ast.Import):
                    for a in sub.names:
                        _merge(env, a.asname or a.name.split(".")[0], [("mod", a.name)])
                elif isinstance(sub, ast.ImportFrom):
                    base = sub.module or ""
                    for a in sub.names:
                        alias = a.asname or a.name
                        if sub.level and not base:
                            _merge(env, alias, [("mod", "lasio." + a.name)])
                        else:
                            modname = ("lasio." + base) if sub.level else base
                            m = self._lasio_module(modname)
                            if m is not None and a.name in m.functions:
                                _merge(env, alias, [("func", m.functions[a.name])])
                            elif m is not None and a.name in m.classes:
                                _merge(env, alias, [("cls", m.classes[a.name])])
                            else:
                                _merge(env, alias, [("ext", modname + "." + a.name)])
                elif isinstance(sub, (ast.With,)):
                    for it in sub.items:
                        if isinstance(it.optional_vars, ast.Name):
                            _merge(env, it.optional_vars.id, self.type_of(fi, it.context_expr))
        return env

    def _bind(self, fi, env, target, value):
        if isinstance(target, ast.Name):
            ts = self.type_of(fi, value)
            if ts:
                _merge(env, target.id, ts)
        elif isinstance(target, (ast.Tuple, ast.List)) and isinstance(value, (ast.Tuple, ast.List)) and len(
                target.elts) == len(value.elts):
            for t, v in zip(target.elts, value.elts):
                self._bind(fi, env, t, v)

    def element_type(self, fi, expr):
        out = []
        for t in self.type_of(fi, expr):
            if t[0] == "inst":
                for c in t[1].mro():
                    if c.name in ELEMENT_SEEDS:
                        out += self._classes(ELEMENT_SEEDS[c.name])
                        break
        return out

    def type_of(self, fi, e):
        if isinstance(e, ast.Name):
            return list(self.name_type(fi, e.id))
        if isinstance(e, ast.Lambda):
            li = getattr(e, "_lambda_info", None)
            return [("func", li)] if li else []
        if isinstance(e, ast.IfExp):
            return self.type_of(fi, e.body) + self.type_of(fi, e.orelse)
        if isinstance(e, ast.Attribute):
            out = []
            for bt in self.type_of(fi, e.value):
                out += self.attr_type(bt, e.attr)
            return out
        if isinstance(e, ast.Subscript):
            if isinstance(e.value, ast.Attribute) and e.value.attr == "sections":
                base = self.type_of(fi, e.value.value)
                if any(t[0] == "inst" and t[1].name == "LASFile" for t in base):
                    if isinstance(e.slice, ast.Constant) and e.slice.value == "Other":
                        return [("ext", "str")]
                    return self._classes(["SectionItems"])
            if isinstance(e.slice, ast.Slice):
                return self.type_of(fi, e.value)
            return self.element_type(fi, e.value)
        if isinstance(e, ast.Call):
            out = []
            cn = _callname(e)
            if cn in ("deepcopy", "copy") and e.args:
                return self.type_of(fi, e.args[0])
            if cn == "super":
                if fi.cls is not None:
                    top = fi
                    while top.parent is not None:
                        top = top.parent
                    return [("super", top.cls)]
                return []
            for ft in self.type_of(fi, e.func):
                if ft[0] == "cls":
                    out.append(("inst", ft[1]))
                elif ft[0] == "func":
                    q = ft[1].qual
                    if q in RETURNS_SELF and isinstance(e.func, ast.Attribute):
                        out += self.type_of(fi, e.func.value)
                    elif q in RETURNS_ELEMENT and isinstance(e.func, ast.Attribute):
                        out += self.element_type(fi, e.func.value)
                    else:
                        out += self.return_type(ft[1])
            return out
        return []

    def return_type(self, callee, _depth=0):
        """types returned by a lasio function (functions/lambdas/classes only; depth-bounded)"""
        if _depth > 2:
            return []
        out = []
        node = callee.node
        if isinstance(node, ast.Lambda):
            return self.type_of(callee, node.body)
        for sub in walk_shallow(node):
            if isinstance(sub, ast.Return) and sub.value is not None:
                for t in self.type_of(callee, sub.value):
                    if t[0] in ("func", "inst", "cls") and t not in out:
                        out.append(t)
        return out

    def attr_type(self, bt, attr):
        if bt[0] == "mod":
            m = self._lasio_module(bt[1]) if bt[1].startswith("lasio.") else None
            if m is not None:
                if attr in m.functions:
                    return [("func", m.functions[attr])]
                if attr in m.classes:
                    return [("cls", m.classes[attr])]
                return [("ext", bt[1] + "." + attr)]
            return [("ext", bt[1] + "." + attr)]
        if bt[0] in ("inst", "cls", "super"):
            cls = bt[1]
            mro = cls.mro()
            if bt[0] == "super":
                mro = mro[1:]
            for c in mro:
                seed = ATTR_SEEDS.get((c.name, attr))
                if seed:
                    return self._classes(seed)
            for c in mro:
                if attr in c.methods:
                    m = c.methods[attr]
                    if _is_property(m.node):
                        rt = self.return_type(m)
                        return rt if rt else [("propval", m)]
                    return [("func", m)]
            # function-valued instance attributes (self.func = self.metadata)
            tg = self.func_attr_targets().get((cls.name, attr))
            if tg:
                return [("func", f) for f in tg]
            if bt[0] == "super":
                return [("ext", "super()." + attr)]
            return []
        return []

    def func_attr_targets(self):
        if self._func_attr_targets is None:
            d = {}
            for fi in self.p.functions.values():
                if fi.cls is None or isinstance(fi.node, ast.Lambda):
                    continue
                for sub in walk_shallow(fi.node):
                    if isinstance(sub, ast.Assign) and len(sub.targets) == 1:
                        t = sub.targets[0]
                        if (isinstance(t, ast.Attribute) and isinstance(t.value, ast.Name) and t.value.id == "self"
                                and isinstance(sub.value, ast.Attribute) and isinstance(sub.value.value, ast.Name)
                                and sub.value.value.id == "self"):
                            m = fi.cls.find_method(sub.value.attr)
                            if m is not None and not _is_property(m.node):
                                d.setdefault((fi.cls.name, t.attr), [])
                                if m not in d[(fi.cls.name, t.attr)]:
                                    d[(fi.cls.name, t.attr)].append(m)
            self._func_attr_targets = d
        return self._func_attr_targets

    # ---- calls ----
    def callees(self, fi, call):
        """(list of FuncInfo targets, external description or None)"""
        self.total += 1
        targets = []
        ext = None
        f = call.func
        fts = self.type_of(fi, f)
        for ft in fts:
            if ft[0] == "func":
                if ft[1] not in targets:
                    targets.append(ft[1])
            elif ft[0] == "cls":
                init = ft[1].find_method("__init__")
                if init is not None and init not in targets:
                    targets.append(init)
                elif init is None:
                    ext = "ctor:" + ft[1].name
            elif ft[0] == "inst":
                m = ft[1].find_method("__call__")
                if m is not None and m not in targets:
                    targets.append(m)
            elif ft[0] in ("ext", "mod"):
                ext = ft[1]
        if not targets and ext is None:
            if isinstance(f, ast.Attribute):
                bts = self.type_of(fi, f.value)
                if any(t[0] in ("inst", "super") for t in bts):
                    ext = "inherited:" + f.attr      # method of an external base (list/OrderedDict/JSONEncoder)
                elif any(t[0] in ("ext", "mod", "propval") for t in bts):
                    ext = ast.unparse(f)
                else:
                    # unknown receiver: fall back on the method name if it is unmistakably lasio's
                    if f.attr in BUILTIN_CONTAINER_METHODS or f.attr.startswith("__"):
                        ext = "builtin-method:" + f.attr
                    else:
                        cands = [c.methods[f.attr] for c in self.p.classes.values() if f.attr in c.methods]
                        if cands:
                            targets = cands
                        else:
                            ext = "unknown-receiver." + f.attr
            elif isinstance(f, ast.Name):
                ext = "builtin:" + f.id
            else:
                ext = ast.unparse(f)
        if targets or (ext and not ext.startswith("unknown-receiver")):
            self.resolved += 1
        else:
            self.unresolved.append((fi.qual, call.lineno, ast.unparse(f)))
        return targets, ext

    def implicit_callees(self, fi, node):
        """lasio functions invoked implicitly by a non-call node: property loads, attribute stores through
        __setattr__, subscripts through __getitem__/__setitem__/__delitem__, `in` through __contains__"""
        out = []
        if isinstance(node, ast.Attribute):
            for bt in self.type_of(fi, node.value):
                if bt[0] not in ("inst",):
                    continue
                cls = bt[1]
                if isinstance(node.ctx, ast.Load):
                    m = cls.find_method(node.attr)
                    if m is not None and _is_property(m.node):
                        out.append(m)
                    elif m is None and (cls.name, node.attr) not in ATTR_SEEDS:
                        ga = cls.find_method("__getattr__")
                        if ga is not None and not self._is_plain_attr(cls, node.attr):
                            out.append(ga)
                elif isinstance(node.ctx, ast.Store):
                    m = cls.find_method(node.attr + ".setter")
                    if m is not None:
                        out.append(m)
                    sa = cls.find_method("__setattr__")
                    if sa is not None:
                        out.append(sa)
        elif isinstance(node, ast.Subscript):
            for bt in self.type_of(fi, node.value):
                if bt[0] != "inst":
                    continue
                name = {"Load": "__getitem__", "Store": "__setitem__", "Del": "__delitem__"}[type(node.ctx).__name__]
                m = bt[1].find_method(name)
                if m is not None:
                    out.append(m)
        elif isinstance(node, ast.Compare):
            for op, comp in zip(node.ops, node.comparators):
                if isinstance(op, (ast.In, ast.NotIn)):
                    for bt in self.type_of(fi, comp):
                        if bt[0] == "inst":
                            m = bt[1].find_method("__contains__")
                            if m is not None:
                                out.append(m)
        return out

    def _is_plain_attr(self, cls, attr):
        """attribute assigned as self.<attr> somewhere in the class hierarchy"""
        for c in cls.mro():
            for m in c.methods.values():
                for sub in ast.walk(m.node):
                    if (isinstance(sub, ast.Attribute) and sub.attr == attr and isinstance(sub.ctx, ast.Store)
                            and isinstance(sub.value, ast.Name) and sub.value.id == "self"):
                        return True
        return False

    # ---- call graph ----
    def closure(self, roots, stop=None, implicit=True):
        """functions reachable from roots (FuncInfo list). stop(fi, call_node) -> True: do not follow this call"""
        seen = {}
        work = list(roots)
        while work:
            fi = work.pop()
            if fi.qual in seen:
                continue
            seen[fi.qual] = fi
            for callee in self.direct_callees(fi, stop, implicit):
                if callee.qual not in seen:
                    work.append(callee)
        return seen

    def direct_callees(self, fi, stop=None, implicit=True):
        out = []
        for sub in walk_shallow(fi.node):
            if isinstance(sub, ast.Call):
                if stop is not None and stop(fi, sub):
                    continue
                tg, ext = self.callees(fi, sub)
                for t in tg:
                    if t not in out:
                        out.append(t)
            elif implicit and isinstance(sub, (ast.Attribute, ast.Subscript, ast.Compare)):
                if stop is not None and stop(fi, sub):
                    continue
                for t in self.implicit_callees(fi, sub):
                    if t not in out:
                        out.append(t)
            elif isinstance(sub, (ast.FunctionDef, ast.Lambda)):
                # nested definitions are followed when they are called or returned; include conservatively
                nf = None
                for cand in fi.nested.values():
                    if cand.node is sub:
                        nf = cand
                if nf is not None and nf not in out:
                    out.append(nf)
        return out


def _merge(env, name, types):
    cur = env.setdefault(name, [])
    for t in types:
        if t not in cur:
            cur.append(t)


def _callname(call):
    f = call.func
    if isinstance(f, ast.Name):
        return f.id
    if isinstance(f, ast.Attribute):
        return f.attr
    return ""


def _is_property(node):
    for d in getattr(node, "decorator_list", []):
        if isinstance(d, ast.Name) and d.id == "property":
            return True
        if isinstance(d, ast.Attribute) and d.attr in ("getter",):
            return True
    return False


def _is_static(node):
    for d in getattr(node, "decorator_list", []):
        if isinstance(d, ast.Name) and d.id in ("staticmethod",):
            return True
    return False


def get_resolver(project):
    return project.cached("resolver", lambda: Resolver(project))
