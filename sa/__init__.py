"""Static-analysis engine for the lasio properties (nothing here imports or runs lasio)."""
import os
import sys

_NX_WHEEL = "/opt/veriftools/wheels/networkx-3.6.1-py3-none-any.whl"


def networkx():
    """zip-import networkx in place (nothing is installed); None if unavailable."""
    try:
        import networkx as nx  # noqa
        return nx
    except ImportError:
        pass
    if os.path.exists(_NX_WHEEL) and _NX_WHEEL not in sys.path:
        sys.path.insert(0, _NX_WHEEL)
    try:
        import networkx as nx  # noqa
        return nx
    except ImportError:
        return None


class AnalysisError(Exception):
    """The analysis itself cannot proceed (anchor vanished, construct not understood).

    Reported as ANALYSIS-ERROR / exit 2; never as a violation and never as a pass.
    """


class ShapeNotRecognised(AnalysisError):
    """The anchor function is there, but the construct a rule reasons about has moved into a form the rule does not model
    (e.g. the line loop now lives in a generator the function iterates).  Reported as UNDECIDED for that rule (exit status
    unchanged): neither a violation nor a discharge."""
